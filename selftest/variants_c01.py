D = 'vermouth/processors/do_mapping.py'
VARIANTS = [
    dict(name='reference-branch-bulk-update (original defect F13)', expect='fire', key='BULK-per-attribute|reference', edits=[
        dict(file=D, old="                if attr in attribute_keep or attr not in graph_out.nodes[out_idx]:\n                    graph_out.nodes[out_idx][attr] = val\n                if attr in attribute_stash:\n                    graph_out.nodes[out_idx][\"_old_\"+attr] = val",
             new="                if attr in attribute_keep or attr not in graph_out.nodes[out_idx]:\n                    graph_out.nodes[out_idx].update(new_attrs)\n                if attr in attribute_stash:\n                    graph_out.nodes[out_idx][\"_old_\"+attr] = val")]),
    dict(name='edges-from-all-molecule-edges (seed C01_a)', expect='fire', key='PROV-', edits=[
        dict(file=D, old="    for match1, match2 in combinations(all_matches, 2):\n        match1 = match1[0]\n        match2 = match2[0]\n        edges = molecule.edges_between(match1.keys(), match2.keys())\n        # TODO: Backmapping needs love here\n        for mol_idx, mol_jdx in edges:\n            # Subtract none_to_one_mappings, since those should not be made to\n            # connect to things automatically.\n            out_idxs = mol_to_out[mol_idx].keys() - none_to_one_mappings\n            out_jdxs = mol_to_out[mol_jdx].keys() - none_to_one_mappings\n            for out_idx, out_jdx in product(out_idxs, out_jdxs):\n                if out_idx != out_jdx:\n                    graph_out.add_edge(out_idx, out_jdx)\n",
             new="    match_of = {mol_idx: match_idx\n                for match_idx, match in enumerate(all_matches)\n                for mol_idx in match[0]}\n    for mol_idx, mol_jdx in molecule.edges:\n        if match_of.get(mol_idx) == match_of.get(mol_jdx):\n            continue\n        out_idxs = mol_to_out[mol_idx].keys() - none_to_one_mappings\n        out_jdxs = mol_to_out[mol_jdx].keys() - none_to_one_mappings\n        for out_idx, out_jdx in product(out_idxs, out_jdxs):\n            if out_idx != out_jdx:\n                graph_out.add_edge(out_idx, out_jdx)\n")]),
    dict(name='spawned-in-block-key-space (seed C01_b)', expect='fire', key='PROV-weights|spawned', edits=[
        dict(file=D, old="    none_to_one_mappings = set()\n    mapped_block_idxs =", new="    mapped_block_idxs ="),
        dict(file=D, old="    for spawned in set(blocks_to.nodes) - mapped_block_idxs:", new="    none_to_one_mappings = set(blocks_to.nodes) - mapped_block_idxs\n    for spawned in none_to_one_mappings:"),
        dict(file=D, old="        spawned = block_to_out[spawned]\n        none_to_one_mappings.add(spawned)\n        for mol_idx in mol_to_block:\n            mol_to_out[mol_idx][spawned] = 0\n            out_to_mol[spawned][mol_idx] = 0",
             new="        out_idx = block_to_out[spawned]\n        for mol_idx in mol_to_block:\n            mol_to_out[mol_idx][out_idx] = 0\n            out_to_mol[out_idx][mol_idx] = 0")]),
    dict(name='unmapped-demoted-to-info', expect='fire', key='MPT-unmapped|level', edits=[
        dict(file=D, old="            LOGGER.warning(\"These atoms are not covered by a mapping. Either\"", new="            LOGGER.info(\"These atoms are not covered by a mapping. Either\"")]),
    dict(name='unmapped-only-if-many', expect='fire', key='MPT-unmapped|guard', edits=[
        dict(file=D, old="        if other_uncovered:\n", new="        if len(other_uncovered) > 1:\n")]),
    dict(name='unmapped-excludes-deuterium-and-more', expect='fire', key='MPT-unmapped|set', edits=[
        dict(file=D, old="if molecule.nodes[idx].get('element', '') == 'H'}", new="if molecule.nodes[idx].get('element', '') in ('H', 'D', 'O')}")]),
    dict(name='early-return-before-checks', expect='fire', key='MPT-unmapped|unskippable', edits=[
        dict(file=D, old="    ############################\n    # Sanity check the results #\n    ############################\n", new="    if not to_remove and not overlapping_mappings and len(graph_out) > 0:\n        return graph_out\n")]),
    dict(name='overlap-after-update', expect='fire', key='PROV-overlap|computed', edits=[
        dict(file=D, old="    overlap = set(mol_to_out.keys()) & set(mol_to_block.keys())\n    for mol_idx in mol_to_block:\n        for block_idx, weight in mol_to_block[mol_idx].items():\n            out_idx = block_to_out[block_idx]\n            mol_to_out[mol_idx][out_idx] = weight\n            out_to_mol[out_idx][mol_idx] = weight\n",
             new="    for mol_idx in mol_to_block:\n        for block_idx, weight in mol_to_block[mol_idx].items():\n            out_idx = block_to_out[block_idx]\n            mol_to_out[mol_idx][out_idx] = weight\n            out_to_mol[out_idx][mol_idx] = weight\n    overlap = set(mol_to_out.keys()) & set(mol_to_block.keys())\n")]),
    dict(name='zero-weights-not-recorded', expect='fire', key='PROV-weights|block', edits=[
        dict(file=D, old="            out_idx = block_to_out[block_idx]\n            mol_to_out[mol_idx][out_idx] = weight\n            out_to_mol[out_idx][mol_idx] = weight\n\n    none_to_one",
             new="            out_idx = block_to_out[block_idx]\n            if not weight:\n                continue\n            mol_to_out[mol_idx][out_idx] = weight\n            out_to_mol[out_idx][mol_idx] = weight\n\n    none_to_one")]),
    dict(name='match-not-recorded-for-mods', expect='fire', key='MPT-one-copy|loop', edits=[
        dict(file=D, old="            overlapping_mappings.update(overlap)\n            none_to_one_mappings.update(none_to_one)\n        all_matches.append(match)",
             new="            overlapping_mappings.update(overlap)\n            none_to_one_mappings.update(none_to_one)\n            all_matches.append(match)")]),
    dict(name='stash-missing-in-reference-branch', expect='fire', key='SIB-stash|reference', edits=[
        dict(file=D, old="                    graph_out.nodes[out_idx][attr] = val\n                if attr in attribute_stash:\n                    graph_out.nodes[out_idx][\"_old_\"+attr] = val\n        else:", new="                    graph_out.nodes[out_idx][attr] = val\n        else:")]),
    dict(name='edges-between-same-placement-too', expect='fire', key='PROV-edges', edits=[
        dict(file=D, old="    for match1, match2 in combinations(all_matches, 2):", new="    for match1, match2 in product(all_matches, all_matches):")]),
    dict(name='benign-rename-match-vars', expect='silent', edits=[
        dict(file=D, old="                if out_idx != out_jdx:\n                    graph_out.add_edge(out_idx, out_jdx)", new="                if not out_idx == out_jdx:\n                    graph_out.add_edge(out_idx, out_jdx)")]),
    dict(name='cover-any-item-qualifies', expect='fire', key='MPT-mod-groups|exact-cover', edits=[
        dict(file=D, old="        if all(item in to_cover for item in option):", new="        if any(item in to_cover for item in option):")]),
    dict(name='first-modification-placement-only', expect='fire', key='MPT-mod-groups|all-placements', edits=[
        dict(file=D, old="            modified_nodes -= set(mol_to_mod)\n    return matches", new="            modified_nodes -= set(mol_to_mod)\n            break\n    return matches")]),
    dict(name='uncovered-group-aborts-selection', expect='fire', key='MPT-mod-groups|select', edits=[
        dict(file=D, old="                           type='unmapped-atom')\n            continue\n        needed_mod_mappings.update(covered_by)", new="                           type='unmapped-atom')\n            break\n        needed_mod_mappings.update(covered_by)")]),
    dict(name='attrs_from_node-applies-replacements-to-the-original', expect='fire', key='ALIAS-source|vermouth/processors/do_mapping.py|attrs_from_node|node', edits=[
        dict(file=D, old="        node = node.copy()\n        node.update(node['replace'])", new="        work = node.copy()\n        node.update(node['replace'])\n        node = work")]),
    dict(name='helper edges_between looks at one direction of the bunches only', expect='fire', key='HELPER-contract|vermouth/molecule.py|Molecule.edges_between', edits=[
        dict(file='vermouth/molecule.py', old="            cross = set_2 & set(self[node1])", new="            cross = {n for n in set_2 & set(self[node1]) if n > node1}")]),
    dict(name='helper attributes_match stops at the first attribute', expect='fire', key='HELPER-contract|vermouth/molecule.py|attributes_match', edits=[
        dict(file='vermouth/molecule.py', old="            if isinstance(value, LinkPredicate) and value.match(attributes, attr):\n                continue\n            return False\n    return True", new="            if isinstance(value, LinkPredicate) and value.match(attributes, attr):\n                continue\n            return False\n        return True\n    return True")]),
]
