I = 'vermouth/gmx/itp.py'
M = 'vermouth/molecule.py'
VARIANTS = [
    dict(name='table-from-node-order (seed C02_a)', expect='fire', key='PROV-renumber', edits=[
        dict(file=I, old="    correspondence = {}\n", new="    correspondence = dict(zip(molecule.nodes, itertools.count(1)))\n"),
        dict(file=I, old="        correspondence[original_idx] = idx\n", new="")]),
    dict(name='endif-outside-group-loop (seed C02_b)', expect='fire', key='PAIR-guard|itp', edits=[
        dict(file=I, old="            if conditional:\n                outfile.write('#endif\\n')\n            for line in post_section_lines.get(name, []):\n                outfile.write(line + '\\n')\n            outfile.write('\\n')\n",
             new="        if conditional:\n            outfile.write('#endif\\n')\n        for line in post_section_lines.get(name, []):\n            outfile.write(line + '\\n')\n        outfile.write('\\n')\n")]),
    dict(name='raw-key-written', expect='fire', key='PROV-renumber|taint', edits=[
        dict(file=I, old=".format(atom_idx=correspondence[x],", new=".format(atom_idx=x,")]),
    dict(name='atoms-in-node-order', expect='fire', key='MPT-atoms|iterator', edits=[
        dict(file=I, old="for idx, original_idx in enumerate(molecule.sorted_nodes, start=1):", new="for idx, original_idx in enumerate(molecule.nodes, start=1):")]),
    dict(name='numbering-from-zero', expect='fire', key='MPT-atoms|start', edits=[
        dict(file=I, old="for idx, original_idx in enumerate(molecule.sorted_nodes, start=1):", new="for idx, original_idx in enumerate(molecule.sorted_nodes, start=0):")]),
    dict(name='skip-massless-atoms', expect='fire', key='MPT-atoms|one-line-each', edits=[
        dict(file=I, old="        atom = molecule.nodes[original_idx]\n        correspondence[original_idx] = idx\n", new="        atom = molecule.nodes[original_idx]\n        correspondence[original_idx] = idx\n        if atom.get('mass') == 0 and atom.get('atype') is None:\n            continue\n")]),
    dict(name='skip-zero-parameter-interactions', expect='fire', key='MPT-all-interactions|one-line-each', edits=[
        dict(file=I, old="            for interaction in interactions_in_group:\n                atoms = [", new="            for interaction in interactions_in_group:\n                if not interaction.parameters:\n                    continue\n                atoms = [")]),
    dict(name='groupby-different-key', expect='fire', key='SIB-group-key|itp', edits=[
        dict(file=I, old="        interaction_grouped = itertools.groupby(\n            interactions_group_sorted,\n            key=_interaction_sorting_key\n        )",
             new="        interaction_grouped = itertools.groupby(\n            interactions_group_sorted,\n            key=lambda i: (i.meta.get('ifdef'), i.meta.get('group'))\n        )")]),
    dict(name='virtual-sitesn-like-others', expect='fire', key='TAB-sections|virtual_sitesn', edits=[
        dict(file=I, old="                if name == 'virtual_sitesn':\n                    to_join = [atoms[0], parameters] + atoms[1:]\n                else:\n                    to_join = atoms + [parameters]",
             new="                to_join = atoms + [parameters]")]),
    dict(name='impropers-own-header', expect='fire', key='TAB-sections|impropers', edits=[
        dict(file=I, old="        if name == 'impropers':\n            name = 'dihedrals'\n", new="")]),
    dict(name='ifndef-written-as-ifdef', expect='fire', key='PAIR-guard|keywords', edits=[
        dict(file=I, old="conditional_keys = {True: '#ifdef', False: '#ifndef'}", new="conditional_keys = {True: '#ifdef', False: '#ifdef'}")]),
    dict(name='sort-interactions-drops-exclusions', expect='fire', key='MPT-all-interactions|sort_interactions', edits=[
        dict(file=M, old="            if not interactions:\n                continue\n            sort_keys[interaction_type]", new="            if not interactions or interaction_type == 'exclusions':\n                continue\n            sort_keys[interaction_type]")]),
    dict(name='benign-rename-table', expect='silent', edits=[
        dict(file=I, old="    correspondence = {}\n", new="    key_to_index = {}\n"),
        dict(file=I, old="        correspondence[original_idx] = idx\n", new="        key_to_index[original_idx] = idx\n"),
        dict(file=I, old=".format(atom_idx=correspondence[x],", new=".format(atom_idx=key_to_index[x],")]),
    dict(name='comment-inside-parameters-field (seed C02_e)', expect='fire', key='TAB-sections|comment-last', edits=[
        dict(file=I, old="                    comment = ' ; ' + interaction.meta['comment']", new="                    parameters += ' ; ' + interaction.meta['comment']")]),
]
