T = 'vermouth/gmx/topology.py'
P = 'vermouth/pdb/pdb.py'
M = 'vermouth/molecule.py'
N = 'vermouth/processors/name_moltype.py'
VARIANTS = [
    dict(name='include-per-group (original defect F3)', expect='fire', key='PROV-include-once|include-list', edits=[
        dict(file=T, old="for molecule_type in moltype_includes\n", new="for molecule_type, _ in moltype_count\n")]),
    dict(name='include-append-unguarded', expect='fire', key='PROV-include-once|include-list', edits=[
        dict(file=T, old="            moltype_written.add(moltype)\n            moltype_includes.append(moltype)\n", new="            moltype_written.add(moltype)\n        moltype_includes.append(moltype)\n")]),
    dict(name='next-only-when-written (seed C03_a)', expect='fire', key='PROV-molecules', edits=[
        dict(file=T, old="    for moltype, molecules in molecule_groups:\n        molecule = next(molecules)\n        if molecule.force_field is not None:\n            citation_map = ChainMap(molecule.force_field.citations, COMMON_CITATIONS)\n        else:\n            citation_map = COMMON_CITATIONS\n        if moltype not in moltype_written:\n",
             new="    for moltype, molecules in molecule_groups:\n        if moltype not in moltype_written:\n            molecule = next(molecules)\n            if molecule.force_field is not None:\n                citation_map = ChainMap(molecule.force_field.citations, COMMON_CITATIONS)\n            else:\n                citation_map = COMMON_CITATIONS\n")]),
    dict(name='ignore-atomid-in-dedup (seed C03_b)', expect='fire', key='TAB-dedup-compares|ignore', edits=[
        dict(file=M, old="ignore_attrs = ('position', 'chain', 'graph', 'mapping_weights')", new="ignore_attrs = ('position', 'chain', 'graph', 'mapping_weights', 'atomid')")]),
    dict(name='ignore-charge-in-dedup', expect='fire', key='TAB-dedup-compares|ignore', edits=[
        dict(file=M, old="ignore_attrs = ('position', 'chain', 'graph', 'mapping_weights')", new="ignore_attrs = ('position', 'chain', 'graph', 'mapping_weights', 'charge')")]),
    dict(name='dedup-ignores-interactions', expect='fire', key='DT-same-moltype|conjunction', edits=[
        dict(file=M, old="            self.same_nodes(other, ignore_attr=ignore_attrs) and\n            self.same_edges(other) and\n            self.same_interactions(other)\n        )\n\n    # TODO: Allow comparison",
             new="            self.same_nodes(other, ignore_attr=ignore_attrs) and\n            self.same_edges(other)\n        )\n\n    # TODO: Allow comparison")]),
    dict(name='pdb-in-node-order', expect='fire', key='SIB-atom-order|pdb-itp', edits=[
        dict(file=P, old="        for node_idx in molecule.sorted_nodes:", new="        for node_idx in molecule.nodes:")]),
    dict(name='groups-sorted-first', expect='fire', key='PROV-molecules|groupby', edits=[
        dict(file=T, old="    molecule_groups = itertools.groupby(\n        system.molecules, key=lambda x: x.meta[\"moltype\"]\n    )", new="    molecule_groups = itertools.groupby(\n        sorted(system.molecules, key=lambda x: x.meta[\"moltype\"]), key=lambda x: x.meta[\"moltype\"]\n    )")]),
    dict(name='count-forgets-consumed', expect='fire', key='PROV-molecules|count', edits=[
        dict(file=T, old="moltype_count.append([moltype, 1 + len(list(molecules))])", new="moltype_count.append([moltype, len(list(molecules))])")]),
    dict(name='itp-rewritten-each-group', expect='fire', key='PROV-include-once', edits=[
        dict(file=T, old="        if moltype not in moltype_written:\n", new="        if True:\n")]),
    dict(name='naming-by-size-only', expect='fire', key='DT-same-moltype|naming', edits=[
        dict(file=N, old="                if molecule.share_moltype_with(template):", new="                if len(molecule) == len(template):")]),
    dict(name='benign-include-from-dict-keys', expect='silent', edits=[
        dict(file=T, old="    moltype_includes = []\n", new="    moltype_includes = list()\n")]),
    dict(name='same_interactions-zip-prefix (seed C03_e)', expect='fire', key='ZIP-prefix|Molecule.same_interactions', edits=[
        dict(file=M, old="        return all(\n            self.interactions[interaction_type] == other.interactions[interaction_type]\n            for interaction_type in keys_self\n        )",
             new="        for interaction_type in keys_self:\n            for mine, theirs in zip(self.interactions[interaction_type], other.interactions[interaction_type]):\n                if mine != theirs:\n                    return False\n        return True")]),
    dict(name='benign-same_interactions-length-guarded-zip', expect='silent', edits=[
        dict(file=M, old="        return all(\n            self.interactions[interaction_type] == other.interactions[interaction_type]\n            for interaction_type in keys_self\n        )",
             new="        for interaction_type in keys_self:\n            if len(self.interactions[interaction_type]) != len(other.interactions[interaction_type]):\n                return False\n            for mine, theirs in zip(self.interactions[interaction_type], other.interactions[interaction_type]):\n                if mine != theirs:\n                    return False\n        return True")]),
    dict(name='integers-through-isclose (original defect F24)', expect='fire', key='DT-same-moltype|are_different', edits=[
        dict(file='vermouth/utils.py', old="    if isinstance(left, numbers.Integral):\n", new="    if False and isinstance(left, numbers.Integral):\n")]),
    dict(name='benign resid restore with the table inlined', expect='silent', edits=[
        dict(file='bin/martinize2', old='            old_resids = nx.get_node_attributes(molecule, "_old_resid")\n            nx.set_node_attributes(molecule, old_resids, "resid")', new='            nx.set_node_attributes(molecule, nx.get_node_attributes(molecule, "_old_resid"), "resid")')]),
    dict(name='resid restore skips molecules without a chain', expect='fire', key='SIB-resid-restore|every-molecule', edits=[
        dict(file='bin/martinize2', old='            old_resids = nx.get_node_attributes(molecule, "_old_resid")\n            nx.set_node_attributes(molecule, old_resids, "resid")', new='            old_resids = nx.get_node_attributes(molecule, "_old_resid")\n            if old_resids:\n                nx.set_node_attributes(molecule, old_resids, "resid")')]),
]
