R = 'vermouth/processors/repair_graph.py'
I = 'vermouth/ismags.py'
VARIANTS = [
    dict(name='cache-key-drops-partitions (seed C04_a)', expect='fire', key='CACHE-key|analyze_symmetry', edits=[
        dict(file=I, old="            key = hash((tuple(graph.nodes), tuple(graph.edges),\n                        tuple(map(tuple, node_partitions)), tuple(edge_colors.items())))",
             new="            key = hash((tuple(graph.nodes), tuple(graph.edges),\n                        tuple(edge_colors.items())))")]),
    dict(name='stale-missing-skips-bonds (seed C04_b)', expect='fire', key='PROV-rebuild', edits=[
        dict(file=R, old="            added = True\n            missing.pop(missing.index(ref_idx))\n", new="            added = True\n"),
        dict(file=R, old="                try:\n                    neighbour_res_idx = match[neighbour_ref_idx]\n                except KeyError:\n                    continue\n", new="                if neighbour_ref_idx in missing:\n                    continue\n                neighbour_res_idx = match[neighbour_ref_idx]\n")]),
    dict(name='residue-ranked-by-input-position (seed C11_a)', expect='fire', key='SIB-sort-key|residue', edits=[
        dict(file=R, old="            key=lambda jdx: (res_names[jdx] not in ref_names.values(), res_names[jdx])  # pylint: disable=cell-var-from-loop", new="            key=lambda jdx: (res_names[jdx] not in ref_names.values(), jdx)  # pylint: disable=cell-var-from-loop")]),
    dict(name='name-based-node-match', expect='fire', key='PROV-name-blind|node_match', edits=[
        dict(file=R, old="node_match=nx.isomorphism.categorical_node_match('element', None),", new="node_match=nx.isomorphism.categorical_node_match(['element', 'atomname'], [None, None]),")]),
    dict(name='unsort-tables-crossed', expect='fire', key='SIB-sort-key|unsort', edits=[
        dict(file=R, old="match = {old_ref_names[ref]: old_res_names[res] for ref, res in match.items()}", new="match = {old_res_names[ref]: old_ref_names[res] for ref, res in match.items()}")]),
    dict(name='ptm-flag-on-matched-too', expect='fire', key='PROV-unrecognised|complement', edits=[
        dict(file=R, old="        extra = set(found.nodes) - set(match.values())", new="        extra = set(found.nodes) - set(match.keys())")]),
    dict(name='canonical-attrs-from-other-atom', expect='fire', key='PROV-canonical|matched', edits=[
        dict(file=R, old="            res_idx = match[ref_idx]\n            node = molecule.nodes[res_idx]\n            if include_graph:", new="            res_idx = match[ref_idx]\n            node = molecule.nodes[min(match.values())]\n            if include_graph:")]),
    dict(name='benign-common-set-precomputed', expect='silent', edits=[
        dict(file=R, old="            key=lambda jdx: (res_names[jdx] not in ref_names.values(), res_names[jdx])  # pylint: disable=cell-var-from-loop", new="            key=lambda jdx: (res_names[jdx] not in set(ref_names.values()), res_names[jdx])  # pylint: disable=cell-var-from-loop")]),
    dict(name='benign-lambda-var-renamed', expect='silent', edits=[
        dict(file=R, old="            key=lambda jdx: (res_names[jdx] not in ref_names.values(), res_names[jdx])  # pylint: disable=cell-var-from-loop", new="            key=lambda k: (res_names[k] not in ref_names.values(), res_names[k])  # pylint: disable=cell-var-from-loop")]),
    dict(name='patch-bonds-one-orientation (seed C04_f)', expect='fire', key='EDGE-orientation|_patch_modification', edits=[
        dict(file=R, old="    for mod_idx, mod_jdx in modification.edges_between(anchor_idxs, non_anchor_idxs):\n        idx = mod_to_block[mod_idx]\n        jdx = mod_to_block[mod_jdx]\n        result.add_edge(idx, jdx)",
             new="    for mod_idx, mod_jdx in modification.edges:\n        if mod_idx in anchor_idxs and mod_jdx in non_anchor_idxs:\n            result.add_edge(mod_to_block[mod_idx], mod_to_block[mod_jdx])")]),
    dict(name='rebuilt-atom-residue-attributes-win (seed C04_e)', expect='fire', key='PROV-rebuild|attributes', edits=[
        dict(file=R, old="            node.update(ref_node)\n            node['atomid'] = res_idx + 1", new="            node = dict(ref_node, **node)\n            node['atomid'] = res_idx + 1")]),
    dict(name='helper first_alpha accepts any unicode letter', expect='fire', key='HELPER-contract|vermouth/utils.py|first_alpha', edits=[
        dict(file='vermouth/utils.py', old="        if elem in string.ascii_letters:", new="        if elem.isalpha():")]),
    dict(name='helper are_all_equal treats a falsy first element as no element', expect='fire', key='HELPER-contract|vermouth/utils.py|are_all_equal', edits=[
        dict(file='vermouth/utils.py', old="    first = next(iterator, None)\n    return all(np.all(item == first) for item in iterator)", new="    first = next(iterator, None)\n    if not first:\n        return True\n    return all(np.all(item == first) for item in iterator)")]),
    dict(name='benign helper first_alpha as a generator search', expect='silent', edits=[
        dict(file='vermouth/utils.py', old="    for elem in search_string:\n        # str.isalpha catches all unicode charaters tagged as \"letter\"; it is a\n        # very broad set of characters.\n        if elem in string.ascii_letters:\n            return elem\n    raise ValueError", new="    letters = [elem for elem in search_string if elem in string.ascii_letters]\n    if letters:\n        return letters[0]\n    raise ValueError")]),
]
