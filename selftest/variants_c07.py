FW = 'vermouth/file_writer.py'
CLI = 'bin/martinize2'
PDB = 'vermouth/pdb/pdb.py'
GRO = 'vermouth/gmx/gro.py'
TOP = 'vermouth/gmx/topology.py'
LH = 'vermouth/log_helpers.py'
CM = 'vermouth/rcsu/contact_map.py'
VARIANTS = [
    dict(name='raw-open-in-topology-writer', expect='fire', key='WMC-open-for-writing|vermouth/gmx/topology.py', edits=[
        dict(file=TOP, old='    with deferred_open(str(top_path), "w") as outfile:', new='    with open(str(top_path), "w") as outfile:')]),
    dict(name='raw-open-in-contact-map', expect='fire', key='WMC-open-for-writing|vermouth/rcsu/contact_map.py', edits=[
        dict(file=CM, old='    with deferred_open(fout, "w") as f:', new='    with open(fout, "w") as f:')]),
    dict(name='pdb-writer-default-not-deferred', expect='fire', key='WMC-defer-default|write_pdb', edits=[
        dict(file=PDB, old="nan_missing_pos=False, defer_writing=True):", new="nan_missing_pos=False, defer_writing=False):")]),
    dict(name='gro-writer-rebinding-inverted', expect='fire', key='WMC-rebinding|write_gro', edits=[
        dict(file=GRO, old="    if defer_writing:\n        open = deferred_open\n    else:\n        from builtins import open\n    with open(str(file_name), 'w') as out:",
             new="    if not defer_writing:\n        open = deferred_open\n    else:\n        from builtins import open\n    with open(str(file_name), 'w') as out:")]),
    dict(name='cli-extra-undeferred-dump', expect='fire', key='WMC-bypass', edits=[
        dict(file=CLI, old="    vermouth.pdb.write_pdb(system, str(args.outpath), omit_charges=True)\n", new="    vermouth.pdb.write_pdb(system, str(args.outpath), omit_charges=True, defer_writing=False)\n")]),
    dict(name='open-append-touches-destination', expect='fire', key='DT-open-destination', edits=[
        dict(file=FW, old="        if '+' in mode or 'a' in mode or 'w' in mode:  # Append and write", new="        if '+' in mode or 'w' in mode:  # Append and write"),
        dict(file=FW, old="        elif 'r' in mode:  # Read, do nothing special\n            return _open(filename, mode, *args, **kwargs)", new="        elif 'r' in mode or 'a' in mode:  # Read, do nothing special\n            return _open(filename, mode, *args, **kwargs)")]),
    dict(name='backup-after-move', expect='fire', key='MPT-backup|order', edits=[
        dict(file=FW, old="            free_path = self._find_free_path(final_path)\n            if free_path != final_path:\n                LOGGER.info('Backing up {} to {}.', final_path, free_path, type='general')\n                shutil.move(str(final_path), str(free_path))\n            LOGGER.debug('Writing output to {}.', final_path, type='general')\n            shutil.move(tmp_path, str(final_path))",
             new="            free_path = self._find_free_path(final_path)\n            LOGGER.debug('Writing output to {}.', final_path, type='general')\n            shutil.move(tmp_path, str(final_path))\n            if free_path != final_path:\n                LOGGER.info('Backing up {} to {}.', final_path, free_path, type='general')\n                shutil.move(str(final_path), str(free_path))")]),
    dict(name='backup-dropped', expect='fire', key='MPT-backup', edits=[
        dict(file=FW, old="            if free_path != final_path:\n                LOGGER.info('Backing up {} to {}.', final_path, free_path, type='general')\n                shutil.move(str(final_path), str(free_path))\n", new="")]),
    dict(name='move-outside-lock', expect='fire', key='MPT-backup|lock', edits=[
        dict(file=FW, old="            LOGGER.debug('Writing output to {}.', final_path, type='general')\n            shutil.move(tmp_path, str(final_path))", new="        LOGGER.debug('Writing output to {}.', final_path, type='general')\n        shutil.move(tmp_path, str(final_path))")]),
    dict(name='free-path-glob (seed C07_a)', expect='fire', key='PROV-free-path', edits=[
        dict(file=FW, old="        backup_path = pathlib.Path(file_path)\n        idx = 1\n        while backup_path.exists():\n            backup_path = file_path.with_name('#{name}.{idx}#'.format(name=file_path.name, idx=idx))\n            idx += 1\n        return backup_path",
             new="        if not file_path.exists():\n            return file_path\n        taken = {p.name for p in file_path.parent.glob('#{name}.*#'.format(name=file_path.name))}\n        idx = 1\n        while '#{name}.{idx}#'.format(name=file_path.name, idx=idx) in taken:\n            idx += 1\n        return file_path.with_name('#{name}.{idx}#'.format(name=file_path.name, idx=idx))")]),
    dict(name='free-path-always-1', expect='fire', key='PROV-free-path', edits=[
        dict(file=FW, old="        while backup_path.exists():\n            backup_path = file_path.with_name('#{name}.{idx}#'.format(name=file_path.name, idx=idx))\n            idx += 1\n        return backup_path",
             new="        if backup_path.exists():\n            backup_path = file_path.with_name('#{name}.{idx}#'.format(name=file_path.name, idx=idx))\n        return backup_path")]),
    dict(name='close-removes-destination', expect='fire', key='PROV-remove-tmp', edits=[
        dict(file=FW, old="            tmp_path, *_ = self.open_files.popleft()\n            try:\n                os.remove(tmp_path)", new="            tmp_path, final_path, _ = self.open_files.popleft()\n            try:\n                os.remove(final_path)")]),
    dict(name='a-plus-replaces (original defect F17)', expect='fire', key='DT-finalise-dispatch', edits=[
        dict(file=FW, old="            if 'a' in mode:  # append, including 'a+'\n                self._append_file(tmp_path, final_path, mode)\n            elif 'w' in mode or '+' in mode:  # write\n                self._write_file(tmp_path, final_path)\n            elif 'r' in mode:",
             new="            if 'w' in mode or '+' in mode:  # write\n                self._write_file(tmp_path, final_path)\n            elif 'a' in mode:\n                self._append_file(tmp_path, final_path, mode)\n            elif 'r' in mode:")]),
    dict(name='gate-inverted', expect='fire', key='MPT-gate', edits=[
        dict(file=CLI, old="    if leftover_warnings:\n        LOGGER.error(", new="    if not leftover_warnings:\n        LOGGER.error(")]),
    dict(name='gate-exit-zero', expect='fire', key='MPT-gate|exit', edits=[
        dict(file=CLI, old="        sys.exit(2)\n    else:\n        DeferredFileWriter().write()", new="        sys.exit(0)\n    else:\n        DeferredFileWriter().write()")]),
    dict(name='finalise-before-gate', expect='fire', key='WMC-finalise|single', edits=[
        dict(file=CLI, old="    leftover_warnings = ignore_warnings_and_count(COUNTER, args.maxwarn)\n", new="    DeferredFileWriter().write()\n    leftover_warnings = ignore_warnings_and_count(COUNTER, args.maxwarn)\n")]),
    dict(name='library-finalises', expect='fire', key='WMC-finalise|library', edits=[
        dict(file=TOP, old="    with deferred_open(str(top_path), \"w\") as outfile:", new="    from ..file_writer import DeferredFileWriter\n    DeferredFileWriter().write()\n    with deferred_open(str(top_path), \"w\") as outfile:")]),
    dict(name='counter-level-error', expect='fire', key='PROV-counter|wiring', edits=[
        dict(file=CLI, old="COUNTER.setLevel(logging.WARNING)", new="COUNTER.setLevel(logging.ERROR)")]),
    dict(name='allowance-overdeducts (seed C07_b)', expect='fire', key='BND-deduction', edits=[
        dict(file=LH, old="total -= max(0, min(count, specs[warning_type]))", new="total -= specs[warning_type]"),
        dict(file=LH, old="            blanket_ignore = max(0, blanket_ignore - type_count)\n    return total", new="            blanket_ignore = max(0, blanket_ignore - type_count)\n    return max(0, total)")]),
    dict(name='benign-extra-deferred-writer', expect='silent', edits=[
        dict(file=TOP, old='    with deferred_open(str(top_path), "w") as outfile:', new='    with deferred_open(str(top_path), mode="w") as outfile:')]),
    dict(name='benign-gate-variable-renamed', expect='silent', edits=[
        dict(file=CLI, old="    leftover_warnings = ignore_warnings_and_count(COUNTER, args.maxwarn)\n    if leftover_warnings:", new="    leftover = ignore_warnings_and_count(COUNTER, args.maxwarn)\n    if leftover:"),
        dict(file=CLI, old='            "-maxwarn flag. No output files will be "\n            "written. Consider fixing the warnings, or if you are sure"\n            " they are harmless, use the -maxwarn flag.",\n            leftover_warnings,', new='            "-maxwarn flag. No output files will be "\n            "written. Consider fixing the warnings, or if you are sure"\n            " they are harmless, use the -maxwarn flag.",\n            leftover,')]),
]
VARIANTS += [
    dict(name='benign-gate-greater-than-zero', expect='silent', edits=[
        dict(file=CLI, old="    if leftover_warnings:\n        LOGGER.error(", new="    if leftover_warnings > 0:\n        LOGGER.error(")]),
    dict(name='benign-gate-equals-zero-inverted', expect='silent', edits=[
        dict(file=CLI, old="        sys.exit(2)\n    else:\n        DeferredFileWriter().write()\n        vermouth.Quoter().run_system(system)", new="        sys.exit(2)\n    if leftover_warnings == 0:\n        DeferredFileWriter().write()\n        vermouth.Quoter().run_system(system)")]),
    dict(name='symlink-resolved (seed C07_c)', expect='fire', key='PROV-destination-identity', edits=[
        dict(file=FW, old="        path = path.parent.resolve() / path.name\n", new="        path = path.resolve()\n")]),
    dict(name='count-before-output-step (seed C07_d)', expect='fire', key='MPT-gate|count-last', edits=[
        dict(file=CLI, old="    leftover_warnings = ignore_warnings_and_count(COUNTER, args.maxwarn)\n", new=""),
        dict(file=CLI, old="    # Write a PDB file.\n", new="    leftover_warnings = ignore_warnings_and_count(COUNTER, args.maxwarn)\n    # Write a PDB file.\n")]),
    dict(name='benign link messages added without the intermediate name', expect='silent', edits=[
        dict(file='vermouth/processors/do_links.py', old="                        fmt_args = fmt_args + [match]\n                        molecule.log_entries[loglevel][entry] += fmt_args", new="                        molecule.log_entries[loglevel][entry] += fmt_args + [match]")]),
    dict(name='modification messages registered without the application map', expect='fire', key='PROV-model-messages|vermouth/processors/do_mapping.py|apply_mod_mapping|own-map', edits=[
        dict(file='vermouth/processors/do_mapping.py', old="            graph_out.log_entries[loglevel][entry] += [mod_atom_name_to_out]", new="            graph_out.log_entries[loglevel][entry] += []")]),
]
