LH = 'vermouth/log_helpers.py'
CLI = 'bin/martinize2'
VARIANTS = [
    dict(name='min-max-swapped', expect='fire', key='DT-deduction-exact', edits=[
        dict(file=LH, old="total -= max(0, min(count, specs[warning_type]))", new="total -= min(0, max(count, specs[warning_type]))")]),
    dict(name='drop-max0', expect='silent', edits=[  # specs values are >= 0 by construction: still bounded -> not a violation
        dict(file=LH, old="total -= max(0, min(count, specs[warning_type]))", new="total -= min(count, specs[warning_type])")]),
    dict(name='drop-min-count', expect='fire', key='BND-deduction', edits=[
        dict(file=LH, old="total -= max(0, min(count, specs[warning_type]))", new="total -= max(0, specs[warning_type])")]),
    dict(name='clamp-at-end-instead (seed C07_b)', expect='fire', key='BND-deduction', edits=[
        dict(file=LH, old="total -= max(0, min(count, specs[warning_type]))", new="total -= specs[warning_type]"),
        dict(file=LH, old="            blanket_ignore = max(0, blanket_ignore - type_count)\n    return total", new="            blanket_ignore = max(0, blanket_ignore - type_count)\n    return max(0, total)")]),
    dict(name='specs-store-without-floor', expect='fire', key='BND-deduction', edits=[
        dict(file=LH, old="specs[warning_type] = max(specs.get(warning_type, 0), count)", new="specs[warning_type] = count"),
        dict(file=LH, old="total -= max(0, min(count, specs[warning_type]))", new="total -= min(count, specs[warning_type])")]),
    dict(name='blanket-not-floored', expect='fire', key='BND-deduction', edits=[
        dict(file=LH, old="blanket_ignore = max(0, blanket_ignore - type_count)", new="blanket_ignore = blanket_ignore - type_count")]),
    dict(name='blanket-deducts-allowance-not-min', expect='fire', key='BND-deduction', edits=[
        dict(file=LH, old="total -= min(type_count, blanket_ignore)", new="total -= blanket_ignore")]),
    dict(name='deduct-from-all-levels-table', expect='fire', key='PROV-level', edits=[
        dict(file=LH, old="    warning_count = counter.counts[level]\n", new="    warning_count = counter.counts[logging.ERROR]\n")]),
    dict(name='total-excludes-errors', expect='fire', key='PROV-level|total-init', edits=[
        dict(file=LH, old="    number_of_warnings = counter.number_of_counts_by(level=level)\n", new="    number_of_warnings = sum(counter.counts[level].values())\n")]),
    dict(name='count-above-only', expect='fire', key='DT-count-level', edits=[
        dict(file=LH, old="            if level is not None and lvl < level:", new="            if level is not None and lvl <= level:")]),
    dict(name='deduct-for-unseen-types', expect='fire', key='MPT-occurred', edits=[
        dict(file=LH, old="    blanket_ignore = specs.get(None, 0)\n    warning_count = counter.counts[level]\n    total = number_of_warnings\n",
             new="    blanket_ignore = specs.get(None, 0)\n    warning_count = counter.counts[level]\n    total = number_of_warnings\n    total -= len(deduct_all - set(warning_count))\n")]),
    dict(name='maxwarn-parser-returns-strings', expect='fire', key='PROV-maxwarn|shapes', edits=[
        dict(file=CLI, old="            return (splitted[0], count)", new="            return (splitted[0], splitted[1])")]),
    dict(name='benign-rename-count', expect='silent', edits=[
        dict(file=LH, old="    for warning_type, count in warning_count.items():\n        type_count = warning_count[warning_type]\n        if warning_type in specs:\n            # Subtract at least 0, and at most the number of warnings counted so\n            # the resulting total is guaranteed to be between 0 and `count`.\n            total -= max(0, min(count, specs[warning_type]))\n        elif warning_type in deduct_all:\n            total -= count",
             new="    for warning_type, seen in warning_count.items():\n        type_count = warning_count[warning_type]\n        if warning_type in specs:\n            total -= max(0, min(seen, specs[warning_type]))\n        elif warning_type in deduct_all:\n            total -= seen")]),
    dict(name='benign handle without the two locals', expect='silent', edits=[
        dict(file='vermouth/log_helpers.py', old="        record_level = record.levelno\n        record_type = getattr(record, self.type_attr, self.default_type)\n        self.counts[record_level][record_type] += 1", new="        self.counts[record.levelno][getattr(record, self.type_attr, self.default_type)] += 1")]),
    dict(name='handle files everything above WARNING under ERROR', expect='fire', key='MPT-count|handle|table', edits=[
        dict(file='vermouth/log_helpers.py', old="        record_level = record.levelno\n", new="        record_level = record.levelno if record.levelno <= 30 else max(record.levelno, 40)\n")]),
]
