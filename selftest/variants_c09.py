A = 'vermouth/processors/average_beads.py'
D = 'vermouth/processors/do_mapping.py'
VARIANTS = [
    dict(name='weights-zip-unfiltered (seed C09_a)', expect='fire', key='SIB-positions-weights', edits=[
        dict(file=A, old="            positions = np.array([\n                subnode['position']\n                for subnode in node['graph'].nodes().values()\n                if subnode.get('position') is not None\n            ])\n            weights = np.array([\n                node.get('mapping_weights', {}).get(subnode_key, 1) * subnode.get(weight, 1)\n                for subnode_key, subnode in node['graph'].nodes.items()\n                if subnode.get('position') is not None\n            ])",
             new="            subnodes = [subnode for subnode in node['graph'].nodes().values() if subnode.get('position') is not None]\n            positions = np.array([subnode['position'] for subnode in subnodes])\n            weights = np.array([\n                node.get('mapping_weights', {}).get(subnode_key, 1) * subnode.get(weight, 1)\n                for subnode_key, subnode in zip(node['graph'].nodes, subnodes)\n            ])")]),
    dict(name='weight-cached-on-processor (seed C09_b)', expect='fire', key='PROV-centre-weight', edits=[
        dict(file=A, old="        if self.weight is None:\n            weight = molecule.force_field.variables.get('center_weight', None)\n        elif self.weight is False:\n            weight = None\n        else:\n            weight = self.weight\n",
             new="        if self.weight is None:\n            self.weight = molecule.force_field.variables.get('center_weight', None)\n        weight = self.weight or None\n")]),
    dict(name='filter-on-positions-only', expect='fire', key='SIB-positions-weights|same-source-same-filter', edits=[
        dict(file=A, old="                for subnode_key, subnode in node['graph'].nodes.items()\n                if subnode.get('position') is not None\n", new="                for subnode_key, subnode in node['graph'].nodes.items()\n")]),
    dict(name='filter-truthiness', expect='fire', key='SIB-positions-weights', edits=[
        dict(file=A, old="                for subnode in node['graph'].nodes().values()\n                if subnode.get('position') is not None\n", new="                for subnode in node['graph'].nodes().values()\n                if 'position' in subnode\n")]),
    dict(name='centre-weight-added', expect='fire', key='PROV-centre-weight|multiplies', edits=[
        dict(file=A, old=".get(subnode_key, 1) * subnode.get(weight, 1)", new=".get(subnode_key, 1) + subnode.get(weight, 1)")]),
    dict(name='weight-key-by-atomname', expect='fire', key='PROV-weight-key|reader', edits=[
        dict(file=A, old="node.get('mapping_weights', {}).get(subnode_key, 1)", new="node.get('mapping_weights', {}).get(subnode.get('atomname'), 1)")]),
    dict(name='nan-when-any-weight-zero', expect='fire', key='REL-nan', edits=[
        dict(file=A, old="            if abs(sum(weights)) < 1e-7:", new="            if abs(min(weights, default=0)) < 1e-7:")]),
    dict(name='constituent-graph-from-all-matched', expect='fire', key='PROV-constituents|writer', edits=[
        dict(file=D, old="        subgraph = molecule.subgraph(mol_idxs)\n", new="        subgraph = molecule.subgraph([idx for idx in mol_idxs if out_to_mol[out_idx][idx]])\n")]),
    dict(name='benign-rename-loop-var', expect='silent', edits=[
        dict(file=A, old="                subnode['position']\n                for subnode in node['graph'].nodes().values()\n                if subnode.get('position') is not None\n", new="                sub['position']\n                for sub in node['graph'].nodes().values()\n                if sub.get('position') is not None\n")]),
    dict(name='rebuilt atoms inherit the position of a one-atom residue (original defect F27)', expect='fire', key='PROV-no-coordinates|rebuilt-atom-no-coordinates', edits=[
        dict(file='vermouth/processors/repair_graph.py', old="                               'nedges', 'density', 'position'):", new="                               'nedges', 'density'):")]),
    dict(name='benign rebuilt atom built by a comprehension over the inherited keys', expect='silent', edits=[
        dict(file='vermouth/processors/repair_graph.py', old="            node = {}\n            for key, val in ref_residue.items():", new="            node = dict()\n            for key, val in ref_residue.items():")]),
]
