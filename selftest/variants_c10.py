MB = 'vermouth/processors/make_bonds.py'
VARIANTS = [
    dict(name='se-radius (original defect F4)', expect='fire', key='TAB-radii|Se', edits=[dict(file=MB, old="'Se': 0.190,", new="'Se': 1.90,")]),
    dict(name='n-radius-typo', expect='fire', key='TAB-radii|N', edits=[dict(file=MB, old="'N': 0.155,", new="'N': 0.165,")]),
    dict(name='positions-by-array-index (original defect F18)', expect='fire', key='SIB-index-space|positions', edits=[
        dict(file=MB, old="        for node in idx_to_nodenum.values()\n", new="        for node in idx_to_nodenum\n")]),
    dict(name='hh-rule-dropped', expect='fire', key='DT-distance-bond|guard', edits=[
        dict(file=MB, old="        if element1 == 'H' and element2 == 'H' or \\\n                (resserial1 != resserial2 and (element1 == 'H' or element2 == 'H')):",
             new="        if (resserial1 != resserial2 and (element1 == 'H' or element2 == 'H')):")]),
    dict(name='h-bridge-needs-both-h', expect='fire', key='DT-distance-bond|guard', edits=[
        dict(file=MB, old="(resserial1 != resserial2 and (element1 == 'H' or element2 == 'H')):", new="(resserial1 != resserial2 and (element1 == 'H' and element2 == 'H')):")]),
    dict(name='strict-distance', expect='fire', key='DT-distance-bond|guard', edits=[
        dict(file=MB, old="        if dist <= bond_distance * fudge and not graph.has_edge", new="        if dist < bond_distance * fudge and not graph.has_edge")]),
    dict(name='radius-sum-without-half', expect='fire', key='DT-distance-bond|guard', edits=[
        dict(file=MB, old="bond_distance = 0.5 * (VDW_RADII[element1] + VDW_RADII[element2])", new="bond_distance = (VDW_RADII[element1] + VDW_RADII[element2])")]),
    dict(name='radius-of-element1-twice', expect='fire', key='DT-distance-bond|guard', edits=[
        dict(file=MB, old="bond_distance = 0.5 * (VDW_RADII[element1] + VDW_RADII[element2])", new="bond_distance = 0.5 * (VDW_RADII[element1] + VDW_RADII[element1])")]),
    dict(name='non-edges-ignored', expect='fire', key='DT-distance-bond|guard', edits=[
        dict(file=MB, old="        if frozenset((node_idx1, node_idx2)) in non_edges:\n            continue\n", new="")]),
    dict(name='res-serial-only-in-name-mode (seed C10_a)', expect='fire', key='MPT-res-serial', edits=[
        dict(file=MB, old="        for idx in idxs:\n            system.nodes[idx]['_res_serial'] = res_serial\n        if not allow_name:\n            continue\n",
             new="        if not allow_name:\n            continue\n        for idx in idxs:\n            system.nodes[idx]['_res_serial'] = res_serial\n")]),
    dict(name='non-edges-cache-by-resname (seed C10_b)', expect='fire', key='MPT-name-bonds|non-edges', edits=[
        dict(file=MB, old="    for block_idx, block_jdx in nx.non_edges(block):", new="    for block_idx, block_jdx in _BLOCK_NON_EDGES.setdefault(resname, list(nx.non_edges(block))):"),
        dict(file=MB, old="#VALENCES = {", new="_BLOCK_NON_EDGES = {}\n#VALENCES = {")]),
    dict(name='residue-key-without-mol-idx', expect='fire', key='KEY-residue|make_bonds', edits=[
        dict(file=MB, old="('mol_idx chain resid resname insertion_code'.split())", new="('chain resid resname insertion_code'.split())"),
        dict(file=MB, old="        mol_idx, chain, resid, resname, insertion_code = keys", new="        chain, resid, resname, insertion_code = keys")]),
    dict(name='split-on-atom-components', expect='fire', key='PROV-partition', edits=[
        dict(file=MB, old="    residue_graph = partition_graph(system, residue_groups.values())", new="    residue_graph = partition_graph(system, [[n] for n in system.nodes])")]),
    dict(name='edge-removal-added', expect='fire', key='WMC-no-removal', edits=[
        dict(file=MB, old="    molecules = []\n    residue_graph =", new="    system.remove_edges_from(nx.selfloop_edges(system))\n    molecules = []\n    residue_graph =")]),
    dict(name='name-bond-needs-one-name', expect='fire', key='MPT-name-bonds|edges', edits=[
        dict(file=MB, old="        if block_idx_name in mol_name_to_idx and block_jdx_name in mol_name_to_idx:\n            graph_idx = mol_name_to_idx[block_idx_name]",
             new="        if block_idx_name in mol_name_to_idx or block_jdx_name in mol_name_to_idx:\n            graph_idx = mol_name_to_idx[block_idx_name]")]),
    dict(name='search-radius-fudge-squared (original defect F21)', expect='fire', key='BND-search-radius', edits=[
        dict(file=MB, old="        pairs = tree.sparse_distance_matrix(tree, max_dist)", new="        pairs = tree.sparse_distance_matrix(tree, max_dist * fudge)")]),
    dict(name='search-radius-without-fudge', expect='fire', key='BND-search-radius', edits=[
        dict(file=MB, old="    max_dist *= fudge\n", new="")]),
    dict(name='fallback-pass-default-fudge (seed C10_e)', expect='fire', key='PROV-fudge|calls', edits=[
        dict(file=MB, old="                _bonds_from_distance(system, idxs, fudge=fudge)", new="                _bonds_from_distance(system, idxs)")]),
    dict(name='non-edges-rebound-per-residue (seed C10_f)', expect='fire', key='PROV-non-edges|accumulate', edits=[
        dict(file=MB, old="            non_edges.update(_bonds_from_names(system, resname, idxs, force_field))", new="            non_edges = _bonds_from_names(system, resname, idxs, force_field)")]),
    dict(name='benign-non-edges-ior', expect='silent', edits=[
        dict(file=MB, old="            non_edges.update(_bonds_from_names(system, resname, idxs, force_field))", new="            non_edges |= _bonds_from_names(system, resname, idxs, force_field)")]),
    dict(name='benign-search-radius-generous', expect='silent', edits=[
        dict(file=MB, old="        pairs = tree.sparse_distance_matrix(tree, max_dist)", new="        pairs = tree.sparse_distance_matrix(tree, max_dist * 1.5)")]),
    dict(name='name-bond-fallback-absorbs-more-errors', expect='fire', key='EXC-handlers|vermouth/processors/make_bonds.py|make_bonds', edits=[
        dict(file=MB, old="        except KeyError as error:\n            # ... if that doesn't work, fall back to distance", new="        except (KeyError, ValueError) as error:\n            # ... if that doesn't work, fall back to distance")]),
    dict(name='benign-log-in-handler', expect='silent', edits=[
        dict(file=MB, old="            warning_type = 'inconsistent-data'\n            if 'is not known to force field' in str(error):", new="            warning_type = 'inconsistent-data'\n            LOGGER.debug('name based bonds failed: {}', error)\n            if 'is not known to force field' in str(error):")]),
    dict(name='benign-demorgan-guard', expect='silent', edits=[
        dict(file=MB, old="        if element1 == 'H' and element2 == 'H' or \\\n                (resserial1 != resserial2 and (element1 == 'H' or element2 == 'H')):\n            continue\n",
             new="        both_h = element1 == 'H' and element2 == 'H'\n        any_h = element1 == 'H' or element2 == 'H'\n        if both_h:\n            continue\n        if any_h and not resserial1 == resserial2:\n            continue\n")]),
    dict(name='benign-threshold-inline', expect='silent', edits=[
        dict(file=MB, old="        bond_distance = 0.5 * (VDW_RADII[element1] + VDW_RADII[element2])\n        if dist <= bond_distance * fudge and not graph.has_edge(node_idx1, node_idx2):",
             new="        if not graph.has_edge(node_idx1, node_idx2) and fudge * ((VDW_RADII[element2] + VDW_RADII[element1]) * 0.5) >= dist:")]),
    dict(name='helper get_attrs drops missing attributes', expect='fire', key='HELPER-contract|vermouth/graph_utils.py|get_attrs', edits=[
        dict(file='vermouth/graph_utils.py', old="    return tuple(node.get(attr) for attr in attrs)", new="    return tuple(node[attr] for attr in attrs if attr in node)")]),
    dict(name='helper collect_residues keyed without the defaults insertion code', expect='fire', key='HELPER-contract|vermouth/graph_utils.py|collect_residues', edits=[
        dict(file='vermouth/graph_utils.py', old="def collect_residues(graph, attrs=('chain', 'resid', 'resname', 'insertion_code')):", new="def collect_residues(graph, attrs=('chain', 'resid', 'resname')):")]),
    dict(name='benign helper get_attrs through a list', expect='silent', edits=[
        dict(file='vermouth/graph_utils.py', old="    return tuple(node.get(attr) for attr in attrs)", new="    values = [node.get(attr) for attr in attrs]\n    return tuple(values)")]),
    dict(name='benign bonds-from flags through sets', expect='silent', edits=[
        dict(file='bin/martinize2', old='    bonds_from_name = args.bonds_from in ("name", "both")\n    bonds_from_dist = args.bonds_from in ("distance", "both")', new='    bonds_from_name = args.bonds_from in {"name", "both"}\n    bonds_from_dist = args.bonds_from in {"distance", "both"}')]),
    dict(name='bonds-from flags crossed on the way to MakeBonds', expect='fire', key='KW-wiring|bonds-from|passed', edits=[
        dict(file='bin/martinize2', old='        allow_name=bonds_from_name, allow_dist=bonds_from_dist, fudge=bonds_fudge', new='        allow_name=bonds_from_dist, allow_dist=bonds_from_name, fudge=bonds_fudge')]),
]
