D = 'vermouth/processors/do_mapping.py'
T = 'vermouth/gmx/topology.py'
M = 'vermouth/processors/merge_chains.py'
N = 'vermouth/processors/name_moltype.py'
VARIANTS = [
    dict(name='mod-mappings-unsorted', expect='fire', key='ORD|vermouth/processors/do_mapping.py|modification_matches', edits=[
        dict(file=D, old="    for mod_name in sorted(needed_mod_mappings, key=len, reverse=True):", new="    for mod_name in needed_mod_mappings:")]),
    dict(name='chains-listed-from-set', expect='fire', key='ORD|vermouth/processors/merge_chains.py', edits=[
        dict(file=M, old="    merged = Molecule()\n", new="    merged = Molecule()\n    merged.meta['chains'] = ', '.join(str(c) for c in list(_chains))\n")]),
    dict(name='defines-from-a-set', expect='fire', key='ORD|vermouth/gmx/topology.py', edits=[
        dict(file=T, old='    define_string = "\\n".join("#define {}".format(define) for define in defines)', new='    define_string = "\\n".join("#define {}".format(define) for define in set(defines))')]),
    dict(name='modified-atoms-first-element', expect='fire', key='ORD|vermouth/processors/do_mapping.py|modification_matches', edits=[
        dict(file=D, old="    ptm_subgraph = molecule.subgraph(modified_nodes)\n", new="    ptm_subgraph = molecule.subgraph(modified_nodes)\n    first_modified = next(iter({molecule.nodes[i]['atomname'] for i in modified_nodes}), None)\n")]),
    dict(name='benign-sorted-set', expect='silent', edits=[
        dict(file=T, old='    define_string = "\\n".join("#define {}".format(define) for define in defines)', new='    define_string = "\\n".join("#define {}".format(define) for define in sorted(set(defines)))')]),
    dict(name='benign-any-over-set', expect='silent', edits=[
        dict(file=M, old="    merged = Molecule()\n", new="    merged = Molecule()\n    has_blank = any(c == ' ' for c in _chains)\n")]),
]
