M = 'vermouth/molecule.py'
VARIANTS = [
    dict(name='stale-cache (original defect F5)', expect='fire', key='CACHE-max-key|nonempty', edits=[
        dict(file=M, old="            self.max_node = max(self)\n\n            # We assume", new="            if not self.max_node:\n                self.max_node = max(self)\n\n            # We assume")]),
    dict(name='last-inserted-key (seed C12_a)', expect='fire', key='CACHE-max-key|nonempty', edits=[
        dict(file=M, old="            self.max_node = max(self)\n", new="            self.max_node = next(reversed(self._node))\n")]),
    dict(name='remove-nodes-twice-iterated (original defect F12)', expect='fire', key='ITER-one-shot|remove_nodes_from', edits=[
        dict(file=M, old="        nodes = list(nodes)\n        super().remove_nodes_from(nodes)", new="        super().remove_nodes_from(nodes)")]),
    dict(name='remove-node-no-purge', expect='fire', key='PAIR-removal|purge|remove_node', edits=[
        dict(file=M, old="        super().remove_node(node)\n        self._remove_interactions_with_node(node)", new="        super().remove_node(node)")]),
    dict(name='purge-skips-when-iterating-live-list', expect='fire', key='PAIR-removal|purge-helper', edits=[
        dict(file=M, old="            for interaction in list(interactions):\n                if node in interaction.atoms:", new="            for interaction in interactions:\n                if node in interaction.atoms:")]),
    dict(name='add-or-replace-appends-directly (seed C12_b)', expect='fire', key='WMC-insert|add_or_replace_interaction', edits=[
        dict(file=M, old="        else:  # no break\n            self.add_interaction(type_, atoms, parameters, meta)\n\n        if citations:",
             new="        else:  # no break\n            self.interactions[type_].append(Interaction(atoms=tuple(atoms), parameters=parameters, meta=meta))\n\n        if citations:")]),
    dict(name='add-interaction-validates-first-atom-only', expect='fire', key='MPT-validate|every-atom', edits=[
        dict(file=M, old="        for atom in atoms:\n            if atom not in self:\n                raise KeyError('Unknown atom {}'.format(atom))", new="        for atom in atoms[:1]:\n            if atom not in self:\n                raise KeyError('Unknown atom {}'.format(atom))")]),
    dict(name='subgraph-shares-node-dicts', expect='fire', key='ALIAS-copy|subgraph-nodes', edits=[
        dict(file=M, old="node_copies = [(node, copy.copy(self.nodes[node])) for node in nodes]", new="node_copies = [(node, self.nodes[node]) for node in nodes]")]),
    dict(name='subgraph-shares-citations (original defect)', expect='fire', key='ALIAS-copy|subgraph-citations', edits=[
        dict(file=M, old="        subgraph.citations = self.citations.copy()", new="        subgraph.citations = self.citations")]),
    dict(name='merge-interaction-not-translated', expect='fire', key='PROV-merge|interactions', edits=[
        dict(file=M, old="                atoms = tuple(correspondence[atom] for atom in interaction.atoms)\n                self.add_interaction(name, atoms, interaction.parameters, interaction.meta)",
             new="                atoms = tuple(interaction.atoms)\n                self.add_interaction(name, atoms, interaction.parameters, interaction.meta)")]),
    dict(name='merge-skips-exclusions', expect='fire', key='PROV-merge|interactions', edits=[
        dict(file=M, old="        for name, interactions in molecule.interactions.items():\n            for interaction in interactions:\n                atoms = tuple(correspondence[atom]",
             new="        for name, interactions in molecule.interactions.items():\n            if name == 'exclusions':\n                continue\n            for interaction in interactions:\n                atoms = tuple(correspondence[atom]")]),
    dict(name='merge-resid-shift-conditional', expect='fire', key='PROV-merge|shift|resid', edits=[
        dict(file=M, old="            new_atom['resid'] = (new_atom.get('resid', 1) + residue_offset)", new="            if 'resid' in new_atom:\n                new_atom['resid'] = (new_atom.get('resid', 1) + residue_offset)")]),
    dict(name='merge-start-at-offset', expect='fire', key='CACHE-max-key|start', edits=[
        dict(file=M, old="enumerate(molecule.nodes(), start=offset + 1)", new="enumerate(molecule.nodes(), start=offset)")]),
    dict(name='to-molecule-edge-untranslated', expect='fire', key='PROV-merge|to_molecule|refs', edits=[
        dict(file=M, old="            mol.add_edge(*(name_to_idx[node] for node in edge), **attrs)", new="            mol.add_edge(*edge, **attrs)")]),
    dict(name='subgraph-walks-generator-twice (original defect F26)', expect='fire', key='ITER-one-shot|Molecule.subgraph|nodes', edits=[
        dict(file=M, old="        nodes = list(nodes)\n        node_copies =", new="        node_copies =")]),
    dict(name='add-interaction-documented-iterable-walked-twice', expect='fire', key='ITER-one-shot|Molecule.add_interaction|atoms', edits=[
        dict(file=M, old="        atoms: collections.abc.Sequence\n            The atoms that are involved in this interaction. Must be in this\n            molecule\n        parameters: collections.abc.Iterable\n            The parameters for this interaction.\n        meta: collections.abc.Mapping\n            Metadata for this interaction, such as comments to be written to\n            the output.\n\n        Raises\n        ------\n        KeyError\n            If one of the atoms is not in this molecule.",
             new="        atoms: collections.abc.Iterable\n            The atoms that are involved in this interaction. Must be in this\n            molecule\n        parameters: collections.abc.Iterable\n            The parameters for this interaction.\n        meta: collections.abc.Mapping\n            Metadata for this interaction, such as comments to be written to\n            the output.\n\n        Raises\n        ------\n        KeyError\n            If one of the atoms is not in this molecule.")]),
    dict(name='benign-subgraph-materialise-as-tuple', expect='silent', edits=[
        dict(file=M, old="        nodes = list(nodes)\n        node_copies =", new="        nodes = tuple(nodes)\n        node_copies =")]),
    dict(name='edges-generator-walked-twice (logged, then added: nothing is added)', expect='fire', key='ITER-local-one-shot|vermouth/edge_tuning.py|add_edges_at_distance|edges', edits=[
        dict(file='vermouth/edge_tuning.py', old="    molecule.add_edges_from(edges)\n\n\ndef add_inter_molecule_edges", new="    n_new = sum(1 for _ in edges)\n    molecule.add_edges_from(edges)\n    del n_new\n\n\ndef add_inter_molecule_edges")]),
    dict(name='benign-edges-materialised-then-walked-twice', expect='silent', edits=[
        dict(file='vermouth/edge_tuning.py', old="    molecule.add_edges_from(edges)\n\n\ndef add_inter_molecule_edges", new="    edges = list(edges)\n    n_new = len(edges)\n    molecule.add_edges_from(edges)\n    del n_new\n\n\ndef add_inter_molecule_edges")]),
    dict(name='benign-direct-max', expect='silent', edits=[
        dict(file=M, old="            last_node_idx = self.max_node\n", new="            last_node_idx = self.max_node\n            assert last_node_idx in self\n")]),
    dict(name='benign-materialise-as-tuple', expect='silent', edits=[
        dict(file=M, old="        nodes = list(nodes)\n        super().remove_nodes_from(nodes)", new="        nodes = tuple(nodes)\n        super().remove_nodes_from(nodes)")]),
    dict(name='benign to_molecule atom from dict(defaults)', expect='silent', edits=[
        dict(file=M, old="            new_atom = default_attributes.copy()", new="            new_atom = dict(default_attributes)")]),
]
