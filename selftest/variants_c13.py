FF = 'vermouth/ffinput.py'
ITP = 'vermouth/gmx/itp_read.py'
PU = 'vermouth/parser_utils.py'
MAP = 'vermouth/map_parser.py'
VARIANTS = [
    dict(name='link-append-unguarded (original defect F6)', expect='fire', key='IDEM-register|FFDirector|self.current_link', edits=[
        dict(file=FF, old="            if not links or links[-1] is not self.current_link:\n                links.append(self.current_link)",
             new="            links.append(self.current_link)")]),
    dict(name='link-pairs_nb-block-context (original defect F7)', expect='fire', key='TAB-context|link/pairs_nb', edits=[
        dict(file=FF, old="section_parser('link', 'pairs_nb', context_type='link')", new="section_parser('link', 'pairs_nb', context_type='block')")]),
    dict(name='dihedral-removal-marker-ignored (original defect F16)', expect='fire', key='SIB-removal-marker|_dih_interactions', edits=[
        dict(file=FF, old="        delete = False\n        if interaction_name.startswith('!'):\n            interaction_name = interaction_name[1:]\n            delete = True\n        tokens = collections.deque(_tokenize(line))\n        if tokens[0] == '#meta':\n            _parse_meta(\n                tokens,\n                context,\n                context_type=context_type,\n                section=interaction_name,\n            )\n        else:\n            n_atoms = self.interactions_natoms.get(interaction_name)\n            _base_parser(\n                tokens,\n                context,\n                context_type=context_type,\n                section=interaction_name,\n                natoms=n_atoms,\n                delete=delete,\n            )\n\n          # Because",
             new="        delete = False\n        tokens = collections.deque(_tokenize(line))\n        if tokens[0] == '#meta':\n            _parse_meta(\n                tokens,\n                context,\n                context_type=context_type,\n                section=interaction_name,\n            )\n        else:\n            n_atoms = self.interactions_natoms.get(interaction_name)\n            _base_parser(\n                tokens,\n                context,\n                context_type=context_type,\n                section=interaction_name,\n                natoms=n_atoms,\n                delete=delete,\n            )\n\n          # Because")]),
    dict(name='missing-registration-in-modification', expect='fire', key='TAB-interaction-sets|modification', edits=[
        dict(file=FF, old="    @SectionLineParser.section_parser('modification', 'constraints', context_type='modification')\n", new="")]),
    dict(name='uppercase-section-name', expect='fire', key='TAB-casefold|FFDirector|link/Features', edits=[
        dict(file=FF, old="section_parser('link', 'features', context_type='link')", new="section_parser('link', 'Features', context_type='link')")]),
    dict(name='duplicate-atom-check-dropped', expect='fire', key='MPT-reject|ff-duplicate-atom', edits=[
        dict(file=FF, old="    if name in context:\n        msg = ('There is already an atom named", new="    if False:\n        msg = ('There is already an atom named")]),
    dict(name='atom-count-check-weakened', expect='fire', key='MPT-reject|atom-count', edits=[
        dict(file=FF, old="    if natoms is not None and len(atoms) != natoms:", new="    if natoms is not None and len(atoms) > natoms:")]),
    dict(name='brace-check-one-sided', expect='fire', key='MPT-reject|braces|opening', edits=[
        dict(file=PU, old="        elif brackets < 0:\n            msg = 'An opening bracket is missing.'\n            raise IOError(msg)\n", new="")]),
    dict(name='prefix-order-contradiction-accepted', expect='fire', key='MPT-reject|prefix-order', edits=[
        dict(file=FF, old="            and order_from_attributes != order_from_prefix):", new="            and False):")]),
    dict(name='unknown-section-falls-through', expect='fire', key='MPT-reject|unknown-section', edits=[
        dict(file=PU, old="        if tuple(self.section) not in self.METH_DICT:\n            raise IOError(\"Can't parse line {} in section '{}' because the \"\n                          \"section is unknown\".format(lineno, self.section))\n", new="")]),
    dict(name='undefined-atom-name-accepted', expect='fire', key='MPT-reject|ff-undefined-name', edits=[
        dict(file=FF, old="            if reference not in context:\n                msg = ('There is no atom \"{}\" defined in the block \"{}\". '\n                       'Section \"{}\" cannot refer to it.')\n                raise IOError(msg.format(reference, context.name, section))\n            if reference[0] in '+-<>':\n                msg = ('Atom names in blocks cannot be prefixed with + or -. '\n                       'The name \"{}\", used in section \"{}\" of the block \"{}\" '\n                       'is not valid in a block.')\n                raise IOError(msg.format(reference, section, context.name))\n        all_references.append(reference)\n    return all_references\n\n\ndef _split_node_key",
             new="            if reference[0] in '+-<>':\n                msg = ('Atom names in blocks cannot be prefixed with + or -. '\n                       'The name \"{}\", used in section \"{}\" of the block \"{}\" '\n                       'is not valid in a block.')\n                raise IOError(msg.format(reference, section, context.name))\n        all_references.append(reference)\n    return all_references\n\n\ndef _split_node_key")]),
    dict(name='swallowed-parse-error', expect='fire', key='WMC-swallow', edits=[
        dict(file=FF, old="            except KeyError:\n                raise IOError('{} is not a known parameter effector.'\n                              .format(effector_name))",
             new="            except KeyError:\n                effector_class = ParamDistance")]),
    dict(name='itp-header-action-after-finalize-swapped', expect='fire', key='MPT-finalize|order|ITPDirector', edits=[
        dict(file=ITP, old="        result = None\n\n        if len(prev_section) != 0:\n            result = self.finalize_section(prev_section, ended)\n\n        action = self.header_actions.get(tuple(self.section))\n        if action:\n            action()\n",
             new="        result = None\n\n        action = self.header_actions.get(tuple(self.section))\n        if action:\n            action()\n\n        if len(prev_section) != 0:\n            result = self.finalize_section(prev_section, ended)\n")]),
    dict(name='non-edges-allowed-anywhere', expect='fire', key='MPT-reject|non-edges', edits=[
        dict(file=FF, old="    if negate and context_type != 'link':\n        raise IOError('The \"non-edges\" section is only valid in links.')\n", new="")]),
    dict(name='itp-settles-arity-rule-dropped', expect='fire', key='TAB-arity|itp|settles', edits=[
        dict(file=ITP, old="                 'settles': [0],\n", new="")]),
    dict(name='mapping-not-reset', expect='fire', key='IDEM-register|MappingDirector', edits=[
        dict(file=MAP, old="            mapping = self.builder.get_mapping(map_type)\n            self._reset_mapping()\n            return mapping", new="            mapping = self.builder.get_mapping(map_type)\n            return mapping")]),
    dict(name='prefix-order-truthiness (seed C13_a)', expect='fire', key='DT-reject|prefix-order', edits=[
        dict(file=FF, old="    if (order_from_attributes is not None\n            and prefix_from_prefix is not None\n            and order_from_attributes != order_from_prefix):",
             new="    if (order_from_attributes and prefix_from_prefix\n            and order_from_attributes != order_from_prefix):")]),
    dict(name='itp-index-table-cumulative (seed C13_b)', expect='fire', key='PROV-itp-index-table', edits=[
        dict(file=ITP, old="        if \"atoms\" in ended_section:\n            self.current_atom_names = list(self.current_block.nodes)\n\n", new=""),
        dict(file=ITP, old="        context.add_node(index, **dict(collections.ChainMap(attributes, atom)))", new="        context.add_node(index, **dict(collections.ChainMap(attributes, atom)))\n        self.current_atom_names.append(index)")]),
    dict(name='atom-count-only-when-fewer', expect='fire', key='DT-reject|atom-count', edits=[
        dict(file=FF, old="    if natoms is not None and len(atoms) != natoms:", new="    if natoms is not None and len(atoms) < natoms:")]),
    dict(name='prefix-minus-gives-positive-order', expect='fire', key='DT-prefix-order|table', edits=[
        dict(file=FF, old="        order_from_prefix = -len(prefix)", new="        order_from_prefix = len(prefix)")]),
    dict(name='order-attribute-bool-accepted', expect='fire', key='DT-prefix-order|table', edits=[
        dict(file=FF, old="        if isinstance(order, numbers.Integral) and not isinstance(order, bool):", new="        if isinstance(order, numbers.Integral):")]),
    dict(name='key-not-prefixed-from-order-attribute', expect='fire', key='DT-prefix-order|table', edits=[
        dict(file=FF, old="        prefixed = prefix_from_attributes + base", new="        prefixed = reference")]),
    dict(name='mixed-prefix-accepted', expect='fire', key='DT-prefix-order|table', edits=[
        dict(file=FF, old="    if len(set(prefix)) > 1:", new="    if len(set(prefix)) > 2:")]),
    dict(name='explicit-atomname-overwritten', expect='fire', key='DT-prefix-order|table', edits=[
        dict(file=FF, old="    if 'atomname' not in return_attributes:\n        return_attributes['atomname'] = base", new="    return_attributes['atomname'] = base")]),
    dict(name='input-attributes-mutated', expect='fire', key='DT-prefix-order|table', edits=[
        dict(file=FF, old="    return_attributes = copy.copy(attributes)", new="    return_attributes = attributes")]),
    dict(name='link-interaction-atoms-skip-normalisation', expect='fire', key='DT-prefix-order|caller|_treat_link_interaction_atoms', edits=[
        dict(file=FF, old="        prefixed_reference, attributes = _treat_atom_prefix(reference, attributes)\n        all_references.append(prefixed_reference)",
             new="        prefixed_reference = reference\n        all_references.append(prefixed_reference)")]),
    dict(name='benign-order-zero-boundary', expect='silent', edits=[
        dict(file=FF, old="            if order > 0:\n                prefix_char = '+'", new="            if order >= 1:\n                prefix_char = '+'")]),
    dict(name='benign-prefix-helper-early-return-removed', expect='silent', edits=[
        dict(file=FF, old="    prefix_from_prefix = None\n    order_from_prefix = 0\n    if not prefix:\n        return prefix_from_prefix, order_from_prefix\n",
             new="    if not prefix:\n        return None, 0\n")]),
    dict(name='macros-forgotten-at-every-top-level-section', expect='fire', key='PROV-macros|persist', edits=[
        dict(file=PU, old="        self.section = section\n", new="        self.section = section\n        if len(section) == 1:\n            self.macros = {}\n")]),
    dict(name='macro-substitution-after-dispatch-lookup-skipped-for-header-like', expect='fire', key='PROV-macros|substitute-before-dispatch', edits=[
        dict(file=PU, old="        line = _substitute_macros(line, self.macros)\n        if tuple(self.section) not in self.METH_DICT:", new="        if '$' in line and self.section[-1] != 'atoms':\n            line = _substitute_macros(line, self.macros)\n        if tuple(self.section) not in self.METH_DICT:")]),
    dict(name='undefined-macro-kept', expect='fire', key='PROV-macros|substitution', edits=[
        dict(file=PU, old="        macro_value = macros[macro_name]", new="        macro_value = macros.get(macro_name, '$' + macro_name)")]),
    dict(name='macro-definition-columns-swapped', expect='fire', key='PROV-macros|definition', edits=[
        dict(file=PU, old="    macro_name = tokens.popleft()\n    macro_value = tokens.popleft()", new="    macro_value = tokens.popleft()\n    macro_name = tokens.popleft()")]),
    dict(name='features-first-token-only', expect='fire', key='PROV-sections|features', edits=[
        dict(file=FF, old="    context.features.update(set(tokens))", new="    context.features.add(tokens[0])")]),
    dict(name='link-attribute-stored-as-molmeta', expect='fire', key='PROV-sections|link-attribute', edits=[
        dict(file=FF, old="    if section == 'link':\n        context._apply_to_all_nodes[key] = value\n    elif section == 'molmeta':\n        context.molecule_meta[key] = value",
             new="    if section == 'molmeta':\n        context._apply_to_all_nodes[key] = value\n    elif section == 'link':\n        context.molecule_meta[key] = value")]),
    dict(name='link-atom-link-wide-attributes-win', expect='fire', key='PROV-sections|link-atom', edits=[
        dict(file=FF, old="    attributes = dict(collections.ChainMap(attributes, context._apply_to_all_nodes))\n    node_attributes", new="    attributes = dict(collections.ChainMap(context._apply_to_all_nodes, attributes))\n    node_attributes")]),
    dict(name='variables-extra-column-accepted', expect='fire', key='PROV-sections|variables', edits=[
        dict(file=FF, old="def _parse_variables(tokens, force_field, section):\n    if len(tokens) > 2:\n        raise IOError('Unexpected column in section \"{}\".'.format(section))\n",
             new="def _parse_variables(tokens, force_field, section):\n")]),
    # benign
    dict(name='benign-reset-instead-of-guard', expect='silent', edits=[
        dict(file=FF, old="            if not links or links[-1] is not self.current_link:\n                links.append(self.current_link)",
             new="            if self.current_link not in links:\n                links.append(self.current_link)")]),
    dict(name='benign-rename-token-variable', expect='silent', edits=[
        dict(file=FF, old="    atoms = _get_atoms(tokens, natoms)\n    if natoms is not None and len(atoms) != natoms:\n        raise IOError('Found {} atoms while {} were expected.'\n                      .format(len(atoms), natoms))",
             new="    atoms = _get_atoms(tokens, natoms)\n    if natoms is not None:\n        if len(atoms) != natoms:\n            raise IOError('Found {} atoms while {} were expected.'\n                          .format(len(atoms), natoms))")]),
]
