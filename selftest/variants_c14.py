C = 'vermouth/processors/canonicalize_modifications.py'
VARIANTS = [
    dict(name='anchor-by-name-only (seed C14_a)', expect='fire', key='DT-ptm-matcher', edits=[
        dict(file=C, old="    if node1.get('PTM_atom', False) == node2.get('PTM_atom', False):\n        if node2.get('PTM_atom', False):\n            # elements must match\n            return node1['element'] == node2['element']\n        else:\n            # atomnames must match\n            return node1['atomname'] == node2['atomname']\n    else:\n        return False",
             new="    if node2.get('PTM_atom', False):\n        return bool(node1.get('PTM_atom', False)) and node1['element'] == node2['element']\n    return node1['atomname'] == node2['atomname']")]),
    dict(name='monomorphisms (seed C14_b)', expect='fire', key='WMC-induced', edits=[
        dict(file=C, old="        if ptm_graph_matcher.subgraph_is_isomorphic():", new="        if ptm_graph_matcher.subgraph_is_monomorphic():"),
        dict(file=C, old="        matches = list(matcher.subgraph_isomorphisms_iter())", new="        matches = list(matcher.subgraph_monomorphisms_iter())")]),
    dict(name='removal-without-warning', expect='fire', key='PAIR-remove-warn|paired', edits=[
        dict(file=C, old="            LOGGER.warning('Could not identify the modifications for'", new="            LOGGER.debug('Could not identify the modifications for'")]),
    dict(name='failed-cover-kept-silently', expect='fire', key='PAIR-remove-warn', edits=[
        dict(file=C, old="            for idxs in res_ptms:\n                for idx in idxs[0]:\n                    molecule.remove_node(idx)\n                    removed.add(idx)\n            continue", new="            continue")]),
    dict(name='handler-falls-through-to-labelling', expect='fire', key='PAIR-remove-warn|paired', edits=[
        dict(file=C, old="                    molecule.remove_node(idx)\n                    removed.add(idx)\n            continue\n", new="                    molecule.remove_node(idx)\n                    removed.add(idx)\n            identified = []\n")]),
    dict(name='label-only-ptm-atoms', expect='fire', key='MPT-label|all-atoms', edits=[
        dict(file=C, old="            for n_idx in n_idxs:\n                node = molecule.nodes[n_idx]", new="            for n_idx in match:\n                node = molecule.nodes[n_idx]")]),
    dict(name='cover-does-not-consume', expect='fire', key='MPT-cover', edits=[
        dict(file=C, old="rest_cover = _cover_graph(graph, to_cover - matching, fragments[idx:])", new="rest_cover = _cover_graph(graph, to_cover - (matching & to_cover) if False else set(), fragments[idx:])")]),
    dict(name='residue-graph-without-chain', expect='fire', key='KEY-residue|vermouth/processors/annotate_mut_mod.py', edits=[
        dict(file='vermouth/processors/annotate_mut_mod.py', old="    residue_graph = make_residue_graph(molecule)\n", new="    residue_graph = make_residue_graph(molecule, attrs=('resid', 'resname'))\n")]),
    dict(name='benign-matcher-rewritten', expect='silent', edits=[
        dict(file=C, old="    if node1.get('PTM_atom', False) == node2.get('PTM_atom', False):\n        if node2.get('PTM_atom', False):\n            # elements must match\n            return node1['element'] == node2['element']\n        else:\n            # atomnames must match\n            return node1['atomname'] == node2['atomname']\n    else:\n        return False",
             new="    if node1.get('PTM_atom', False) != node2.get('PTM_atom', False):\n        return False\n    if node2.get('PTM_atom', False):\n        return node1['element'] == node2['element']\n    return node1['atomname'] == node2['atomname']")]),
]
