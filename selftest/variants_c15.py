R = 'vermouth/processors/apply_rubber_band.py'
VARIANTS = [
    dict(name='moltype-attribute (original defect F2)', expect='fire', key='NORAISE-nan|no-raise', edits=[
        dict(file=R, old="getattr(molecule, 'moltype', molecule.meta.get('moltype')),", new="molecule.moltype,")]),
    dict(name='abs-decay (seed C15_a)', expect='fire', key='DT-decay', edits=[
        dict(file=R, old="return np.exp(-rate * ((distance - shift) ** power))", new="return np.exp(-rate * (np.abs(distance - shift) ** power))")]),
    dict(name='half-connectivity (seed C15_b)', expect='fire', key='PROV-connectivity|fill', edits=[
        dict(file=R, old="        for target_residue in matchs_distances:\n            origin_nodes", new="        for target_residue in matchs_distances:\n            if target_residue < origin_residue:\n                continue\n            origin_nodes")]),
    dict(name='domain-dropped', expect='fire', key='DT-pair-filter|guard', edits=[
        dict(file=R, old="can_be_linked = (~connected) & same_domain", new="can_be_linked = (~connected)")]),
    dict(name='connected-not-negated', expect='fire', key='DT-pair-filter|guard', edits=[
        dict(file=R, old="can_be_linked = (~connected) & same_domain", new="can_be_linked = connected & same_domain")]),
    dict(name='and-to-or', expect='fire', key='DT-pair-filter|guard', edits=[
        dict(file=R, old="can_be_linked = (~connected) & same_domain", new="can_be_linked = (~connected) | same_domain")]),
    dict(name='upper-bound-line-removed', expect='fire', key='DT-pair-filter|guard', edits=[
        dict(file=R, old="    constants[distance_matrix > upper_bound] = 0\n", new="")]),
    dict(name='upper-bound-inclusive', expect='fire', key='DT-pair-filter|guard', edits=[
        dict(file=R, old="    constants[distance_matrix > upper_bound] = 0\n", new="    constants[distance_matrix >= upper_bound] = 0\n")]),
    dict(name='emit-greater-equal', expect='fire', key='DT-pair-filter|guard', edits=[
        dict(file=R, old="        if force_constant > minimum_force:", new="        if force_constant >= minimum_force:")]),
    dict(name='cap-to-zero', expect='fire', key='DT-pair-filter|cap', edits=[
        dict(file=R, old="    constants[constants > base_constant] = base_constant", new="    constants[constants > base_constant] = 0")]),
    dict(name='minimum-before-scale', expect='fire', key='DT-pair-filter|order', edits=[
        dict(file=R, old="    constants *= base_constant\n    constants[constants < minimum_force] = 0\n", new="    constants[constants < minimum_force] = 0\n    constants *= base_constant\n")]),
    dict(name='res-min-dist-minus-one', expect='fire', key='DT-pair-filter|guard', edits=[
        dict(file=R, old="    connected = build_connectivity_matrix(molecule, res_min_dist, node_to_idx,", new="    connected = build_connectivity_matrix(molecule, res_min_dist - 1, node_to_idx,")]),
    dict(name='decay-args-swapped', expect='fire', key='DT-pair-filter|decay-args', edits=[
        dict(file=R, old="constants = compute_decay(distance_matrix, lower_bound, decay_factor, decay_power)", new="constants = compute_decay(distance_matrix, lower_bound, decay_power, decay_factor)")]),
    dict(name='selection-index-used-as-key', expect='fire', key='SIB-index-space|emission', edits=[
        dict(file=R, old="        from_key = idx_to_node[selection[from_idx]]", new="        from_key = idx_to_node[from_idx]")]),
    dict(name='full-matrix-loop', expect='fire', key='MPT-emission|triangle', edits=[
        dict(file=R, old="for from_idx, to_idx in zip(*np.triu_indices_from(constants)):", new="for from_idx, to_idx in zip(*np.nonzero(constants)):")]),
    dict(name='length-unrounded-other-pair', expect='fire', key='MPT-emission|parameters', edits=[
        dict(file=R, old="        length = distance_matrix[from_idx, to_idx]", new="        length = distance_matrix[to_idx, to_idx]")]),
    dict(name='benign-demorgan-mask', expect='silent', edits=[
        dict(file=R, old="can_be_linked = (~connected) & same_domain", new="can_be_linked = ~(connected | ~same_domain)")]),
    dict(name='benign-power-call', expect='silent', edits=[
        dict(file=R, old="return np.exp(-rate * ((distance - shift) ** power))", new="return np.exp(-(rate * np.power(distance - shift, power)))")]),
]
