PDB = 'vermouth/pdb/pdb.py'
GRO = 'vermouth/gmx/gro.py'
VARIANTS = [
    dict(name='conect-4-wide (the original defect)', expect='fire', key='FMT-serial|CONECT-writer', edits=[
        dict(file=PDB, old="number_fmt = '{:>5dt}'", new="number_fmt = '{:>4dt}'"),
        dict(file=PDB, old="fmt = ''.join(fmt)", new="fmt = ' '.join(fmt)")]),
    dict(name='atom-drop-trunc-flag', expect='fire', key='FMT-trunc|pdb|ATOM|5', edits=[
        dict(file=PDB, old="{:1st}{:>4dt}{:1st}   {:8.3ft}", new="{:1st}{:>4d}{:1st}   {:8.3ft}")]),
    dict(name='atom-swap-chain-resname-args', expect='fire', key='FMT-layout|ATOM|attr', edits=[
        dict(file=PDB, old="resname, chain, resid, insertion_code, x,", new="chain, resname, resid, insertion_code, x,")]),
    dict(name='atom-resname-4-wide-shifts-chain', expect='fire', key='FMT-layout|ATOM|span', edits=[
        dict(file=PDB, old="{:4st}{:1st}{:3st} {:1st}", new="{:4st}{:1st}{:4st} {:1st}")]),
    dict(name='reader-atomid-6-wide', expect='fire', key='FMT-', edits=[
        dict(file=PDB, old="('atomid', int, 5),\n            ('', str, 1),", new="('atomid', int, 6),\n            ('', str, 0),")]),
    dict(name='reader-skip-unnamed-width', expect='fire', key='FMT-reader-accumulate|_atom', edits=[
        dict(file=PDB, old="                field_slices.append((name, type_, slice(start, start + width)))\n            start += width\n\n        properties = {}",
             new="                field_slices.append((name, type_, slice(start, start + width)))\n                start += width\n\n        properties = {}")]),
    dict(name='ter-conditional', expect='fire', key='MPT-ter', edits=[
        dict(file=PDB, old="        atomid += 1\n        out.append(terline)", new="        atomid += 1\n        if len(molecule) > 1:\n            out.append(terline)")]),
    dict(name='conect-chunk-mismatch', expect='fire', key='PROV-conect-chunks', edits=[
        dict(file=PDB, old="current, todo = todo[:4], todo[4:]", new="current, todo = todo[:4], todo[5:]")]),
    dict(name='conect-reader-stride', expect='fire', key='FMT-serial|CONECT-reader', edits=[
        dict(file=PDB, old="            start = 6\n            width = 5\n            atids = []", new="            start = 6\n            width = 6\n            atids = []")]),
    dict(name='conect-wrong-filter', expect='fire', key='PROV-serial-table|conect-partners', edits=[
        dict(file=PDB, old="for n_idx in molecule[node_idx] if n_idx > node_idx)", new="for n_idx in molecule[node_idx] if n_idx > mol_idx)")]),
    dict(name='serial-store-after-increment', expect='fire', key='PROV-serial-table|store', edits=[
        dict(file=PDB, old="            nodeidx2atomid[(mol_idx, node_idx)] = atomid\n            node = molecule.nodes[node_idx]",
             new="            node = molecule.nodes[node_idx]"),
        dict(file=PDB, old="            atomid += 1\n            out.append(line)", new="            atomid += 1\n            nodeidx2atomid[(mol_idx, node_idx)] = atomid\n            out.append(line)")]),
    dict(name='str-format-instead-of-trunc', expect='fire', key='FMT-', edits=[
        dict(file=PDB, old="        terline = formatter.format('TER   {: >5dt}      {:3st} {:1st}{: >4dt}{:1st}',",
             new="        terline = 'TER   {: >5d}      {:3s} {:1s}{: >4d}{:1s}'.format(")]),
    dict(name='gro-width-6', expect='fire', key='FMT-layout|gro|prefix', edits=[
        dict(file=GRO, old="'{:5dt}{:<5st}{:>5st}{:5dt}'", new="'{:5dt}{:<5st}{:>5st}{:6dt}'")]),
    dict(name='gro-swap-names', expect='fire', key='FMT-layout|gro|order', edits=[
        dict(file=GRO, old="line = formatter.format(format_string, resid, resname, atomname,", new="line = formatter.format(format_string, resid, atomname, resname,")]),
    dict(name='gro-vel-width', expect='fire', key='FMT-layout|gro|vel-width', edits=[
        dict(file=GRO, old="vel_format_string = vel_format_string.format(ntx=precision+1)", new="vel_format_string = vel_format_string.format(ntx=precision+2)")]),
    dict(name='conect-reader-split (seed C16_a)', expect='fire', key='FMT-serial|CONECT-reader-fixed', edits=[
        dict(file=PDB, old="            start = 6\n            width = 5\n            atids = []\n            for num in range(start, len(line.rstrip()), width):\n                atom = int(line[num:num + width])\n                atids.append(atom)\n",
             new="            atids = [int(atom) for atom in line[6:].split()]\n")]),
    dict(name='trunc-align-inference-broken (seed C16_b)', expect='fire', key='FMT-truncation-code', edits=[
        dict(file='vermouth/truncating_formatter.py', old="            elif spec.type in 'bcdoxXn' or spec.type in 'eEfFgGn%':", new="            elif spec.type in ('bcdoxXn', 'eEfFgGn%'):")]),
    dict(name='trunc-off-by-one', expect='fire', key='FMT-truncation-code', edits=[
        dict(file='vermouth/truncating_formatter.py', old="        overflow = len(result) - spec.width\n", new="        overflow = len(result) - spec.width - 1\n")]),
    dict(name='reader-xyz-free-format (seed C11_b)', expect='fire', key='FMT-layout|ATOM', edits=[
        dict(file=PDB, old="            ('x', float, 8),\n            ('y', float, 8),\n            ('z', float, 8),\n", new="            ('xyz', str, 24),\n")]),
    # behaviour-preserving edits: must stay silent
    dict(name='benign-rename-local', expect='silent', edits=[
        dict(file=PDB, old="            line = formatter.format(format_string, atomid, atomname, altloc,\n                                    resname, chain, resid, insertion_code, x,\n                                    y, z, occupancy, temp_factor, element,\n                                    charge)\n            atomid += 1\n            out.append(line)",
             new="            atom_line = formatter.format(format_string, atomid, atomname, altloc,\n                                    resname, chain, resid, insertion_code, x,\n                                    y, z, occupancy, temp_factor, element,\n                                    charge)\n            atomid += 1\n            out.append(atom_line)")]),
    dict(name='benign-inline-format-string', expect='silent', edits=[
        dict(file=PDB, old="        number_fmt = '{:>5dt}'\n", new="        number_fmt = '{:>' + '5dt}'\n")]),
    dict(name='benign-conect-format-concat', expect='silent', edits=[
        dict(file=PDB, old="                    fmt = ['CONECT'] + [number_fmt]*(len(current) + 1)\n                    fmt = ''.join(fmt)\n",
             new="                    fmt = 'CONECT' + number_fmt*(len(current) + 1)\n")]),
    dict(name='write_pdb-flags-transposed (seed C16_f)', expect='fire', key='ARG-binding|write_pdb|write_pdb_string|conect', edits=[
        dict(file=PDB, old="write_pdb_string(system, conect, omit_charges, nan_missing_pos)", new="write_pdb_string(system, omit_charges, conect, nan_missing_pos)")]),
    dict(name='benign-write_pdb-keywords', expect='silent', edits=[
        dict(file=PDB, old="write_pdb_string(system, conect, omit_charges, nan_missing_pos)", new="write_pdb_string(system, omit_charges=omit_charges, conect=conect, nan_missing_pos=nan_missing_pos)")]),
    dict(name='benign formatter regex gains a non-capturing group', expect='silent', edits=[
        dict(file='vermouth/truncating_formatter.py', old="([\\+\\- ])?(#)?(0)?", new="([\\+\\- ])?(?:z)?(#)?(0)?")]),
    dict(name='formatter regex gains a capturing group, indices not shifted (seed C03_s)', expect='fire', key='FMT-spec-parse|groups', edits=[
        dict(file='vermouth/truncating_formatter.py', old="([\\+\\- ])?(#)?(0)?", new="([\\+\\- ])?(z)?(#)?(0)?")]),
    dict(name='benign formatter regex gains a capturing group, indices shifted accordingly', expect='silent', edits=[
        dict(file='vermouth/truncating_formatter.py', old="([\\+\\- ])?(#)?(0)?", new="([\\+\\- ])?(z)?(#)?(0)?"),
        dict(file='vermouth/truncating_formatter.py', old=".group(2, 3, 4, 5, 6, 7, 8, 10, 11, 12)", new=".group(2, 3, 4, 6, 7, 8, 9, 11, 12, 13)")]),
]
