D = 'vermouth/dssp/dssp.py'
VARIANTS = [
    dict(name='zip-unfiltered-molecules (original defect F8)', expect='fire', key='SIB-zip|AnnotateResidues.run_system', edits=[
        dict(file=D, old="for molecule, nres in zip(selected_molecules, molecule_lengths):", new="for molecule, nres in zip(system.molecules, molecule_lengths):")]),
    dict(name='lengths-over-all-molecules', expect='fire', key='SIB-zip|AnnotateResidues.run_system', edits=[
        dict(file=D, old="            for molecule in selected_molecules\n        ]", new="            for molecule in system.molecules\n        ]")]),
    dict(name='mismatch-check-dropped', expect='fire', key='MPT-mismatch|annotate_residues_from_sequence', edits=[
        dict(file=D, old="    elif len(sequence) != len(residues):\n        msg = ('The sequence length does not match the number of residues. '\n               'The sequence has {} elements for {} residues.')\n        raise ValueError(msg.format(len(sequence), len(residues)))\n", new="")]),
    dict(name='system-mismatch-only-when-longer', expect='fire', key='MPT-mismatch|run_system', edits=[
        dict(file=D, old="        elif len(self.sequence) != sum(molecule_lengths):", new="        elif len(self.sequence) > sum(molecule_lengths):")]),
    dict(name='begin-advanced-before-call', expect='fire', key='PROV-slice|run_system', edits=[
        dict(file=D, old="            end += nres\n            annotate_residues_from_sequence(", new="            end += nres\n            begin += nres\n            annotate_residues_from_sequence("),
        dict(file=D, old="                sequence[begin:end]\n            )\n            begin += nres", new="                sequence[begin:end]\n            )")]),
    dict(name='store-skips-hydrogens', expect='fire', key='MPT-whole-residue', edits=[
        dict(file=D, old="        for node_name in residue_nodes:\n            molecule.nodes[node_name][attribute] = value",
             new="        for node_name in residue_nodes:\n            if molecule.nodes[node_name].get('element') != 'H':\n                molecule.nodes[node_name][attribute] = value")]),
    dict(name='repeat-without-equal-lengths', expect='fire', key='PROV-repetition|per-molecule', edits=[
        dict(file=D, old="                and len(self.sequence) == molecule_lengths[0]\n                and utils.are_all_equal(molecule_lengths)):", new="                and len(self.sequence) == molecule_lengths[0]):")]),
    dict(name='table-loses-I', expect='fire', key='TAB-alphabet|covered', edits=[
        dict(file=D, old="'H': 'H', 'G': 'H', 'I': 'H',", new="'H': 'H', 'G': 'H',")]),
    dict(name='bridge-maps-to-coil', expect='fire', key='TAB-alphabet|documented', edits=[
        dict(file=D, old="'B': 'E', 'E': 'E',", new="'B': 'C', 'E': 'E',")]),
    dict(name='pattern-changes-length', expect='fire', key='TAB-helix|.HHHHH.', edits=[
        dict(file=D, old="('.HHHHH.', '.13332.')", new="('.HHHHH.', '.1332.')")]),
    dict(name='pattern-6-wrong-classes', expect='fire', key='TAB-helix|doc6', edits=[
        dict(file=D, old="('.HHHHHH.', '.113322.')", new="('.HHHHHH.', '.113222.')")]),
    dict(name='flank-not-removed', expect='fire', key='TAB-helix|flank', edits=[
        dict(file=D, old="    wildcard_sequence = wildcard_sequence[1:-1]\n", new="    wildcard_sequence = wildcard_sequence[1:]\n")]),
    dict(name='run-molecule-ignores-selector', expect='fire', key='PROV-selected-only|run_molecule', edits=[
        dict(file=D, old="        if self.molecule_selector(molecule):\n            annotate_residues_from_sequence(molecule, self.attribute, self.sequence)",
             new="        annotate_residues_from_sequence(molecule, self.attribute, self.sequence)")]),
    dict(name='benign-inline-selected', expect='silent', edits=[
        dict(file=D, old="        selected_molecules = [\n            molecule\n            for molecule in system.molecules\n            if self.molecule_selector(molecule)\n        ]",
             new="        selected_molecules = [\n            mol\n            for mol in system.molecules\n            if self.molecule_selector(mol)\n        ]")]),
    dict(name='benign-lengths-from-filtered-comp', expect='silent', edits=[
        dict(file=D, old="            for molecule in selected_molecules\n        ]", new="            for molecule in system.molecules\n            if self.molecule_selector(molecule)\n        ]")]),
    dict(name='generated-helix-table-off-by-one (seed C17_e)', expect='fire', key='TAB-helix|run7', edits=[
        dict(file=D, old="    patterns = collections.OrderedDict([\n        ('.H.', '.3.'), ('.HH.', '.33.'), ('.HHH.', '.333.'),\n        ('.HHHH.', '.3333.'), ('.HHHHH.', '.13332.'),\n        ('.HHHHHH.', '.113322.'), ('.HHHHHHH.', '.1113222.'),\n        ('.HHHH', '.1111'), ('HHHH.', '2222.'),\n    ])\n", new="    patterns = collections.OrderedDict()\n    for length in range(1, 5):\n        patterns['.' + 'H' * length + '.'] = '.' + '3' * length + '.'\n    for length in range(5, 7):\n        caps = length - 4\n        core = length - 2 * caps\n        patterns['.' + 'H' * length + '.'] = (\n            '.' + '1' * caps + '3' * core + '2' * caps + '.'\n        )\n    patterns['.HHHH'] = '.1111'\n    patterns['HHHH.'] = '2222.'\n")]),
    dict(name='benign-generated-helix-table', expect='silent', edits=[
        dict(file=D, old="    patterns = collections.OrderedDict([\n        ('.H.', '.3.'), ('.HH.', '.33.'), ('.HHH.', '.333.'),\n        ('.HHHH.', '.3333.'), ('.HHHHH.', '.13332.'),\n        ('.HHHHHH.', '.113322.'), ('.HHHHHHH.', '.1113222.'),\n        ('.HHHH', '.1111'), ('HHHH.', '2222.'),\n    ])\n", new="    patterns = collections.OrderedDict()\n    for length in range(1, 5):\n        patterns['.' + 'H' * length + '.'] = '.' + '3' * length + '.'\n    for length in range(5, 8):\n        caps = length - 4\n        core = length - 2 * caps\n        patterns['.' + 'H' * length + '.'] = (\n            '.' + '1' * caps + '3' * core + '2' * caps + '.'\n        )\n    patterns['.HHHH'] = '.1111'\n    patterns['HHHH.'] = '2222.'\n")]),
    dict(name='read-back-skips-unannotated-residues', expect='fire', key='PROV-read-back|sequence_from_residues', edits=[
        dict(file=D, old="        value = first_node.get(attribute, default)\n        yield value", new="        if attribute in first_node:\n            yield first_node[attribute]")]),
    dict(name='read-back-last-atom', expect='fire', key='PROV-read-back|sequence_from_residues', edits=[
        dict(file=D, old="        first_name = residue_nodes[0]", new="        first_name = residue_nodes[-1]")]),
    dict(name='partial-dssp-assignment-converted', expect='fire', key='PROV-read-back|convert_annotation', edits=[
        dict(file=D, old="    if None not in dssp_sequence:\n        cg_sequence = list(convert_dssp_to_martini(dssp_sequence))", new="    if any(elem is not None for elem in dssp_sequence):\n        cg_sequence = list(convert_dssp_to_martini([e or 'C' for e in dssp_sequence]))")]),
    dict(name='benign-read-back-inlined', expect='silent', edits=[
        dict(file=D, old="        first_name = residue_nodes[0]\n        first_node = molecule.nodes[first_name]\n        value = first_node.get(attribute, default)\n        yield value",
             new="        yield molecule.nodes[residue_nodes[0]].get(attribute, default)")]),
    dict(name='helper selector_has_position by truthiness of the finite test', expect='fire', key='HELPER-contract|vermouth/selectors.py|selector_has_position', edits=[
        dict(file='vermouth/selectors.py', old="    return position is not None and np.all(np.isfinite(position))", new="    return position is not None and np.all(position) and np.all(np.isfinite(position))")]),
    dict(name='helper filter_minimal drops the extra arguments', expect='fire', key='HELPER-contract|vermouth/selectors.py|filter_minimal', edits=[
        dict(file='vermouth/selectors.py', old="        if selector(atom, *args, **kwargs):", new="        if selector(atom):")]),
]
