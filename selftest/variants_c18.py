VS = 'vermouth/rcsu/go_vs_includes.py'
SB = 'vermouth/rcsu/go_structure_bias.py'
VARIANTS = [
    dict(name='atype-from-old-resid (seed C18_a)', expect='fire', key='PROV-site|field|atype', edits=[
        dict(file=VS, old="'atype': '{}_{}'.format(prefix, atom['resid']),", new="'atype': '{}_{}'.format(prefix, atom['_old_resid']),")]),
    dict(name='inclusive-window (seed C18_b)', expect='fire', key='DT-contact|guard', edits=[
        dict(file=SB, old="if self.cutoff_long > dist > self.cutoff_short:", new="if self.cutoff_short <= dist <= self.cutoff_long:")]),
    dict(name='window-swapped', expect='fire', key='DT-contact|guard', edits=[
        dict(file=SB, old="if self.cutoff_long > dist > self.cutoff_short:", new="if self.cutoff_short > dist > self.cutoff_long:")]),
    dict(name='one-directional-contacts-accepted', expect='fire', key='DT-contact', edits=[
        dict(file=SB, old="                        else:\n                            contact_matrix.append((atype_a, atype_b, dist))",
             new="                        else:\n                            contact_matrix.append((atype_a, atype_b, dist))\n                            symmetrical_matrix.append((atype_a, atype_b, dist))")]),
    dict(name='reverse-probe-not-reversed', expect='fire', key='DT-contact|guard', edits=[
        dict(file=SB, old="if (atype_b, atype_a, dist) in contact_matrix:", new="if (atype_a, atype_b, dist) in contact_matrix:")]),
    dict(name='separation-check-dropped', expect='fire', key='DT-contact|guard', edits=[
        dict(file=SB, old="                if resB not in connected_pairs[resA]:", new="                if True:")]),
    dict(name='separation-uses-wrong-cutoff', expect='fire', key='DT-contact|guard', edits=[
        dict(file=SB, old="cutoff=self.res_dist))", new="cutoff=self.res_dist - 1))")]),
    dict(name='exclusion-before-symmetry', expect='fire', key='DT-contact|exclusion', edits=[
        dict(file=SB, old="                        if (atype_b, atype_a, dist) in contact_matrix:\n                            # generate backbone-backbone exclusions\n                            # perhaps one day can be its own function\n                            excl = Interaction(atoms=(bb_node_A, bb_node_B),\n                                               parameters=[], meta={\"group\": \"Go model exclusion\"})\n                            molecule.interactions['exclusions'].append(excl)\n",
             new="                        excl = Interaction(atoms=(bb_node_A, bb_node_B),\n                                           parameters=[], meta={\"group\": \"Go model exclusion\"})\n                        molecule.interactions['exclusions'].append(excl)\n                        if (atype_b, atype_a, dist) in contact_matrix:\n")]),
    dict(name='sigma-factor', expect='fire', key='PROV-sigma', edits=[
        dict(file=SB, old="self.conversion_factor = 2**(1/6)", new="self.conversion_factor = 2**(1/3)")]),
    dict(name='sigma-multiplied', expect='fire', key='PROV-sigma', edits=[
        dict(file=SB, old="sigma = dist / self.conversion_factor", new="sigma = dist * self.conversion_factor")]),
    dict(name='site-mass-nonzero', expect='fire', key='PROV-site|field|mass', edits=[dict(file=VS, old="'mass': 0.0,", new="'mass': 72.0,")]),
    dict(name='site-position-copied-from-first-atom', expect='fire', key='PROV-site|field|position', edits=[
        dict(file=VS, old="'position': atom['position'],", new="'position': molecule.nodes[min(molecule.nodes)]['position'],")]),
    dict(name='site-keys-from-len', expect='fire', key='PROV-site|keys', edits=[
        dict(file=VS, old="new_node_id = max(molecule.nodes)", new="new_node_id = len(molecule.nodes)")]),
    dict(name='construction-from-site-only', expect='fire', key='PROV-site|construction', edits=[
        dict(file=VS, old="atoms=[new_node_id, node_id],", new="atoms=[new_node_id, new_node_id - 1],")]),
    dict(name='benign-window-rewritten', expect='silent', edits=[
        dict(file=SB, old="if self.cutoff_long > dist > self.cutoff_short:", new="if dist < self.cutoff_long and self.cutoff_short < dist:")]),
    dict(name='go-map-reader-chain-resid-swapped', expect='fire', key='SIB-contact-layout|reader', edits=[
        dict(file='vermouth/rcsu/contact_map.py', old="contacts.append((int(tokens[5]), tokens[4], int(tokens[9]), tokens[8]))", new="contacts.append((tokens[4], int(tokens[5]), tokens[8], int(tokens[9])))")]),
    dict(name='go-map-reader-takes-csu-column', expect='fire', key='SIB-contact-layout|reader-filter', edits=[
        dict(file='vermouth/rcsu/contact_map.py', old='tokens[11] == "0" and tokens[14] == "1"', new='tokens[11] == "0" and tokens[12] == "1"')]),
    dict(name='generator-keeps-destabilised-contacts', expect='fire', key='SIB-contact-layout|generator-filter', edits=[
        dict(file='vermouth/rcsu/contact_map.py', old="            if over == 1 or (over == 0 and rcsu):", new="            if over == 1 or over == 0:")]),
    dict(name='benign-reader-filter-nested', expect='silent', edits=[
        dict(file='vermouth/rcsu/contact_map.py', old='                if tokens[11] == "1" or (tokens[11] == "0" and tokens[14] == "1"):\n                    # this is a OV or rCSU contact we take it\n                    contacts.append((int(tokens[5]), tokens[4], int(tokens[9]), tokens[8]))',
             new='                take = tokens[11] == "1"\n                if not take and tokens[11] == "0":\n                    take = tokens[14] == "1"\n                if take:\n                    contacts.append((int(tokens[5]), tokens[4], int(tokens[9]), tokens[8]))')]),
    dict(name='moltype-kept-when-already-set (seed C18_j)', expect='fire', key='STORE-overwrite|vermouth/rcsu/go_pipeline.py|GoProcessorPipeline.prepare_run', edits=[
        dict(file='vermouth/rcsu/go_pipeline.py', old="        molecule.meta['moltype'] = moltype", new="        molecule.meta.setdefault('moltype', moltype)")]),
    dict(name='helper select_backbone ignores the force field backbone name', expect='fire', key='HELPER-contract|vermouth/selectors.py|select_backbone', edits=[
        dict(file='vermouth/selectors.py', old="    return node.get('atomname') == bb_atomname", new="    return node.get('atomname') == 'BB'")]),
]
