A = 'vermouth/processors/annotate_mut_mod.py'
R = 'vermouth/processors/repair_graph.py'
VARIANTS = [
    dict(name='separator-by-content (seed C19_a)', expect='fire', key='PROV-spec-separator', edits=[
        dict(file=A, old="    if resid:  # [] if False\n        resname = res\n        resid = resid[0]\n", new="    resid = resid[0] if resid else ''\n    if resid:\n        resname = res\n")]),
    dict(name='terminal-by-graph-index (seed C19_b)', expect='fire', key='DT-terminal', edits=[
        dict(file=A, old="        return resid < neighbour_resid", new="        return res_idx < neighbour"),
        dict(file=A, old="        return resid > neighbour_resid", new="        return res_idx > neighbour")]),
    dict(name='nter-cter-swapped', expect='fire', key='DT-terminal|nter', edits=[
        dict(file=A, old="    if resname == 'nter':\n        return resid < neighbour_resid\n    elif resname == 'cter':\n        return resid > neighbour_resid",
             new="    if resname == 'nter':\n        return resid > neighbour_resid\n    elif resname == 'cter':\n        return resid < neighbour_resid")]),
    dict(name='terminal-inclusive', expect='fire', key='DT-terminal|nter', edits=[
        dict(file=A, old="        return resid < neighbour_resid", new="        return resid <= neighbour_resid")]),
    dict(name='non-protein-termini-accepted', expect='fire', key='DT-terminal|protein', edits=[
        dict(file=A, old="    if not is_protein(residue_graph.nodes[res_idx]['graph']):\n        return False\n", new="")]),
    dict(name='unknown-target-ignored', expect='fire', key='MPT-unknown-target', edits=[
        dict(file=A, old="            if mod != 'none' and mod not in library:", new="            if False and mod != 'none' and mod not in library:")]),
    dict(name='annotate-first-atom-only', expect='fire', key='MPT-all-atoms', edits=[
        dict(file=A, old="            for node_idx in res['graph']:\n                molecule.nodes", new="            for node_idx in list(res['graph'])[:1]:\n                molecule.nodes")]),
    dict(name='annotate-heavy-atoms-only', expect='fire', key='MPT-all-atoms', edits=[
        dict(file=A, old="            for node_idx in res['graph']:\n                molecule.nodes[node_idx][key] =", new="            for node_idx in res['graph']:\n                if molecule.nodes[node_idx].get('element') == 'H':\n                    continue\n                molecule.nodes[node_idx][key] =")]),
    dict(name='subdict-ignores-missing-keys', expect='fire', key='DT-terminal|all-parts', edits=[
        dict(file=A, old="        if key not in dict2 or dict2[key] != val:", new="        if key in dict2 and dict2[key] != val:")]),
    dict(name='terminal-rule-any-degree', expect='fire', key='DT-terminal|degree', edits=[
        dict(file=A, old="    if residue_graph.degree[res_idx] == 1 and resspec.get('resname') in ['nter', 'cter']:", new="    if residue_graph.degree[res_idx] >= 1 and resspec.get('resname') in ['nter', 'cter']:")]),
    dict(name='surplus-atoms-kept', expect='fire', key='PROV-surplus', edits=[
        dict(file=R, old="            if molecule.nodes[idx].get('mutation') or molecule.nodes[idx].get('modification'):\n                molecule.remove_node(idx)", new="            pass")]),
    dict(name='surplus-removed-always', expect='fire', key='PROV-surplus', edits=[
        dict(file=R, old="            if molecule.nodes[idx].get('mutation') or molecule.nodes[idx].get('modification'):\n                molecule.remove_node(idx)", new="            molecule.remove_node(idx)")]),
    dict(name='mutations-looked-up-in-modifications', expect='fire', key='MPT-all-atoms|all-requests', edits=[
        dict(file=A, old="(mutations, 'mutation', molecule.force_field.blocks)]", new="(mutations, 'mutation', molecule.force_field.modifications)]")]),
    dict(name='benign-terminal-rewritten', expect='silent', edits=[
        dict(file=A, old="        return resid < neighbour_resid", new="        return neighbour_resid > resid")]),
]
