#!/venv/bin/python
"""Robustness fuzzer for the rule sets: behaviour-preserving rewrites of the
analysed functions must leave every check silent.

  * alpha:  rename one local variable of one analysed function (consistently);
  * unparse: re-emit the whole module through ast.unparse (drops comments,
    normalises layout).

usage: tools/alpha_fuzz.py C12 [C13 ...]   (scratch copies under $TMPDIR, removed immediately)
"""
import ast
import multiprocessing
import os
import shutil
import sys
import tempfile

HERE = os.path.dirname(os.path.dirname(os.path.abspath(__file__)))
sys.path.insert(0, HERE)
sys.dont_write_bytecode = True

from vstat.index import SourceIndex, AnalysisError, FUNC_TYPES  # noqa: E402
from vstat.report import Check, finish  # noqa: E402
from vstat import rules, selftest  # noqa: E402


def locals_of(fn):
    params = {a.arg for a in fn.args.posonlyargs + fn.args.args + fn.args.kwonlyargs}
    if fn.args.vararg:
        params.add(fn.args.vararg.arg)
    if fn.args.kwarg:
        params.add(fn.args.kwarg.arg)
    names = set()
    declared = set()
    for n in ast.walk(fn):
        if isinstance(n, (ast.Global, ast.Nonlocal)):
            declared |= set(n.names)
        if isinstance(n, ast.Name) and isinstance(n.ctx, ast.Store):
            names.add(n.id)
        if isinstance(n, FUNC_TYPES) and n is not fn:
            names.add(n.name)
    # names bound by nested defs' own parameters are left alone
    for n in ast.walk(fn):
        if isinstance(n, (ast.Lambda,) + FUNC_TYPES) and n is not fn:
            for a in n.args.posonlyargs + n.args.args + n.args.kwonlyargs:
                names.discard(a.arg)
    # imported names used as locals (from builtins import open) stay
    for n in ast.walk(fn):
        if isinstance(n, (ast.Import, ast.ImportFrom)):
            for a in n.names:
                names.discard(a.asname or a.name)
    return sorted(names - params - declared - {'open'})


class Rename(ast.NodeTransformer):
    def __init__(self, old, new):
        self.old, self.new = old, new

    def visit_Name(self, n):  # noqa: N802
        if n.id == self.old:
            return ast.copy_location(ast.Name(id=self.new, ctx=n.ctx), n)
        return n

    def visit_FunctionDef(self, n):  # noqa: N802
        if n.name == self.old:
            n.name = self.new
        return self.generic_visit(n)


def run_one(job):
    prop, rel, qual, old, root = job
    tmp = tempfile.mkdtemp(prefix='vstat_alpha_')
    try:
        selftest.make_scratch(root, tmp)
        path = os.path.join(tmp, rel)
        tree = ast.parse(open(path, encoding='utf-8').read())
        if qual is not None:
            target = None
            parts = qual.split('.')

            def find(body, parts):
                for st in body:
                    if isinstance(st, FUNC_TYPES + (ast.ClassDef,)) and st.name == parts[0]:
                        if len(parts) == 1:
                            return st
                        return find(st.body, parts[1:])
                    if isinstance(st, (ast.If, ast.Try, ast.With)):
                        r = find(getattr(st, 'body', []), parts)
                        if r is not None:
                            return r
                return None
            target = find(tree.body, parts)
            if target is None:
                return (prop, rel, qual, old, 'skip', [])
            keep = target.name
            Rename(old, old + '_rn').visit(target)
            target.name = keep
        ast.fix_missing_locations(tree)
        with open(path, 'w', encoding='utf-8') as handle:
            handle.write(ast.unparse(tree) + '\n')
        buf = []
        try:
            index = SourceIndex(tmp)
            check = Check(prop, index)
            rules.get(prop)(check)
            status = finish(check, out=buf.append)
        except AnalysisError as err:
            return (prop, rel, qual, old, 'analysis-error', [str(err)[:200]])
        except Exception as err:  # pylint: disable=broad-except
            return (prop, rel, qual, old, 'crash', ['{}: {}'.format(type(err).__name__, str(err)[:200])])
        if status != 0:
            return (prop, rel, qual, old, 'FIRED', [b[:230] for b in buf if b.startswith(('FAILED-OBLIGATION', 'ANALYSIS-ERROR'))][:4])
        return (prop, rel, qual, old, 'silent', [])
    finally:
        shutil.rmtree(tmp, ignore_errors=True)


def main():
    props = sys.argv[1:]
    root = '/repo'
    jobs = []
    for prop in props:
        index = SourceIndex(root)
        check = Check(prop, index)
        rules.get(prop)(check)
        mods = set()
        for item in sorted(check.functions_analysed):
            rel, qual = item.split('::', 1)
            if rel.startswith('site-packages'):
                continue
            module = index.mod(rel)
            fn = module.functions.get(qual)
            if fn is None:
                continue
            mods.add(rel)
            for name in locals_of(fn):
                jobs.append((prop, rel, qual, name, root))
        for rel in sorted(mods):
            jobs.append((prop, rel, None, '<unparse>', root))
    with multiprocessing.Pool(min(16, max(1, len(jobs)))) as pool:
        results = pool.map(run_one, jobs, chunksize=2)
    bad = [r for r in results if r[4] not in ('silent', 'skip')]
    for r in bad:
        print('{} {}::{} rename `{}` -> {}'.format(r[0], r[1], r[2], r[3], r[4]))
        for line in r[5]:
            print('     ' + line)
    print('alpha-fuzz: {} variants, {} not silent'.format(len(results), len(bad)))
    return 1 if bad else 0


if __name__ == '__main__':
    sys.exit(main())
