#!/bin/bash
# usage: tools/check_seed.sh <seed name> [property]  -- applies /verif/seeded/<name>/patch.diff to a scratch worktree of /repo HEAD and runs the check on it
name=$1
prop=${2:-${name%%_*}}
wt=/tmp/cw_$name
git -C /repo worktree remove --force $wt >/dev/null 2>&1
git -C /repo worktree add -q --detach $wt HEAD || exit 3
if git -C $wt apply /verif/seeded/$name/patch.diff 2>/dev/null; then
  out=$(cd /verif && ./vcheck $prop --root $wt 2>&1 | grep -E "VIOLATION|FAILED-OBLIGATION|ANALYSIS-ERROR|SUMMARY" | head -6)
else
  out="PATCH-DOES-NOT-APPLY"
fi
git -C /repo worktree remove --force $wt
echo "== $name ($prop)"; echo "$out" | cut -c1-260
