#!/venv/bin/python
"""Call closure report: for every claimed property, which functions of the package are reachable from the functions its rules read (callees resolved by name
through the module's own definitions, its imports and -- for method calls -- every package method of that name), and which of those no rule of the property
reads.  A report, not a check: it says where a change in a *callee* could alter the behaviour of a function a rule has read without that rule noticing."""
import ast
import sys
import os
sys.path.insert(0, os.path.join(os.path.dirname(os.path.abspath(__file__)), '..'))
from vstat.index import SourceIndex, call_name, call_attr, walk_local  # noqa: E402
from vstat.report import Check  # noqa: E402
from vstat import rules  # noqa: E402

# method names that exist in the package but are overwhelmingly calls on builtin containers / networkx objects
AMBIENT = {'get', 'items', 'keys', 'values', 'append', 'add', 'update', 'extend', 'pop', 'copy', 'format', 'join', 'split', 'strip', 'write', 'read', 'close',
           'index', 'count', 'sort', 'remove', 'clear', 'insert', 'setdefault', 'startswith', 'endswith', 'lower', 'upper', 'nodes', 'edges'}


def callees(index, module, fn, table):
    out = set()
    for c in walk_local(fn):
        if not isinstance(c, ast.Call):
            continue
        if isinstance(c.func, ast.Name):
            name = c.func.id
            if name in module.functions:
                out.add((module.rel, name))
            elif name in module.imports:
                modname, orig = module.imports[name]
                for m2, q2, _f in table.get(orig or name, []):
                    if '.' not in q2:
                        out.add((m2.rel, q2))
            elif name in getattr(module, 'classes', {}):
                for q2 in module.functions:
                    if q2 == name + '.__init__':
                        out.add((module.rel, q2))
        elif isinstance(c.func, ast.Attribute):
            name = c.func.attr
            if name in AMBIENT:
                continue
            cands = table.get(name, [])
            if len(cands) > 3:
                # a name implemented by many classes (run_molecule, __init__, parse, log, ..) is dynamic dispatch: only the module's own class counts
                cands = [c_ for c_ in cands if c_[0] is module and isinstance(c.func.value, ast.Name) and c.func.value.id == 'self']
            for m2, q2, _f in cands:
                out.add((m2.rel, q2))
    return out


def main(depth=2):
    index = SourceIndex(sys.argv[1] if len(sys.argv) > 1 else '/repo')
    table = {}
    for m, q, f in index.all_functions():
        table.setdefault(q.split('.')[-1], []).append((m, q, f))
    byname = {(m.rel, q): (m, f) for m, q, f in index.all_functions()}
    for prop in rules.CLAIMED:
        ck = Check(prop, index, tier='quick', seed=0)
        rules.get(prop)(ck)
        read = set()
        for item in ck.functions_analysed:
            rel, q = item.split('::', 1)
            read.add((rel, q))
        frontier, seen = set(read), set(read)
        for _ in range(depth):
            nxt = set()
            for key in frontier:
                if key not in byname:
                    continue
                m, f = byname[key]
                nxt |= callees(index, m, f, table) - seen
            seen |= nxt
            frontier = nxt
        unread = sorted(k for k in seen - read if '/tests/' not in k[0])
        print('{}: rules read {} functions; {} more are reachable within {} calls: {}'.format(
            prop, len(read), len(unread), depth, ', '.join('{}::{}'.format(os.path.basename(r), q) for r, q in unread)))


if __name__ == '__main__':
    main()
