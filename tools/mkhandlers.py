#!/venv/bin/python
"""Regenerates vstat/handlers.json: the exception handlers of the pinned tree (per function: exception types caught and what the
handler does).  The EXC lint (vstat/rules/shared.py) compares the current tree with it: which errors are absorbed where is part of
every "is an error / is reported / never silently" clause, and it is decided handler by handler."""
import json
import os
import sys

HERE = os.path.dirname(os.path.dirname(os.path.abspath(__file__)))
sys.path.insert(0, HERE)
sys.dont_write_bytecode = True

from vstat.index import SourceIndex  # noqa: E402
from vstat.rules.shared import handler_table, guarded_lookups, subscript_stores  # noqa: E402

idx = SourceIndex(sys.argv[1] if len(sys.argv) > 1 else '/repo')
out = {}
n = 0
for rel, module in sorted(idx.modules.items()):
    table = handler_table(module)
    if table:
        out[rel] = table
        n += sum(len(v) for v in table.values())
out['#lookups'] = {rel: guarded_lookups(module) for rel, module in sorted(idx.modules.items()) if guarded_lookups(module)}
out['#stores'] = {rel: subscript_stores(module) for rel, module in sorted(idx.modules.items()) if subscript_stores(module)}
with open(os.path.join(HERE, 'vstat', 'handlers.json'), 'w') as handle:
    json.dump(out, handle, indent=0, sort_keys=True)
print('modules', len(out), 'handlers', n)
