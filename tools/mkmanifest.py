#!/usr/bin/env python3
"""Regenerates /verif/MANIFEST.json from the table below (keeps it valid at all times)."""
import importlib.util
import json
import os

HERE = os.path.dirname(os.path.dirname(os.path.abspath(__file__)))

# property -> (technique, level text, level note, design ref)
TABLE = {
    'C01': ('ast flow model: must-pass-through + provenance + per-item-store (BULK) rules on do_mapping',
            'Static necessary conditions of the conservation property: the unmapped-atom / overlap warnings are at WARNING level, '
            'unskippable and fed by the placement table; one block merge per placement; constituent graph and weights from one table; '
            'cross-placement edges from input connectivity; per-attribute guard writes that attribute only; induced matching; modification mappings chosen per '
            'connected group of modified atoms by an exact cover, every placement returned.',
            'Decides the structural clauses, not the outcome of the matcher or the renumbering arithmetic; trusted: ast parser, anchor names in vstat/rules/c01.py.',
            'DESIGN.md §4 C01'),
    'C02': ('ast taint/provenance: every atom reference written by the ITP writer passes the key->index table filled in the atom loop',
            'Static: renumbering table filled in the same loop (enumerate start=1, no skip) that writes [ atoms ]; every interaction atom '
            'goes through it; no interaction filtered; #ifdef/#endif pairing; sorted/groupby key agreement; section rewrites; the comment is appended after the last field; the writer is pure.',
            'Does not decide text alignment or parameter formatting; trusted: ast parser, anchors in vstat/rules/c02.py.',
            'DESIGN.md §4 C02'),
    'C03': ('ast sibling-agreement + provenance rules on the PDB/ITP/top writers and moltype deduplication',
            'Static: coordinate and ITP writers iterate atoms through the same iterator; #include list is built under the '
            'first-occurrence guard of the ITP write; [ molecules ] from groupby over system.molecules; share_moltype_with compares '
            'everything the ITP prints; equality predicates never compare a zip() prefix (ZIP-prefix lint).',
            'Does not decide file contents; trusted: ast parser, anchors in vstat/rules/c03.py.',
            'DESIGN.md §4 C03'),
    'C04': ('ast provenance: node predicate handed to the matcher reads only the element; unrecognised = complement of the match',
            'Narrow static claim: the matcher predicate of make_reference is name-blind; PTM_atom is set on found-minus-matched only; '
            'canonical attributes are copied from the matched block atom and win over residue-level attributes on rebuilt atoms; the symmetry cache key covers everything the computation reads; '
            'a patched reference block gets every anchor-added bond in either orientation.',
            'The bulk of C04 (largest match, invariance under renaming) depends on the ISMAGS search outcome and is not decided.',
            'DESIGN.md §4 C04'),
    'C05': ('ast relevance (origin-set slices) + who-may-call/ordering on match_link and DoLinks.run_molecule',
            'Static: every condition-bearing field of a link controls the yield of match_link; apply uses remove-then-add-or-replace; '
            'atoms/parameters are taken through the match table; atoms a link deletes or re-attributes are addressed as match[link atom]; exact decision tables for the order relation, '
            'interaction_match and attributes_match (own interpreter).',
            'Does not decide the behaviour of the graph matcher itself; trusted: ast parser, intra-module summaries (depth 3).',
            'DESIGN.md §4 C05'),
    'C07': ('ast who-may-open-for-writing sweep over the package + dominance/ordering rules on DeferredFileWriter and the CLI gate',
            'Static: only the deferred writer opens destinations for writing (enumerated exceptions); open() never touches the destination '
            'for write modes; backup-before-move under the lock; close() removes only temporaries; the CLI finalises at one site, '
            'dominated by the zero-leftover test, and exits non-zero otherwise; the temporary file is pre-filled for r+ only; finalisation receives the mode it was opened with.',
            'Does not decide crash-atomicity of shutil.move across file systems; trusted: ast parser, name resolution incl. local rebinding of open.',
            'DESIGN.md §4 C07'),
    'C08': ('ast bounds abstract interpretation (sign / <= per-type count) of the allowance deductions',
            'Static: every deduction from the total lies in [0, count of that type] (bounds abstract interpretation) and equals min(count, allowance) on all '
            'valuations of a small grid (own interpreter over the min/max/+/- fragment: exhausts the orderings); deductions happen only inside the loop over types that '
            'occurred in the WARNING-level table; errors are never deducted; the -maxwarn parser hands types on unmodified; the whole allowance function, interpreted by the checker over '
            '~10^4 (records, specification) cases incl. zero / negative / repeated limits, leaves exactly what the statement says.',
            'Exactness is decided on a finite grid for the min/max expression class only; counts are assumed non-negative; trusted: abstract transfer rules and vstat/interp.py.',
            'DESIGN.md §4 C08'),
    'C09': ('ast sibling agreement of the positions/weights comprehensions + provenance of weight keys',
            'Static: positions and weights given to the average are built over the same iterable under the same filter; weight keys are '
            'constituent-graph keys; centre weight multiplies; NaN only under a test of the weight sum.',
            'Does not decide the arithmetic of numpy.average; trusted: ast parser.',
            'DESIGN.md §4 C09'),
    'C10': ('literal table vs cited source + truth-table equivalence of the distance-bond guard (decision table)',
            'Static: VDW table equals Bondi/Rowland-Taylor values; the path condition of the distance-bond insertion is equivalent '
            '(all assignments of the named atoms) to the stated conjunction; residue identity includes the molecule index; nothing removed; the KD-tree candidate radius covers the '
            'largest pair threshold for every fudge factor; every distance pass gets the requested fudge factor; block non-bonds are accumulated over all residues.',
            'Does not decide the KD-tree implementation or near-threshold floating-point arithmetic; trusted: ast parser, atom naming in vstat/rules/c10.py, embedded Bondi table.',
            'DESIGN.md §4 C10'),
    'C11': ('ast unordered-iteration lint (hash-ordered collections of non-integers reaching order-sensitive sinks) with a frozen triage table',
            'Narrow static claim (hash-seed clause only): no iteration over a set of strings/objects or a directory listing reaches an '
            'order-sensitive sink unsorted in the pipeline modules; every site is triaged.  Plus one record-order clause: the PDB reader keeps / labels a record on grounds of that record '
            'alone (no parser memory), the element of a record without element column is the first letter of its name.',
            'Order-, name- and frame-independence of the pipeline as a whole are not decided; trusted: kind inference table and triage in vstat/rules/c11.py.',
            'DESIGN.md §4 C11'),
    'C12': ('ast cache-coherence, pairing, one-shot-iterator and alias rules on Molecule (with networkx Graph source parsed for inherited mutators)',
            'Static: merge offset recomputed from the node set; every inherited node-removing mutator is overridden and purges interactions, '
            'also for one-shot iterators; insertion validates atoms; copy/subgraph insert fresh dicts; merge rewrites every reference through '
            'the correspondence table.',
            'Does not decide arbitrary interleavings beyond these invariants; trusted: ast parser, parsed networkx/classes/graph.py.',
            'DESIGN.md §4 C12'),
    'C13': ('decorator-table analysis of the section dispatchers + idempotence, sibling-guard and dominance rules on the parsers',
            'Static: section dispatch tables are mutually consistent and reachable after case folding; registrations at section end are '
            'idempotent; documented rejections dominate registrations (exact decision tables); sibling parsers reject the same things; no swallowed parse error; key prefix and order attribute '
            'are equivalent (the four normalisation helpers interpreted over 720 key/attribute cases by the checker\'s own evaluator); [ edges ] use the normalised keys; specific metadata wins over #meta.',
            'Does not decide token-level grammar or macro substitution results; trusted: ast parser, tables in vstat/rules/c13.py.',
            'DESIGN.md §4 C13'),
    'C14': ('ast pairing (removal <-> unknown-input warning) and residue-key agreement rules on fix_ptm',
            'Narrow static claim: removal of unexplained atoms is paired with an unknown-input warning; labelling is unconditional over the '
            'touched residues; residue partitions use the canonical key; the unrecognised marking runs for every residue (shared with C04); no report memory kept on the processor.',
            'The cover search (exactly one, induced, preference) is not decided.',
            'DESIGN.md §4 C14'),
    'C15': ('no-raise path rule + mask-form decision table (truth-table equivalence over matrix operations) on apply_rubber_band',
            'Static: the NaN bail-out path cannot raise; the pair filter read off the matrix operations is equivalent to the stated '
            'conjunction; selection, pair matrices and emission share one index space; one emission site over the upper triangle.',
            'Does not decide matrix index arithmetic or decay values; trusted: ast parser, elimination reading of numpy mask operations.',
            'DESIGN.md §4 C15'),
    'C16': ('format-layout calculus: writer format strings vs reader column tables (ast + string.Formatter)',
            'Static: ATOM/TER/CONECT/GRO writer fields agree with the reader column tables field by field (name, order, span); every '
            'fixed-width field truncates; atom serials have one width everywhere; records emitted are dispatched by the reader; '
            'serial bookkeeping (one increment per atom, table keyed (molecule, node)); atom order = sorted_nodes by atom id alone; reader processors filter nothing by default and pass '
            'their settings on; a PDB record is kept / given an element on grounds of that record alone.',
            'Does not decide numeric precision of the round trip; trusted: ast parser, format mini-language grammar in vstat/fmt.py.',
            'DESIGN.md §4 C16'),
    'C17': ('ast sibling rule on zip operands (same filtered source) + dominance of the length test + literal table agreement',
            'Static: molecules and per-molecule lengths zipped together come from identically filtered sequences; length mismatch raises '
            'before any assignment; stores are unconditional over the residue; DSSP alphabet is covered by the translation table; helix '
            'rewrite table (literal, or constructed from constants and then interpreted by the checker) preserves length and matches the documented run rules.',
            'Does not decide the rewriting outcome for every string; trusted: ast parser.',
            'DESIGN.md §4 C17'),
    'C18': ('ast provenance of the virtual-site record + truth-table equivalence of the contact guard (decision table)',
            'Static: virtual-site fields come from the backbone particle iterated, keys start after the maximum, one site + construction per '
            'backbone node; the path condition of pair emission is equivalent to the stated conjunction; sigma factor folds to 2**(1/6); contact-map reader, built-in generator and '
            'consumer agree on the contact tuple layout and on the OV / rCSU acceptance criterion; keywords routed by constructor introspection are all declared (KW-wiring).',
            'Does not decide residue lookup correctness or float equality of the two directions; trusted: ast parser, atom naming in vstat/rules/c18.py.',
            'DESIGN.md §4 C18'),
    'C19': ('ast flag-aggregation rule + dominance + decision table of the terminal rule',
            'Static: the not-found report is not decided by a per-request flag (known finding), unknown target raises before annotation, '
            'annotation covers every atom of the residue, terminal rule orientation; the reference block is patched with every requested modification except the placeholder, none ends the loop.',
            'Does not decide specification parsing ambiguities; trusted: ast parser.',
            'DESIGN.md §4 C19'),
}

SHARED = (' Shared semantic lints over the files the property is anchored in: TRUTHY-zero (no truthiness test / `or` default on values for which 0 is legitimate), '
          'STATE-no-memory (no new module-, class- or instance-level memory outside the triaged inventory), ARG-binding (no transposed / crossed arguments at resolved calls), '
          'EDGE-orientation (no one-sided test on the ends of an undirected edge), EXC-handlers (exception types absorbed per function and how control leaves each handler, against the triaged inventory), '
          'ALIAS-source (no edit of the original after taking a copy), IS-literal, STORE-overwrite (no statement-level setdefault), KEY-residue-identity (residue grouping keys contain chain, resid, resname, insertion code), CACHE-key|memo (a local memo table\'s key reads everything the memoised callee reads from its argument), ALIAS-caller-object (no in-place update of a collection parameter), ORD-snapshot (no recomputed property of self read inside the loop that rewrites what it is computed from), ALIAS-per-iteration (a container built before a loop is not named and filled per iteration), ITER-local-one-shot (a local one-shot iterator or a groupby group is walked once, in place), TAB-fused-strings (no two literals of a string table fused by a missing comma, over the modules of the call closure), PROV-attribute-view (no new selection of nodes by mere presence of an attribute through nx.get_node_attributes), HELPER-contract (the documented input/output table of every triaged shared helper in the call closure of what the rules read, compared with the interpretation of its current source), EXC-handlers|lookups (no new lookup under a lookup-error handler); where a processor class is anchored: MPT-every-molecule (run_system visits every molecule).')

NA = {
    'C06': 'Correctness of a symmetry-reduced backtracking isomorphism search over all graph pairs: every clause is about the set of '
           'values the recursion yields; no pairing/ownership/table/provenance fact is a necessary condition short of re-proving ISMAGS '
           '(DESIGN.md §4 C06). Static analysis does not apply.',
}


def armed():
    rules_dir = os.path.join(HERE, 'vstat', 'rules')
    return sorted(p.upper() for p in (f[:-3] for f in os.listdir(rules_dir) if f.startswith('c') and f.endswith('.py')))


def main():
    props = [json.loads(l)['id'] for l in open(os.path.join(HERE, 'properties.jsonl'))]
    have = armed()
    checks = []
    na = []
    for pid in props:
        if pid in NA:
            na.append({'property_id': pid, 'reason': NA[pid]})
        elif pid in have and pid in TABLE:
            tech, text, note, ref = TABLE[pid]
            text = text + SHARED
            checks.append({
                'property_id': pid,
                'quick_cmd': './vcheck {} --tier quick'.format(pid),
                'thorough_cmd': './vcheck {} --tier thorough'.format(pid),
                'evidence_file': '/verif/evidence/{}.json'.format(pid),
                'replay_cmd_template': './vcheck {} --replay {{path}}'.format(pid),
                'engine': 'vstat',
                'level_claimed': {'category': 'other', 'text': text, 'design_ref': ref},
                'level_note': note,
                'technique': 'static analysis: ' + tech,
            })
        else:
            na.append({'property_id': pid, 'reason': 'static rule set not armed yet in this commit (build in progress; see DESIGN.md §4)'})
    manifest = {
        'version': 1,
        'setup_cmd': '/venv/bin/python -c "import ast, sys; sys.path.insert(0, \'/verif\'); import vstat.index, vstat.flow, vstat.report; print(\'vstat ok\')"',
        'hooks': {
            'guard': 'VERMOUTH_VERIF',
            'enable': 'none needed: no source hooks exist; every check is a static analysis of the working tree of /repo',
            'baseline_off_cmd': 'cd /repo && /venv/bin/python -m pytest -ra -q -p no:cacheprovider --timeout=900 --continue-on-collection-errors',
            'source_commits': [],
            'add_only': True,
        },
        'engines': [{'name': 'vstat', 'path': '/verif/vstat', 'serves_properties': [c['property_id'] for c in checks],
                     'kind_free_text': 'repository-specific static analyser on the Python ast: structured-flow reaching conditions with '
                                       'truth-table equivalence, substitution environment, constant folder, format-layout calculator, '
                                       'decorator-table reader, small-domain interpreter for comparison-only decision code, alpha-normalisation of local names; '
                                       'quick = rules on /repo, thorough = rules + scratch-variant self-test (hand-written variants + verified seeded changes)'}],
        'checks': checks,
        'not_applicable': na,
        'notes': 'All verdicts are static (stdlib ast under /venv/bin/python); nothing of /repo is imported or run by the checks. '
                 'Genuine defects found are recorded in known_findings.json (fixed: ... entries for the fix: commits in /repo).',
    }
    with open(os.path.join(HERE, 'MANIFEST.json'), 'w') as handle:
        json.dump(manifest, handle, indent=1)
    print('claimed', [c['property_id'] for c in checks])
    print('n/a', [n['property_id'] for n in na])


if __name__ == '__main__':
    main()
