#!/venv/bin/python
"""Regenerates vstat/roles.json (structural fingerprints of the locals of every
function of the pinned tree) -- see vstat/alpha.py."""
import ast
import json
import os
import sys

HERE = os.path.dirname(os.path.dirname(os.path.abspath(__file__)))
sys.path.insert(0, HERE)
sys.dont_write_bytecode = True
os.environ['VSTAT_NO_ALPHA'] = '1'
os.environ['VSTAT_NO_INLINE'] = '1'
os.environ['VSTAT_NO_UNHOIST'] = '1'

from vstat.index import SourceIndex, FUNC_TYPES  # noqa: E402
from vstat import alpha, unhoist  # noqa: E402

idx = SourceIndex(sys.argv[1] if len(sys.argv) > 1 else '/repo')
out = {}
for rel, module in idx.modules.items():
    for qual, fn in module.functions.items():
        parent = module.parent.get(id(fn))
        nested = False
        while parent is not None:
            if isinstance(parent, FUNC_TYPES):
                nested = True
                break
            parent = module.parent.get(id(parent))
        if nested:
            continue
        fp = alpha.fingerprints(fn)
        if fp:
            out.setdefault(rel, {})[qual] = fp
inventory = {}
for rel, module in idx.modules.items():
    names = set()
    for st in module.tree.body:
        if isinstance(st, FUNC_TYPES):
            names.add(st.name)
        elif type(st).__name__ == 'ClassDef':
            for it in st.body:
                if isinstance(it, FUNC_TYPES):
                    names.add('{}.{}'.format(st.name, it.name))
    inventory[rel] = sorted(names)
pinned = {}
for rel, module in idx.modules.items():
    names = set()
    for st in module.tree.body:
        for n in ([st] if not isinstance(st, (ast.If, ast.Try)) else list(ast.walk(st))):
            if isinstance(n, (ast.Assign, ast.AnnAssign, ast.AugAssign)):
                for t in (n.targets if isinstance(n, ast.Assign) else [n.target]):
                    names |= {x.id for x in ast.walk(t) if isinstance(x, ast.Name)}
            elif isinstance(n, FUNC_TYPES + (ast.ClassDef,)):
                names.add(n.name)
            elif isinstance(n, (ast.Import, ast.ImportFrom)):
                names |= {(a.asname or a.name).split('.')[0] for a in n.names}
    lambdas = {}
    for qual in inventory[rel]:
        inv = unhoist.lambda_inventory(module.functions[qual])
        if inv:
            lambdas[qual] = inv
    pinned[rel] = {'names': sorted(names), 'lambdas': lambdas}
with open(os.path.join(HERE, 'vstat', 'pinned.json'), 'w') as handle:
    json.dump(pinned, handle, indent=0, sort_keys=True)
with open(os.path.join(HERE, 'vstat', 'functions.json'), 'w') as handle:
    json.dump(inventory, handle, indent=0, sort_keys=True)
with open(os.path.join(HERE, 'vstat', 'roles.json'), 'w') as handle:
    json.dump(out, handle, indent=0, sort_keys=True)
print('functions', sum(len(v) for v in out.values()), 'locals', sum(len(f) for v in out.values() for f in v.values()))
