#!/venv/bin/python
"""Second robustness fuzzer: behaviour-preserving *structural* rewrites of the analysed functions must leave every check silent.

  * flip:   every single-operator comparison of one analysed function is mirrored (a == b -> b == a, a < b -> b > a, ...);
  * swap:   every if/else of one analysed function is turned round (if c: A else: B -> if not c: B else: A);
  * demorgan-free `not`: `x != y` <-> `not x == y` is NOT applied (it changes nothing a rule could care about beyond flip).

usage: tools/shape_fuzz.py C12 [C13 ...]   (scratch copies under $TMPDIR, removed immediately)
"""
import ast
import multiprocessing
import os
import shutil
import sys
import tempfile

HERE = os.path.dirname(os.path.dirname(os.path.abspath(__file__)))
sys.path.insert(0, HERE)
sys.dont_write_bytecode = True

from vstat.index import SourceIndex, AnalysisError, FUNC_TYPES  # noqa: E402
from vstat.report import Check, finish  # noqa: E402
from vstat import rules, selftest  # noqa: E402

MIRROR = {ast.Eq: ast.Eq, ast.NotEq: ast.NotEq, ast.Lt: ast.Gt, ast.Gt: ast.Lt, ast.LtE: ast.GtE, ast.GtE: ast.LtE}


class Flip(ast.NodeTransformer):
    def __init__(self):
        self.n = 0

    def visit_Compare(self, node):  # noqa: N802
        self.generic_visit(node)
        if len(node.ops) == 1 and type(node.ops[0]) in MIRROR:
            self.n += 1
            return ast.copy_location(ast.Compare(left=node.comparators[0], ops=[MIRROR[type(node.ops[0])]()], comparators=[node.left]), node)
        return node


class Swap(ast.NodeTransformer):
    def __init__(self):
        self.n = 0

    def visit_If(self, node):  # noqa: N802
        self.generic_visit(node)
        if node.orelse:
            self.n += 1
            test = node.test.operand if isinstance(node.test, ast.UnaryOp) and isinstance(node.test.op, ast.Not) else ast.UnaryOp(op=ast.Not(), operand=node.test)
            return ast.copy_location(ast.If(test=test, body=node.orelse, orelse=node.body), node)
        return node


def find(body, parts):
    for st in body:
        if isinstance(st, FUNC_TYPES + (ast.ClassDef,)) and st.name == parts[0]:
            if len(parts) == 1:
                return st
            return find(st.body, parts[1:])
        if isinstance(st, (ast.If, ast.Try, ast.With)):
            r = find(getattr(st, 'body', []), parts)
            if r is not None:
                return r
    return None


def run_one(job):
    prop, rel, qual, kind, root = job
    tmp = tempfile.mkdtemp(prefix='vstat_shape_')
    try:
        selftest.make_scratch(root, tmp)
        path = os.path.join(tmp, rel)
        tree = ast.parse(open(path, encoding='utf-8').read())
        target = find(tree.body, qual.split('.'))
        if target is None:
            return (prop, rel, qual, kind, 'skip', [])
        if kind in ('flip', 'swap'):
            tr = Flip() if kind == 'flip' else Swap()
            tr.visit(target)
            if tr.n == 0:
                return (prop, rel, qual, kind, 'skip', [])
        elif kind == 'log':
            # a debug message as first statement (after the docstring): changes nothing a property speaks about
            if isinstance(target, ast.ClassDef):
                return (prop, rel, qual, kind, 'skip', [])
            pos = 1 if target.body and isinstance(target.body[0], ast.Expr) and isinstance(target.body[0].value, ast.Constant) and isinstance(target.body[0].value.value, str) else 0
            stmt = ast.parse("LOGGER.debug('entering')").body[0]
            target.body.insert(pos, stmt)
        elif kind == 'guard':
            # last `if c: body` (no else) of every loop body becomes `if not c: continue` + body
            n = 0
            for loop in [l for l in ast.walk(target) if isinstance(l, (ast.For, ast.While))]:
                last = loop.body[-1]
                if isinstance(last, ast.If) and not last.orelse and len(loop.body) >= 1:
                    test = last.test.operand if isinstance(last.test, ast.UnaryOp) and isinstance(last.test.op, ast.Not) else ast.UnaryOp(op=ast.Not(), operand=last.test)
                    loop.body[-1:] = [ast.If(test=test, body=[ast.Continue()], orelse=[])] + last.body
                    n += 1
            if n == 0:
                return (prop, rel, qual, kind, 'skip', [])
        ast.fix_missing_locations(tree)
        with open(path, 'w', encoding='utf-8') as handle:
            handle.write(ast.unparse(tree) + '\n')
        buf = []
        try:
            index = SourceIndex(tmp)
            check = Check(prop, index)
            rules.get(prop)(check)
            status = finish(check, out=buf.append)
        except AnalysisError as err:
            return (prop, rel, qual, kind, 'analysis-error', [str(err)[:200]])
        except Exception as err:  # pylint: disable=broad-except
            return (prop, rel, qual, kind, 'crash', ['{}: {}'.format(type(err).__name__, str(err)[:200])])
        if status != 0:
            return (prop, rel, qual, kind, 'FIRED', [b[:260] for b in buf if b.startswith(('FAILED-OBLIGATION', 'ANALYSIS-ERROR'))][:4])
        return (prop, rel, qual, kind, 'silent', [])
    finally:
        shutil.rmtree(tmp, ignore_errors=True)


def main():
    props = sys.argv[1:]
    root = '/repo'
    jobs = []
    for prop in props:
        index = SourceIndex(root)
        check = Check(prop, index)
        rules.get(prop)(check)
        for item in sorted(check.functions_analysed):
            rel, qual = item.split('::', 1)
            if rel.startswith('site-packages'):
                continue
            if index.mod(rel).functions.get(qual) is None:
                continue
            for kind in ('flip', 'swap', 'log', 'guard'):
                jobs.append((prop, rel, qual, kind, root))
    with multiprocessing.Pool(min(int(os.environ.get('FUZZ_JOBS', '12')), max(1, len(jobs)))) as pool:
        results = pool.map(run_one, jobs)
    bad = [r for r in results if r[4] not in ('silent', 'skip')]
    for r in bad:
        print('{} {}::{} {} -> {}'.format(*r[:5]))
        for line in r[5]:
            print('    ' + line)
    print('variants={} silent={} skipped={} not-silent={}'.format(len(results), sum(r[4] == 'silent' for r in results), sum(r[4] == 'skip' for r in results), len(bad)))
    return 1 if bad else 0


if __name__ == '__main__':
    sys.exit(main())
