#!/venv/bin/python
"""Second robustness fuzzer: behaviour-preserving *structural* rewrites of the analysed functions must leave every check silent.

  * flip:   every single-operator comparison of one analysed function is mirrored (a == b -> b == a, a < b -> b > a, ...);
  * swap:   every if/else of one analysed function is turned round (if c: A else: B -> if not c: B else: A);
  * demorgan-free `not`: `x != y` <-> `not x == y` is NOT applied (it changes nothing a rule could care about beyond flip).

usage: tools/shape_fuzz.py C12 [C13 ...]   (scratch copies under $TMPDIR, removed immediately)
"""
import ast
import multiprocessing
import os
import shutil
import sys
import tempfile

HERE = os.path.dirname(os.path.dirname(os.path.abspath(__file__)))
sys.path.insert(0, HERE)
sys.dont_write_bytecode = True

from vstat.index import SourceIndex, AnalysisError, FUNC_TYPES  # noqa: E402
from vstat.report import Check, finish  # noqa: E402
from vstat import rules, selftest  # noqa: E402

MIRROR = {ast.Eq: ast.Eq, ast.NotEq: ast.NotEq, ast.Lt: ast.Gt, ast.Gt: ast.Lt, ast.LtE: ast.GtE, ast.GtE: ast.LtE}


class Flip(ast.NodeTransformer):
    def __init__(self):
        self.n = 0

    def visit_Compare(self, node):  # noqa: N802
        self.generic_visit(node)
        if len(node.ops) == 1 and type(node.ops[0]) in MIRROR:
            self.n += 1
            return ast.copy_location(ast.Compare(left=node.comparators[0], ops=[MIRROR[type(node.ops[0])]()], comparators=[node.left]), node)
        return node


class Swap(ast.NodeTransformer):
    def __init__(self):
        self.n = 0

    def visit_If(self, node):  # noqa: N802
        self.generic_visit(node)
        if node.orelse:
            self.n += 1
            test = node.test.operand if isinstance(node.test, ast.UnaryOp) and isinstance(node.test.op, ast.Not) else ast.UnaryOp(op=ast.Not(), operand=node.test)
            return ast.copy_location(ast.If(test=test, body=node.orelse, orelse=node.body), node)
        return node


def _uncond_chains(stmt_expr):
    """Pure Name/Attribute/Subscript chains (at least one step) of an expression that are evaluated whenever the expression is, outermost first."""
    out = []

    def go(node, live):
        if isinstance(node, (ast.Lambda, ast.ListComp, ast.SetComp, ast.DictComp, ast.GeneratorExp)):
            return
        if live and isinstance(node, (ast.Attribute, ast.Subscript)) and isinstance(node.ctx, ast.Load):
            cur = node
            pure = True
            while isinstance(cur, (ast.Attribute, ast.Subscript)):
                if isinstance(cur, ast.Subscript) and not isinstance(cur.slice, (ast.Constant, ast.Name)):
                    pure = False
                cur = cur.value
            if pure and isinstance(cur, ast.Name):
                out.append(node)
                return
        if isinstance(node, ast.BoolOp):
            go(node.values[0], live)
            for v in node.values[1:]:
                go(v, False)
            return
        if isinstance(node, ast.IfExp):
            go(node.test, live)
            go(node.body, False)
            go(node.orelse, False)
            return
        if isinstance(node, ast.Call):
            # the callee itself is left alone (a bound method is not hoisted), its receiver and arguments are looked at
            if isinstance(node.func, ast.Attribute):
                go(node.func.value, live)
            for a in node.args:
                go(a, live)
            for k in node.keywords:
                go(k.value, live)
            return
        if isinstance(node, ast.Compare) and len(node.ops) > 1:
            go(node.left, live)
            return
        for child in ast.iter_child_nodes(node):
            if isinstance(child, ast.expr):
                go(child, live)
    go(stmt_expr, True)
    return out


def hoist(target):
    """Bind the first unconditionally evaluated lookup chain of every simple statement / if test to a fresh local just before it."""
    n = 0

    def blocks(node):
        for fld in ('body', 'orelse', 'finalbody'):
            sub = getattr(node, fld, None)
            if isinstance(sub, list) and sub and isinstance(sub[0], ast.stmt):
                yield sub
        for h in getattr(node, 'handlers', []) or []:
            yield h.body
    for node in list(ast.walk(target)):
        if isinstance(node, FUNC_TYPES + (ast.ClassDef,)) and node is not target:
            continue
        for block in blocks(node):
            i = 0
            while i < len(block):
                st = block[i]
                expr = None
                if isinstance(st, (ast.Assign, ast.AugAssign, ast.Return)) and st.value is not None:
                    expr = st.value
                elif isinstance(st, ast.Expr) and not isinstance(st.value, (ast.Constant, ast.Yield, ast.YieldFrom)):
                    expr = st.value
                elif isinstance(st, ast.If):
                    expr = st.test
                if expr is not None and not any(isinstance(x, (ast.Yield, ast.YieldFrom, ast.Await, ast.NamedExpr)) for x in ast.walk(expr)):
                    chains = _uncond_chains(expr)
                    if chains and not (isinstance(st, ast.Assign) and chains[0] is st.value and isinstance(st.targets[0], ast.Name)):
                        ch = chains[0]
                        name = '_hoisted{}'.format(n)
                        n += 1
                        text = ast.unparse(ch)

                        class R(ast.NodeTransformer):
                            def visit(self, x):
                                if x is ch:
                                    return ast.copy_location(ast.Name(id=name, ctx=ast.Load()), x)
                                return self.generic_visit(x)
                        if isinstance(st, ast.If):
                            st.test = R().visit(st.test)
                        else:
                            st.value = R().visit(st.value)
                        block.insert(i, ast.copy_location(ast.parse('{} = {}'.format(name, text)).body[0], st))
                        i += 1
                i += 1
    return n


def lambdas_to_defs(target):
    n = 0
    for node in list(ast.walk(target)):
        for fld in ('body', 'orelse', 'finalbody'):
            block = getattr(node, fld, None)
            if not (isinstance(block, list) and block and isinstance(block[0], ast.stmt)):
                continue
            i = 0
            while i < len(block):
                st = block[i]
                if isinstance(st, (ast.Assign, ast.Expr, ast.Return, ast.For)):
                    root = st.iter if isinstance(st, ast.For) else st.value
                    lams = [x for x in ast.walk(root)] if root is not None else []
                    inner = set()
                    for x in lams:
                        if isinstance(x, (ast.ListComp, ast.SetComp, ast.DictComp, ast.GeneratorExp, ast.Lambda)):
                            inner |= {id(y) for y in ast.walk(x) if y is not x}
                    lams = [x for x in lams if isinstance(x, ast.Lambda) and id(x) not in inner]
                    for lam in lams:
                        name = '_named{}'.format(n)
                        n += 1
                        fn = ast.FunctionDef(name=name, args=lam.args, body=[ast.Return(value=lam.body)], decorator_list=[], returns=None, type_params=[])

                        class R(ast.NodeTransformer):
                            def visit(self, x):
                                if x is lam:
                                    return ast.copy_location(ast.Name(id=name, ctx=ast.Load()), x)
                                return self.generic_visit(x)
                        if isinstance(st, ast.For):
                            st.iter = R().visit(st.iter)
                        else:
                            st.value = R().visit(st.value)
                        block.insert(i, ast.copy_location(fn, st))
                        i += 1
                i += 1
    return n


def conditional_forms(target):
    """if c: x = A else: x = B  <->  x = A if c else B;  x = m.get(k, d)  ->  if k in m: x = m[k] else: x = d (d a constant)."""
    n = 0
    for node in list(ast.walk(target)):
        for fld in ('body', 'orelse', 'finalbody'):
            block = getattr(node, fld, None)
            if not (isinstance(block, list) and block and isinstance(block[0], ast.stmt)):
                continue
            for i, st in enumerate(block):
                if isinstance(st, ast.If) and len(st.body) == 1 and len(st.orelse) == 1 and isinstance(st.body[0], ast.Assign) and isinstance(st.orelse[0], ast.Assign) \
                        and len(st.body[0].targets) == 1 and isinstance(st.body[0].targets[0], ast.Name) and ast.unparse(st.body[0].targets[0]) == ast.unparse(st.orelse[0].targets[0]):
                    block[i] = ast.copy_location(ast.Assign(targets=st.body[0].targets, value=ast.IfExp(test=st.test, body=st.body[0].value, orelse=st.orelse[0].value)), st)
                    n += 1
                elif isinstance(st, ast.Assign) and len(st.targets) == 1 and isinstance(st.targets[0], ast.Name) and isinstance(st.value, ast.IfExp):
                    e = st.value
                    block[i] = ast.copy_location(ast.If(test=e.test, body=[ast.Assign(targets=st.targets, value=e.body)], orelse=[ast.Assign(targets=st.targets, value=e.orelse)]), st)
                    n += 1
                elif isinstance(st, ast.Assign) and len(st.targets) == 1 and isinstance(st.targets[0], ast.Name) and isinstance(st.value, ast.Call) \
                        and isinstance(st.value.func, ast.Attribute) and st.value.func.attr == 'get' and len(st.value.args) == 2 and not st.value.keywords \
                        and isinstance(st.value.args[1], ast.Constant) and isinstance(st.value.args[0], (ast.Constant, ast.Name)) and isinstance(st.value.func.value, ast.Name) \
                        and st.value.func.value.id not in ('os', 'self'):
                    m, k, d = st.value.func.value, st.value.args[0], st.value.args[1]
                    block[i] = ast.copy_location(ast.If(test=ast.Compare(left=k, ops=[ast.In()], comparators=[m]),
                                                        body=[ast.Assign(targets=st.targets, value=ast.Subscript(value=m, slice=k, ctx=ast.Load()))],
                                                        orelse=[ast.Assign(targets=st.targets, value=d)]), st)
                    n += 1
    return n


def _stmt_blocks(target):
    for node in list(ast.walk(target)):
        if isinstance(node, FUNC_TYPES + (ast.ClassDef,)) and node is not target:
            continue
        for fld in ('body', 'orelse', 'finalbody'):
            block = getattr(node, fld, None)
            if isinstance(block, list) and block and isinstance(block[0], ast.stmt):
                yield node, block
        for h in getattr(node, 'handlers', []) or []:
            yield h, h.body


def split_conditions(target):
    """`if a and b: X` (no else) -> `if a: if b: X`;  `if a or b: X` where X ends in continue/return/raise/break -> two ifs."""
    n = 0
    for _owner, block in _stmt_blocks(target):
        i = 0
        while i < len(block):
            st = block[i]
            if isinstance(st, ast.If) and not st.orelse and isinstance(st.test, ast.BoolOp) and len(st.test.values) == 2:
                a, b = st.test.values
                if isinstance(st.test.op, ast.And):
                    block[i] = ast.copy_location(ast.If(test=a, body=[ast.If(test=b, body=st.body, orelse=[])], orelse=[]), st)
                    n += 1
                elif isinstance(st.body[-1], (ast.Continue, ast.Return, ast.Raise, ast.Break)) and len(st.body) == 1:
                    import copy as _copy
                    block[i:i + 1] = [ast.copy_location(ast.If(test=a, body=_copy.deepcopy(st.body), orelse=[]), st),
                                      ast.copy_location(ast.If(test=b, body=st.body, orelse=[]), st)]
                    n += 1
                    i += 1
            i += 1
    return n


def demorgan(target):
    """not (a and b) <-> not a or not b; `if not (..)` forms only (tests of if / while / conditional expressions / comprehension filters)."""
    n = 0

    def neg(e):
        if isinstance(e, ast.UnaryOp) and isinstance(e.op, ast.Not):
            return e.operand
        if isinstance(e, ast.Compare) and len(e.ops) == 1:
            inv = {ast.Eq: ast.NotEq, ast.NotEq: ast.Eq, ast.In: ast.NotIn, ast.NotIn: ast.In, ast.Is: ast.IsNot, ast.IsNot: ast.Is}
            if type(e.ops[0]) in inv:
                return ast.Compare(left=e.left, ops=[inv[type(e.ops[0])]()], comparators=e.comparators)
        return ast.UnaryOp(op=ast.Not(), operand=e)

    class T(ast.NodeTransformer):
        def visit_UnaryOp(self, node):  # noqa: N802
            nonlocal n
            self.generic_visit(node)
            if isinstance(node.op, ast.Not) and isinstance(node.operand, ast.BoolOp):
                op = ast.Or() if isinstance(node.operand.op, ast.And) else ast.And()
                n += 1
                return ast.copy_location(ast.BoolOp(op=op, values=[neg(v) for v in node.operand.values]), node)
            return node

        def visit_BoolOp(self, node):  # noqa: N802
            nonlocal n
            self.generic_visit(node)
            if all(isinstance(v, ast.UnaryOp) and isinstance(v.op, ast.Not) for v in node.values):
                op = ast.Or() if isinstance(node.op, ast.And) else ast.And()
                n += 1
                return ast.copy_location(ast.UnaryOp(op=ast.Not(), operand=ast.BoolOp(op=op, values=[v.operand for v in node.values])), node)
            return node
    T().visit(target)
    return n


def comprehension_to_loop(target):
    """x = [e for a in b if c]  ->  x = []; for a in b: if c: x.append(e)   (list / set / dict comprehensions with one generator, assigned to a plain name)."""
    n = 0
    for _owner, block in _stmt_blocks(target):
        i = 0
        while i < len(block):
            st = block[i]
            if isinstance(st, ast.Assign) and len(st.targets) == 1 and isinstance(st.targets[0], ast.Name) and isinstance(st.value, (ast.ListComp, ast.SetComp, ast.DictComp)) \
                    and len(st.value.generators) == 1 and not st.value.generators[0].is_async:
                comp = st.value
                name = st.targets[0].id
                if any(isinstance(x, ast.Name) and x.id == name for x in ast.walk(comp)):
                    i += 1
                    continue
                gen = comp.generators[0]
                if isinstance(comp, ast.ListComp):
                    init, add = ast.List(elts=[], ctx=ast.Load()), ast.Expr(value=ast.Call(func=ast.Attribute(value=ast.Name(id=name, ctx=ast.Load()), attr='append', ctx=ast.Load()), args=[comp.elt], keywords=[]))
                elif isinstance(comp, ast.SetComp):
                    init, add = ast.Call(func=ast.Name(id='set', ctx=ast.Load()), args=[], keywords=[]), ast.Expr(value=ast.Call(func=ast.Attribute(value=ast.Name(id=name, ctx=ast.Load()), attr='add', ctx=ast.Load()), args=[comp.elt], keywords=[]))
                else:
                    init, add = ast.Dict(keys=[], values=[]), ast.Assign(targets=[ast.Subscript(value=ast.Name(id=name, ctx=ast.Load()), slice=comp.key, ctx=ast.Store())], value=comp.value)
                body = [add]
                for cond in reversed(gen.ifs):
                    body = [ast.If(test=cond, body=body, orelse=[])]
                loop = ast.For(target=gen.target, iter=gen.iter, body=body, orelse=[])
                block[i:i + 1] = [ast.copy_location(ast.Assign(targets=[ast.Name(id=name, ctx=ast.Store())], value=init), st), ast.copy_location(loop, st)]
                n += 1
                i += 1
            i += 1
    return n


def early_return(target):
    """a function ending in `if c: A else: B` -> `if c: A; return` followed by B (when neither arm yields and A does not fall into code after the if)."""
    if not isinstance(target, FUNC_TYPES) or any(isinstance(x, (ast.Yield, ast.YieldFrom)) for x in ast.walk(target)):
        return 0
    last = target.body[-1]
    if isinstance(last, ast.If) and last.orelse and not isinstance(last.body[-1], (ast.Return, ast.Raise)):
        target.body[-1:] = [ast.copy_location(ast.If(test=last.test, body=last.body + [ast.Return(value=None)], orelse=[]), last)] + last.orelse
        return 1
    if isinstance(last, ast.If) and last.orelse and isinstance(last.body[-1], (ast.Return, ast.Raise)):
        target.body[-1:] = [ast.copy_location(ast.If(test=last.test, body=last.body, orelse=[]), last)] + last.orelse
        return 1
    return 0


def format_to_fstring(target):
    """'..{}..{}'.format(a, b) with plain positional fields -> f-string."""
    n = 0

    class T(ast.NodeTransformer):
        def visit_Call(self, node):  # noqa: N802
            nonlocal n
            self.generic_visit(node)
            if isinstance(node.func, ast.Attribute) and node.func.attr == 'format' and isinstance(node.func.value, ast.Constant) and isinstance(node.func.value.value, str) \
                    and not node.keywords and node.args and not any(isinstance(a, ast.Starred) for a in node.args):
                text = node.func.value.value
                import string
                try:
                    parts = list(string.Formatter().parse(text))
                except ValueError:
                    return node
                if any(p[1] not in ('', None) or (p[2] or '') != '' or p[3] for p in parts) or sum(1 for p in parts if p[1] is not None) != len(node.args):
                    return node
                if '\\' in text or '"' in text or "'" in text:
                    return node
                values = []
                k = 0
                for lit, fld, _spec, _conv in parts:
                    if lit:
                        values.append(ast.Constant(value=lit))
                    if fld is not None:
                        values.append(ast.FormattedValue(value=node.args[k], conversion=-1, format_spec=None))
                        k += 1
                n += 1
                return ast.copy_location(ast.JoinedStr(values=values), node)
            return node
    T().visit(target)
    return n


def keyword_calls(target, tree):
    """f(a, b) -> f(x=a, y=b) for calls of functions defined at the top level of the same module (plain signatures only); the first argument stays positional."""
    sigs = {}
    for st in tree.body:
        if isinstance(st, FUNC_TYPES) and not st.decorator_list and not st.args.vararg and not st.args.posonlyargs:
            sigs[st.name] = [a.arg for a in st.args.args]
    n = 0
    for c in ast.walk(target):
        if isinstance(c, ast.Call) and isinstance(c.func, ast.Name) and c.func.id in sigs and len(c.args) >= 2 and not any(isinstance(a, ast.Starred) for a in c.args) \
                and len(c.args) <= len(sigs[c.func.id]):
            params = sigs[c.func.id]
            new_kw = [ast.keyword(arg=params[i], value=a) for i, a in enumerate(c.args) if i >= 1]
            c.args = c.args[:1]
            c.keywords = new_kw + c.keywords
            n += 1
    return n


class SwapNeg(ast.NodeTransformer):
    """if a == b: A else: B  ->  if a != b: B else: A  (and in / is likewise): the negation is written into the comparison operator."""
    INV = {ast.Eq: ast.NotEq, ast.NotEq: ast.Eq, ast.In: ast.NotIn, ast.NotIn: ast.In, ast.Is: ast.IsNot, ast.IsNot: ast.Is}

    def __init__(self):
        self.n = 0

    def visit_If(self, node):  # noqa: N802
        self.generic_visit(node)
        t = node.test
        if node.orelse and isinstance(t, ast.Compare) and len(t.ops) == 1 and type(t.ops[0]) in self.INV:
            self.n += 1
            test = ast.Compare(left=t.left, ops=[self.INV[type(t.ops[0])]()], comparators=t.comparators)
            return ast.copy_location(ast.If(test=test, body=node.orelse, orelse=node.body), node)
        return node


def find(body, parts):
    for st in body:
        if isinstance(st, FUNC_TYPES + (ast.ClassDef,)) and st.name == parts[0]:
            if len(parts) == 1:
                return st
            return find(st.body, parts[1:])
        if isinstance(st, (ast.If, ast.Try, ast.With)):
            r = find(getattr(st, 'body', []), parts)
            if r is not None:
                return r
    return None


def run_one(job):
    prop, rel, qual, kind, root = job
    tmp = tempfile.mkdtemp(prefix='vstat_shape_')
    try:
        selftest.make_scratch(root, tmp)
        path = os.path.join(tmp, rel)
        tree = ast.parse(open(path, encoding='utf-8').read())
        target = find(tree.body, qual.split('.'))
        if target is None:
            return (prop, rel, qual, kind, 'skip', [])
        if kind in ('flip', 'swap', 'swapneg'):
            tr = Flip() if kind == 'flip' else Swap() if kind == 'swap' else SwapNeg()
            tr.visit(target)
            if tr.n == 0:
                return (prop, rel, qual, kind, 'skip', [])
        elif kind == 'log':
            # a debug message as first statement (after the docstring): changes nothing a property speaks about
            if isinstance(target, ast.ClassDef):
                return (prop, rel, qual, kind, 'skip', [])
            pos = 1 if target.body and isinstance(target.body[0], ast.Expr) and isinstance(target.body[0].value, ast.Constant) and isinstance(target.body[0].value.value, str) else 0
            stmt = ast.parse("LOGGER.debug('entering')").body[0]
            target.body.insert(pos, stmt)
        elif kind == 'guard':
            # last `if c: body` (no else) of every loop body becomes `if not c: continue` + body
            n = 0
            for loop in [l for l in ast.walk(target) if isinstance(l, (ast.For, ast.While))]:
                last = loop.body[-1]
                if isinstance(last, ast.If) and not last.orelse and len(loop.body) >= 1:
                    test = last.test.operand if isinstance(last.test, ast.UnaryOp) and isinstance(last.test.op, ast.Not) else ast.UnaryOp(op=ast.Not(), operand=last.test)
                    loop.body[-1:] = [ast.If(test=test, body=[ast.Continue()], orelse=[])] + last.body
                    n += 1
            if n == 0:
                return (prop, rel, qual, kind, 'skip', [])
        elif kind == 'kwcall':
            if isinstance(target, ast.ClassDef) or keyword_calls(target, tree) == 0:
                return (prop, rel, qual, kind, 'skip', [])
        elif kind in ('hoist', 'lamdef', 'condform', 'splitcond', 'demorgan', 'comp2loop', 'earlyret', 'fstring'):
            if isinstance(target, ast.ClassDef):
                return (prop, rel, qual, kind, 'skip', [])
            done = {'hoist': hoist, 'lamdef': lambdas_to_defs, 'condform': conditional_forms, 'splitcond': split_conditions, 'demorgan': demorgan,
                    'comp2loop': comprehension_to_loop, 'earlyret': early_return, 'fstring': format_to_fstring}[kind](target)
            if done == 0:
                return (prop, rel, qual, kind, 'skip', [])
        ast.fix_missing_locations(tree)
        with open(path, 'w', encoding='utf-8') as handle:
            handle.write(ast.unparse(tree) + '\n')
        buf = []
        try:
            index = SourceIndex(tmp)
            check = Check(prop, index)
            rules.get(prop)(check)
            status = finish(check, out=buf.append)
        except AnalysisError as err:
            return (prop, rel, qual, kind, 'analysis-error', [str(err)[:200]])
        except Exception as err:  # pylint: disable=broad-except
            return (prop, rel, qual, kind, 'crash', ['{}: {}'.format(type(err).__name__, str(err)[:200])])
        if status != 0:
            return (prop, rel, qual, kind, 'FIRED', [b[:260] for b in buf if b.startswith(('FAILED-OBLIGATION', 'ANALYSIS-ERROR'))][:4])
        return (prop, rel, qual, kind, 'silent', [])
    finally:
        shutil.rmtree(tmp, ignore_errors=True)


def main():
    props = sys.argv[1:]
    root = '/repo'
    jobs = []
    for prop in props:
        index = SourceIndex(root)
        check = Check(prop, index)
        rules.get(prop)(check)
        for item in sorted(check.functions_analysed):
            rel, qual = item.split('::', 1)
            if rel.startswith('site-packages'):
                continue
            if index.mod(rel).functions.get(qual) is None:
                continue
            for kind in os.environ.get('FUZZ_KINDS', 'flip swap swapneg log guard hoist lamdef condform splitcond demorgan comp2loop earlyret fstring kwcall').split():
                jobs.append((prop, rel, qual, kind, root))
    with multiprocessing.Pool(min(int(os.environ.get('FUZZ_JOBS', '12')), max(1, len(jobs)))) as pool:
        results = pool.map(run_one, jobs)
    bad = [r for r in results if r[4] not in ('silent', 'skip')]
    for r in bad:
        print('{} {}::{} {} -> {}'.format(*r[:5]))
        for line in r[5]:
            print('    ' + line)
    print('variants={} silent={} skipped={} not-silent={}'.format(len(results), sum(r[4] == 'silent' for r in results), sum(r[4] == 'skip' for r in results), len(bad)))
    return 1 if bad else 0


if __name__ == '__main__':
    sys.exit(main())
