#!/bin/bash
# usage: tools/verify_seed.sh C13_a   -- verifies a seeded change delivered in /tmp/seed_out/<name>/
# (patch applies, demo fails with / passes without, suite still passes), stores it under /verif/seeded/<name>/
# and runs the property's check against it.  Everything happens in a scratch worktree outside /repo and /verif.
set -u
name=$1
prop=${name%%_*}
src=${SEED_SRC:-/tmp/seed_out}/$name
wt=/tmp/vw_$name
out=/verif/seeded/$name
[ -f $src/patch.diff ] || { echo "no patch for $name"; exit 3; }
git -C /repo worktree remove --force $wt >/dev/null 2>&1
git -C /repo worktree add -q --detach $wt HEAD || exit 3
cd $wt
res_apply=ok
git apply $src/patch.diff || res_apply=FAILED
demo_with=$(PYTHONPATH=$wt /venv/bin/python -W ignore $src/demo.py 2>&1 | tail -3; echo "exit=${PIPESTATUS[0]}")
suite=$(PYTHONPATH=$wt /venv/bin/python -m pytest -q -p no:cacheprovider --timeout=900 --continue-on-collection-errors -n 8 2>&1 | tail -1)
if echo "$suite" | grep -qE "[0-9]+ failed"; then
  # re-run once sequentially for flaky hypothesis deadlines under load
  failed=$(PYTHONPATH=$wt /venv/bin/python -m pytest -q -p no:cacheprovider --timeout=900 --continue-on-collection-errors -n 8 2>&1 | grep -E "^FAILED" | sed 's/^FAILED //; s/ - .*//')
  suite="$suite | rerun-failed: $(echo $failed)"
  if [ -n "$failed" ]; then
     rm -rf $wt/.hypothesis
     rer=$(PYTHONPATH=$wt /venv/bin/python -m pytest -q -p no:cacheprovider --timeout=900 $failed 2>&1 | tail -1)
     suite="$suite => $rer"
  else
     suite="$suite => second full run had no failures"
  fi
fi
chk=$(cd /verif && ./vcheck $prop --root $wt 2>&1 | grep -E "VIOLATION|FAILED-OBLIGATION|ANALYSIS-ERROR|SUMMARY" | head -8)
git checkout -q -- .
demo_without=$(PYTHONPATH=$wt /venv/bin/python -W ignore $src/demo.py 2>&1 | tail -2; echo "exit=${PIPESTATUS[0]}")
cd /verif
git -C /repo worktree remove --force $wt
echo "== $name apply=$res_apply"
echo "-- demo with change: $demo_with"
echo "-- demo without:     $demo_without"
echo "-- suite with change: $suite"
echo "-- vcheck $prop on the change:"; echo "$chk"
mkdir -p $out
cp $src/patch.diff $out/patch.diff; cp $src/demo.py $out/demo.py; [ -f $src/notes.md ] && cp $src/notes.md $out/notes.md
python3 - "$name" "$prop" "$res_apply" "$demo_with" "$demo_without" "$suite" "$chk" <<'EOF'
import json, sys
name, prop, ap, dw, dwo, suite, chk = sys.argv[1:8]
notes = ''
try:
    notes = open('/verif/seeded/%s/notes.md' % name).read()
except OSError:
    pass
meta = {'seed': name, 'property': prop, 'origin': 'independent sub-agent given only the property text and a scratch worktree',
        'needs_to_manifest': notes[:1500],
        'verified': {'patch_applies_to_repo_HEAD': ap, 'demo_with_change': dw, 'demo_without_change': dwo,
                     'suite_with_change': suite,
                     'commands': ['git apply patch.diff (scratch worktree of /repo HEAD)', 'PYTHONPATH=<wt> /venv/bin/python demo.py',
                                  'PYTHONPATH=<wt> /venv/bin/python -m pytest -q -p no:cacheprovider --timeout=900 --continue-on-collection-errors -n 8']},
        'check_result_when_applied_to_repo': chk,
        'detected': ('VIOLATION' in chk)}
json.dump(meta, open('/verif/seeded/%s/meta.json' % name, 'w'), indent=1)
print('detected' if meta['detected'] else 'MISSED')
EOF
