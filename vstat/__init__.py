"""vstat -- repository-specific static analysis of vermouth-martinize.

Pure standard library (ast, tokenize, string).  Nothing of /repo is imported or
executed: every verdict is computed from the source text found under the
analysed root at the time of the run.
"""
