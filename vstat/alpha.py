"""Alpha-normalisation of local variable names.

The rule sets name some locals of the analysed functions (`correspondence`,
`mol_to_out`, ...).  A consistent renaming of a local is behaviour-preserving
and must not change any verdict.  For every function of the package the file
roles.json (generated from the pinned tree by tools/mkroles.py) stores, per
local, a *structural fingerprint*: the shapes of the statements the local occurs
in, with every local name abstracted.  When the tree under analysis has a local
whose fingerprint matches a stored one under another name, the local is renamed
back (in the parsed AST only) before the rules run.  The renaming is applied
only when it is unambiguous and capture-free, so it is always a valid
alpha-conversion; when no match is found nothing is renamed.
"""
import ast
import json
import os
from collections import Counter

from .index import FUNC_TYPES

HERE = os.path.dirname(os.path.abspath(__file__))
ROLES = os.path.join(HERE, 'roles.json')


def function_locals(fn):
    params = {a.arg for a in fn.args.posonlyargs + fn.args.args + fn.args.kwonlyargs}
    if fn.args.vararg:
        params.add(fn.args.vararg.arg)
    if fn.args.kwarg:
        params.add(fn.args.kwarg.arg)
    names, declared, imported = set(), set(), set()
    for n in ast.walk(fn):
        if isinstance(n, (ast.Global, ast.Nonlocal)):
            declared |= set(n.names)
        elif isinstance(n, ast.Name) and isinstance(n.ctx, (ast.Store, ast.Del)):
            names.add(n.id)
        elif isinstance(n, FUNC_TYPES) and n is not fn:
            names.add(n.name)
        elif isinstance(n, (ast.Import, ast.ImportFrom)):
            for a in n.names:
                imported.add((a.asname or a.name).split('.')[0])
        elif isinstance(n, ast.ExceptHandler) and n.name:
            names.add(n.name)
    for n in ast.walk(fn):
        if isinstance(n, (ast.Lambda,) + FUNC_TYPES) and n is not fn:
            for a in n.args.posonlyargs + n.args.args + n.args.kwonlyargs:
                names.discard(a.arg)
    return names - params - declared - imported, params


def _contexts(fn):
    """Yield (context node, header-only?) for every statement-like context."""
    for node in ast.walk(fn):
        if isinstance(node, ast.stmt) and node is not fn:
            yield node


def _header(node):
    """The part of a statement that belongs to the statement itself."""
    if isinstance(node, ast.For):
        return [node.target, node.iter]
    if isinstance(node, (ast.While, ast.If)):
        return [node.test]
    if isinstance(node, ast.With):
        return [i for i in node.items]
    if isinstance(node, ast.Try):
        return []
    if isinstance(node, FUNC_TYPES):
        return []
    if isinstance(node, ast.ClassDef):
        return []
    return [node]


class _Abstract(ast.NodeTransformer):
    def __init__(self, local_names, focus):
        self.local_names = local_names
        self.focus = focus

    def visit_Name(self, n):  # noqa: N802
        if n.id == self.focus:
            return ast.copy_location(ast.Name(id='FOCUS_', ctx=ast.Load()), n)
        if n.id in self.local_names:
            return ast.copy_location(ast.Name(id='_', ctx=ast.Load()), n)
        return ast.copy_location(ast.Name(id=n.id, ctx=ast.Load()), n)


def fingerprints(fn):
    """{local name: sorted list of abstracted statement shapes it occurs in}"""
    local_names, _params = function_locals(fn)
    out = {name: Counter() for name in local_names}
    for st in _contexts(fn):
        parts = _header(st)
        if not parts:
            if isinstance(st, FUNC_TYPES) and st.name in out:
                out[st.name]['def FOCUS_'] += 1
            continue
        present = set()
        for p in parts:
            for n in ast.walk(p):
                if isinstance(n, ast.Name) and n.id in local_names:
                    present.add(n.id)
        if isinstance(st, ast.ExceptHandler):
            continue
        for name in present:
            pieces = []
            for p in parts:
                clone = ast.parse(ast.unparse(p), mode='exec') if isinstance(p, ast.stmt) else None
                if clone is not None:
                    node = clone.body[0]
                else:
                    try:
                        node = ast.parse(ast.unparse(p), mode='eval').body
                    except SyntaxError:
                        node = ast.parse('with ' + ast.unparse(p) + ': pass').body[0].items[0]
                node = _Abstract(local_names, name).visit(node)
                pieces.append(ast.unparse(node))
            kind = type(st).__name__
            out[name]['{}: {}'.format(kind, ' | '.join(pieces))] += 1
    return {k: sorted(v.elements()) for k, v in out.items()}


def similarity(a, b):
    ca, cb = Counter(a), Counter(b)
    inter = sum((ca & cb).values())
    union = sum((ca | cb).values())
    return inter / union if union else 1.0


class _Rename(ast.NodeTransformer):
    def __init__(self, mapping):
        self.mapping = mapping

    def visit_Name(self, n):  # noqa: N802
        if n.id in self.mapping:
            n.id = self.mapping[n.id]
        return n

    def visit_FunctionDef(self, n):  # noqa: N802
        if n.name in self.mapping:
            n.name = self.mapping[n.name]
        return self.generic_visit(n)

    def visit_ExceptHandler(self, n):  # noqa: N802
        if n.name in self.mapping:
            n.name = self.mapping[n.name]
        return self.generic_visit(n)


_STORE = None


def stored():
    global _STORE
    if _STORE is None:
        try:
            with open(ROLES) as handle:
                _STORE = json.load(handle)
        except OSError:
            _STORE = {}
    return _STORE


def normalise_function(rel, qual, fn):
    """Rename locals of fn back to their stored names where unambiguous.
    Returns the mapping applied."""
    ref = stored().get(rel, {}).get(qual)
    if not ref:
        return {}
    local_names, params = function_locals(fn)
    if all(name in local_names for name in ref):
        return {}          # every stored local is present under its own name
    cur = fingerprints(fn)
    # every name used in the function (for capture checks)
    used = {n.id for n in ast.walk(fn) if isinstance(n, ast.Name)} | params
    same = {name for name in ref if name in cur}
    missing = [name for name in ref if name not in cur and name not in used]
    spare = [name for name in cur if name not in ref]
    mapping = {}
    taken = set()
    # exact fingerprint matches first, then clearly-best fuzzy matches
    for threshold in (1.0, 0.5):
        for want in missing:
            if want in mapping.values():
                continue
            scored = sorted(((similarity(ref[want], cur[c]), c) for c in spare if c not in taken), reverse=True)
            if not scored:
                continue
            best = scored[0]
            second = scored[1][0] if len(scored) > 1 else 0.0
            if best[0] >= threshold and (best[0] - second >= 0.2 or (threshold == 1.0 and best[0] == 1.0 and second < 1.0)):
                mapping[best[1]] = want
                taken.add(best[1])
    if mapping:
        _Rename(mapping).visit(fn)
    return mapping


def normalise_module(module):
    applied = {}
    ref = stored().get(module.rel)
    if not ref:
        return applied
    # outermost functions first is irrelevant: mappings are per function scope; nested defs are
    # walked as part of their parent, so only normalise functions that are not nested in another function
    for qual, fn in module.functions.items():
        parent = module.parent.get(id(fn))
        nested = False
        while parent is not None:
            if isinstance(parent, FUNC_TYPES):
                nested = True
                break
            parent = module.parent.get(id(parent))
        if nested:
            continue
        m = normalise_function(module.rel, qual, fn)
        if m:
            applied[qual] = m
    return applied
