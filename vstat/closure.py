"""Call closure of the functions a property's rules have read: callees resolved by name through the module's own definitions, its imports and -- for
method calls -- the package methods of that name (a name implemented by more than three classes is dynamic dispatch and only followed on `self`)."""
import ast

from .index import walk_local

# method names that exist in the package but are overwhelmingly calls on builtin containers / networkx objects
AMBIENT = {'get', 'items', 'keys', 'values', 'append', 'add', 'update', 'extend', 'pop', 'copy', 'format', 'join', 'split', 'strip', 'write', 'read', 'close',
           'index', 'count', 'sort', 'remove', 'clear', 'insert', 'setdefault', 'startswith', 'endswith', 'lower', 'upper', 'nodes', 'edges'}


def function_table(index):
    table = {}
    for m, q, f in index.all_functions():
        table.setdefault(q.split('.')[-1], []).append((m, q, f))
    return table


def callees(module, fn, table):
    out = set()
    defaults = [d for d in list(fn.args.defaults) + list(fn.args.kw_defaults) if d is not None] if hasattr(fn, 'args') else []
    for c in list(walk_local(fn)) + [ast.Tuple(elts=defaults, ctx=ast.Load())]:
        names = []
        if isinstance(c, ast.Call):
            names.append((c.func, True))
            # a function handed on as an argument (`key=_interaction_sorting_key`, `functools.partial(selector, ..)`) is called by the callee
            names.extend((a, False) for a in list(c.args) + [k.value for k in c.keywords] if isinstance(a, (ast.Name, ast.Attribute)))
            # .. also inside a tuple / dict literal argument (`{"backbone": (selectors.select_backbone, name)}`)
        if isinstance(c, (ast.Tuple, ast.List, ast.Dict)):
            elts = c.elts if not isinstance(c, ast.Dict) else c.values
            names.extend((a, False) for a in elts if isinstance(a, (ast.Name, ast.Attribute)))
        if isinstance(c, ast.Assign) and isinstance(c.value, (ast.Name, ast.Attribute)):
            names.append((c.value, False))
        for func, is_call in names:
            if isinstance(func, ast.Name):
                name = func.id
                if name in module.functions:
                    out.add((module.rel, name))
                elif name in module.imports:
                    _modname, orig = module.imports[name]
                    for m2, q2, _f in table.get(orig or name, []):
                        if '.' not in q2:
                            out.add((m2.rel, q2))
                elif is_call and name + '.__init__' in module.functions:
                    out.add((module.rel, name + '.__init__'))
                elif '*' in module.imports:
                    # `from ..graph_utils import *`: a plain name the module does not define is a module-level function of the star-imported module
                    star = module.imports['*'][0].lstrip('.').replace('.', '/')
                    for m2, q2, _f in table.get(name, []):
                        if '.' not in q2 and m2.rel.endswith('/' + star + '.py'):
                            out.add((m2.rel, q2))
            elif isinstance(func, ast.Attribute) and not is_call:
                # `selectors.select_backbone` handed on: a module-level function of an imported package module
                if isinstance(func.value, ast.Name) and func.value.id in module.imports:
                    for m2, q2, _f in table.get(func.attr, []):
                        if '.' not in q2 and m2.rel.endswith('/' + func.value.id + '.py'):
                            out.add((m2.rel, q2))
            elif isinstance(func, ast.Attribute) and is_call:
                name = func.attr
                if name in AMBIENT:
                    continue
                cands = table.get(name, [])
                if len(cands) > 3:
                    cands = [c_ for c_ in cands if c_[0] is module and isinstance(func.value, ast.Name) and func.value.id == 'self']
                for m2, q2, _f in cands:
                    out.add((m2.rel, q2))
    return out


def closure(index, read, depth=5):
    """{(rel, qualname)} reachable from the functions in `read` (and the constructors of the classes in their modules, whose defaults carry selectors) within `depth` calls."""
    table = function_table(index)
    byname = {(m.rel, q): (m, f) for m, q, f in index.all_functions()}
    rels = {rel for rel, _q in read if not rel.startswith('bin/')}
    roots = set(read) | {k for k in byname if k[0] in rels and k[1].endswith('.__init__')}
    frontier, seen = set(roots), set(roots)
    for _ in range(depth):
        nxt = set()
        for key in frontier:
            # the command line glue calls the whole program: what a property needs from it is the order and the gates its own rules read, not every callee
            if key in byname and not key[0].startswith('bin/'):
                m, f = byname[key]
                nxt |= callees(m, f, table) - seen
        seen |= nxt
        frontier = nxt
    return seen
