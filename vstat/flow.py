"""E3 -- structured flow model: reaching conditions as boolean formulas over
canonical atoms, truth-table reasoning, and bounded path enumeration.

The repository is structured code only (if/for/while/try/with, no match, no
async), so conditions are computed syntax-directedly, which is exact for such
code.  No solver: formulas are compared by enumerating truth assignments.
"""
import ast
import itertools

from .index import AnalysisError, u, FUNC_TYPES, base_name

# --------------------------------------------------------------------------
# formulas: True | False | ('atom', key) | ('not', f) | ('and', [..]) | ('or', [..])


def AND(*fs):
    out = []
    for f in fs:
        if f is True:
            continue
        if f is False:
            return False
        if isinstance(f, tuple) and f[0] == 'and':
            out.extend(f[1])
        else:
            out.append(f)
    out = _dedupe(out)
    if not out:
        return True
    return out[0] if len(out) == 1 else ('and', out)


def OR(*fs):
    out = []
    for f in fs:
        if f is False:
            continue
        if f is True:
            return True
        if isinstance(f, tuple) and f[0] == 'or':
            out.extend(f[1])
        else:
            out.append(f)
    out = _dedupe(out)
    if not out:
        return False
    return out[0] if len(out) == 1 else ('or', out)


def _dedupe(items):
    seen = set()
    out = []
    for f in items:
        r = repr(f)
        if r not in seen:
            seen.add(r)
            out.append(f)
    return out


def NOT(f):
    if f is True:
        return False
    if f is False:
        return True
    if isinstance(f, tuple) and f[0] == 'not':
        return f[1]
    return ('not', f)


def atoms_of(f, acc=None):
    acc = set() if acc is None else acc
    if f is True or f is False:
        return acc
    if f[0] == 'atom':
        acc.add(f[1])
    elif f[0] == 'not':
        atoms_of(f[1], acc)
    else:
        for x in f[1]:
            atoms_of(x, acc)
    return acc


def ev(f, a):
    if f is True or f is False:
        return f
    if f[0] == 'atom':
        return a[f[1]]
    if f[0] == 'not':
        return not ev(f[1], a)
    if f[0] == 'and':
        return all(ev(x, a) for x in f[1])
    return any(ev(x, a) for x in f[1])


def rename(f, mapping):
    """Replace atom keys through mapping (key -> new key | True | False | formula)."""
    if f is True or f is False:
        return f
    if f[0] == 'atom':
        if f[1] in mapping:
            m = mapping[f[1]]
            if m is True or m is False or isinstance(m, tuple) and m and m[0] in ('atom', 'not', 'and', 'or'):
                return m
            return ('atom', m)
        return f
    if f[0] == 'not':
        return NOT(rename(f[1], mapping))
    parts = [rename(x, mapping) for x in f[1]]
    return AND(*parts) if f[0] == 'and' else OR(*parts)


MAX_ATOMS = 18


def assignments(keys):
    keys = sorted(keys, key=repr)
    if len(keys) > MAX_ATOMS:
        raise AnalysisError('formula with {} atoms exceeds the truth-table bound {}'.format(len(keys), MAX_ATOMS))
    for values in itertools.product((False, True), repeat=len(keys)):
        yield dict(zip(keys, values))


def equivalent(f, g, given=True):
    """(True, None, nrows) or (False, counterexample assignment, nrows); rows
    violating `given` are skipped."""
    keys = atoms_of(f) | atoms_of(g) | atoms_of(given)
    rows = 0
    for a in assignments(keys):
        if not ev(given, a):
            continue
        rows += 1
        if ev(f, a) != ev(g, a):
            return False, a, rows
    return True, None, rows


def valid(f, given=True):
    """f holds under every assignment (satisfying `given`)."""
    if f is True:
        return True
    if f is False:
        return False
    return equivalent(f, True, given)[0]


def _conjuncts(f):
    if isinstance(f, tuple) and f[0] == 'and':
        return f[1]
    return [f]


def implies(f, g, given=True):
    # fast path: g is (a conjunction of) conjunct(s) of f
    if given is True:
        have = {repr(c) for c in _conjuncts(f)}
        if all(repr(c) in have for c in _conjuncts(g)):
            return True, None, 0
    keys = atoms_of(f) | atoms_of(g) | atoms_of(given)
    rows = 0
    for a in assignments(keys):
        if not ev(given, a):
            continue
        rows += 1
        if ev(f, a) and not ev(g, a):
            return False, a, rows
    return True, None, rows


def depends_on(f, key, given=True):
    """Does the truth of f depend on atom `key` for some assignment?"""
    keys = atoms_of(f) | atoms_of(given)
    if key not in keys:
        return False
    others = keys - {key}
    for a in assignments(others):
        a0 = dict(a)
        a0[key] = False
        a1 = dict(a)
        a1[key] = True
        if ev(given, a0) and ev(given, a1) and ev(f, a0) != ev(f, a1):
            return True
    return False


def parse_formula(text):
    """'not NE and (H1 or H2)' -> formula over atoms named by identifiers."""
    def conv(node):
        if isinstance(node, ast.BoolOp):
            parts = [conv(v) for v in node.values]
            return AND(*parts) if isinstance(node.op, ast.And) else OR(*parts)
        if isinstance(node, ast.UnaryOp) and isinstance(node.op, ast.Not):
            return NOT(conv(node.operand))
        if isinstance(node, ast.Name):
            return ('atom', node.id)
        if isinstance(node, ast.Constant) and isinstance(node.value, bool):
            return node.value
        raise ValueError(ast.dump(node))
    return conv(ast.parse(text, mode='eval').body)


def show(f):
    if f is True:
        return 'True'
    if f is False:
        return 'False'
    if f[0] == 'atom':
        k = f[1]
        return k if isinstance(k, str) else '<' + ' '.join(str(x) for x in k) + '>'
    if f[0] == 'not':
        return 'not ' + show(f[1])
    sep = ' and ' if f[0] == 'and' else ' or '
    return '(' + sep.join(show(x) for x in f[1]) + ')'


# --------------------------------------------------------------------------
# substitution environment


MUTATOR_METHODS = {'append', 'extend', 'add', 'update', 'insert', 'setdefault', 'pop', 'remove', 'discard',
                   'clear', 'sort', 'reverse', 'popitem', 'appendleft', 'popleft', 'difference_update',
                   'intersection_update', 'symmetric_difference_update'}


def mutated_names(fn):
    """Names that are the base of a store/augmented store/mutator call: their
    defining expression is not a stable description of their value."""
    out = set()
    for node in ast.walk(fn):
        if isinstance(node, (ast.Subscript, ast.Attribute)) and isinstance(node.ctx, (ast.Store, ast.Del)):
            b = base_name(node)
            if b:
                out.add(b)
        elif isinstance(node, ast.AugAssign):
            b = base_name(node.target)
            if b:
                out.add(b)
        elif isinstance(node, ast.Call) and isinstance(node.func, ast.Attribute) and node.func.attr in MUTATOR_METHODS:
            b = base_name(node.func.value)
            if b:
                out.add(b)
    return out


CONTAINER_CALLS = {'dict', 'list', 'set', 'defaultdict', 'OrderedDict', 'deque', 'Counter', 'collections.defaultdict',
                   'collections.OrderedDict', 'collections.deque', 'collections.Counter', 'bytearray'}


def is_container_constructor(value):
    """A fresh mutable container: an accumulator, whose defining expression says
    nothing about its later content (it may be filled by callees)."""
    if isinstance(value, (ast.List, ast.Dict, ast.Set)) and not (getattr(value, 'elts', None) or getattr(value, 'keys', None)):
        return True
    if isinstance(value, ast.Call):
        from .index import call_name
        if call_name(value) in CONTAINER_CALLS and (not value.args or call_name(value) in ('defaultdict', 'collections.defaultdict')):
            return True
    return False


def assigned_names(stmts):
    out = set()
    for st in stmts:
        for node in ast.walk(st):
            if isinstance(node, ast.Name) and isinstance(node.ctx, (ast.Store, ast.Del)):
                out.add(node.id)
    return out


def _is_boolean_expr(v):
    if isinstance(v, ast.Compare):
        return True
    if isinstance(v, ast.Constant):
        return isinstance(v.value, bool)
    if isinstance(v, ast.UnaryOp) and isinstance(v.op, ast.Not):
        return True
    if isinstance(v, ast.BoolOp):
        return all(_is_boolean_expr(x) for x in v.values)
    if isinstance(v, ast.Call) and isinstance(v.func, ast.Name) and v.func.id in ('bool', 'isinstance', 'any', 'all', 'callable', 'hasattr'):
        return True
    return False


def names_in(expr):
    return {n.id for n in ast.walk(expr) if isinstance(n, ast.Name)}


def clone(node):
    return ast.parse(ast.unparse(node), mode='eval').body


def subst(expr, env):
    """Replace loaded names by their (already substituted) defining expression."""
    if not env:
        return clone(expr)

    class T(ast.NodeTransformer):
        def visit_Name(self, n):  # noqa: N802
            if isinstance(n.ctx, ast.Load) and n.id in env:
                return clone(env[n.id])
            return n

        def visit_Lambda(self, n):  # noqa: N802  (parameters shadow)
            return n

        def _comp(self, n):
            bound = set()
            for g in n.generators:
                for t in ast.walk(g.target):
                    if isinstance(t, ast.Name):
                        bound.add(t.id)
            inner = {k: v for k, v in env.items() if k not in bound}
            return subst_keep(n, inner)
        visit_ListComp = visit_SetComp = visit_GeneratorExp = visit_DictComp = _comp
    return T().visit(clone(expr))


def subst_keep(comp, env):
    class T(ast.NodeTransformer):
        def visit_Name(self, n):  # noqa: N802
            if isinstance(n.ctx, ast.Load) and n.id in env:
                return clone(env[n.id])
            return n
    new = clone(comp)
    for fld, val in ast.iter_fields(new):
        if isinstance(val, list):
            setattr(new, fld, [T().visit(v) if isinstance(v, ast.AST) else v for v in val])
        elif isinstance(val, ast.AST):
            setattr(new, fld, T().visit(val))
    return new


# --------------------------------------------------------------------------
# tests -> formulas

SWAP = {ast.Lt: ast.Gt, ast.LtE: ast.GtE}
NEGATED = {ast.NotIn: ast.In, ast.NotEq: ast.Eq, ast.IsNot: ast.Is}
SYMMETRIC = (ast.Eq, ast.Is)


def atom_of_compare(left, op, right):
    neg = False
    if type(op) in NEGATED:
        op = NEGATED[type(op)]()
        neg = True
    if type(op) in SWAP:
        left, right, op = right, left, SWAP[type(op)]()
    lt, rt = u(left), u(right)
    if isinstance(op, SYMMETRIC) and rt < lt:
        lt, rt = rt, lt
    a = ('atom', (type(op).__name__, lt, rt))
    return NOT(a) if neg else a


def to_formula(test, env=None):
    test = subst(test, env or {})
    return _conv(test)


def _conv(test):
    if isinstance(test, ast.BoolOp):
        parts = [_conv(v) for v in test.values]
        return AND(*parts) if isinstance(test.op, ast.And) else OR(*parts)
    if isinstance(test, ast.UnaryOp) and isinstance(test.op, ast.Not):
        return NOT(_conv(test.operand))
    if isinstance(test, ast.Compare):
        parts = []
        left = test.left
        for op, right in zip(test.ops, test.comparators):
            parts.append(atom_of_compare(left, op, right))
            left = right
        return AND(*parts)
    if isinstance(test, ast.Constant) and isinstance(test.value, bool):
        return test.value
    if isinstance(test, ast.Call) and isinstance(test.func, ast.Name) and test.func.id == 'bool' and len(test.args) == 1:
        return _conv(test.args[0])
    return ('atom', ('truth', u(test)))


# --------------------------------------------------------------------------
# reaching conditions

NORETURN_CALLS = {'sys.exit', 'exit', 'parser.exit', 'parser.error', 'os._exit'}


def is_terminator(st):
    if isinstance(st, (ast.Continue, ast.Return, ast.Raise, ast.Break)):
        return True
    if isinstance(st, ast.Expr) and isinstance(st.value, ast.Call):
        from .index import call_name
        return call_name(st.value) in NORETURN_CALLS
    return False


class Reach:
    """Walks a statement list, calling visit(stmt, cond, env) for every
    statement (compound ones included, before their children) with the
    condition under which control reaches it, relative to the entry of the
    walked list.  Loop bodies are entered under the condition of the loop
    statement (the 'iterates at least once' fact is not an atom)."""

    def __init__(self, fn, visit, use_env=True, merge_values=False):
        self.visit = visit
        self.merge_values = merge_values
        self.mutated = mutated_names(fn) if fn is not None else set()
        self.use_env = use_env
        # names that may already hold a value at the current point of the walk
        self.defined = set()
        if fn is not None and hasattr(fn, 'args'):
            a = fn.args
            self.defined |= {x.arg for x in a.posonlyargs + a.args + a.kwonlyargs}
            if a.vararg:
                self.defined.add(a.vararg.arg)
            if a.kwarg:
                self.defined.add(a.kwarg.arg)

    def bind(self, env, name, value):
        val = None
        if value is not None and self.use_env and name not in self.mutated and not is_container_constructor(value):
            val = subst(value, env)
        # drop bindings that mention the rebound name
        for k in [k for k, v in env.items() if name in names_in(v)]:
            del env[k]
        env.pop(name, None)
        if val is not None and name not in names_in(val):
            env[name] = val

    def unbind_all(self, env, names):
        for n in names:
            self.bind(env, n, None)

    def walk(self, stmts, cond, env):
        for st in stmts:
            if cond is False:
                # unreachable remainder is still visited (with False)
                pass
            self.visit(st, cond, env)
            if not isinstance(st, (ast.If, ast.For, ast.While, ast.Try, ast.With)):
                self.defined |= assigned_names([st])
            # a store into an attribute / item invalidates bindings that read it
            if isinstance(st, (ast.Assign, ast.AugAssign, ast.Delete)):
                tgts = st.targets if isinstance(st, (ast.Assign, ast.Delete)) else [st.target]
                for t in tgts:
                    for sub in ast.walk(t):
                        if isinstance(sub, (ast.Attribute, ast.Subscript)) and isinstance(sub.ctx, (ast.Store, ast.Del)):
                            text = u(sub) if isinstance(sub, ast.Attribute) else u(sub.value)
                            for k in [k for k, v in env.items() if text in u(v)]:
                                del env[k]
            if isinstance(st, ast.Assign):
                if len(st.targets) == 1 and isinstance(st.targets[0], ast.Name):
                    self.bind(env, st.targets[0].id, st.value)
                elif (len(st.targets) == 1 and isinstance(st.targets[0], (ast.Tuple, ast.List))
                      and isinstance(st.value, (ast.Tuple, ast.List))
                      and len(st.targets[0].elts) == len(st.value.elts)
                      and all(isinstance(t, ast.Name) for t in st.targets[0].elts)):
                    vals = [subst(v, env) for v in st.value.elts]
                    for t, v in zip(st.targets[0].elts, vals):
                        self.bind(env, t.id, None)
                    for t, v in zip(st.targets[0].elts, vals):
                        if t.id not in self.mutated and self.use_env and t.id not in names_in(v):
                            env[t.id] = v
                else:
                    self.unbind_all(env, assigned_names([st]))
            elif isinstance(st, (ast.AugAssign, ast.AnnAssign, ast.Delete, ast.Import, ast.ImportFrom)):
                self.unbind_all(env, assigned_names([st]))
            elif isinstance(st, ast.If):
                t = to_formula(st.test, env)
                pre_if_env = dict(env)
                e1, e2 = dict(env), dict(env)
                before = set(self.defined)
                c1 = self.walk(st.body, AND(cond, t), e1)
                c2 = self.walk(st.orelse, AND(cond, NOT(t)), e2)
                # join: keep identical bindings of the arms that fall through;
                # a name first defined in one arm only keeps that definition
                # (any later use can only see this one).
                live = [(e, set(assigned_names(b))) for e, c, b in ((e1, c1, st.body), (e2, c2, st.orelse)) if c is not False]
                env.clear()
                for e, _own in live:
                    for k, v in e.items():
                        ok = True
                        for e2_, own2 in live:
                            if e2_ is e:
                                continue
                            if k in e2_ and u(e2_[k]) == u(v):
                                continue
                            if k not in e2_ and k not in own2 and k not in before:
                                continue
                            ok = False
                        if ok:
                            env[k] = v
                # flag idiom: a boolean-valued name bound differently in the two (live) arms becomes
                # `(test and v1) or (not test and v2)` -- `take = A; if c: take = B` reads as (c and B) or (not c and A)
                if len(live) == 2 and c1 is not False and c2 is not False and self.use_env:
                    test_ast = subst(st.test, pre_if_env)
                    for k in set(e1) & set(e2):
                        if k in env or k in self.mutated:
                            continue
                        v1, v2 = e1[k], e2[k]
                        if _is_boolean_expr(v1) and _is_boolean_expr(v2) and k not in names_in(test_ast):
                            merged = ast.BoolOp(op=ast.Or(), values=[
                                ast.BoolOp(op=ast.And(), values=[clone(test_ast), clone(v1)]),
                                ast.BoolOp(op=ast.And(), values=[ast.UnaryOp(op=ast.Not(), operand=clone(test_ast)), clone(v2)])])
                            env[k] = ast.fix_missing_locations(merged)
                        elif self.merge_values and k not in names_in(test_ast):
                            # any value: the name holds `v1 if test else v2` after the join (see value_table)
                            env[k] = ast.fix_missing_locations(ast.IfExp(test=clone(test_ast), body=clone(v1), orelse=clone(v2)))
                if repr(c1) == repr(AND(cond, t)) and repr(c2) == repr(AND(cond, NOT(t))):
                    pass  # both arms fall through: the condition is unchanged
                else:
                    cond = OR(c1, c2)
            elif isinstance(st, (ast.For, ast.While)):
                carried = assigned_names(st.body) | assigned_names(st.orelse)
                self.defined |= carried
                if isinstance(st, ast.For):
                    self.defined |= {n.id for n in ast.walk(st.target) if isinstance(n, ast.Name)}
                    carried |= assigned_names([ast.Expr(value=st.target)]) | {n.id for n in ast.walk(st.target) if isinstance(n, ast.Name)}
                self.unbind_all(env, carried)
                body_env = dict(env)
                body_cond = cond
                if isinstance(st, ast.While):
                    body_cond = AND(cond, to_formula(st.test, body_env))
                self.walk(st.body, body_cond, body_env)
                self.walk(st.orelse, cond, dict(env))
                self.unbind_all(env, carried)
            elif isinstance(st, ast.Try):
                carried = assigned_names(st.body)
                body_env = dict(env)
                c_body = self.walk(st.body, cond, body_env)
                c_out = []
                for h in st.handlers:
                    h_env = dict(env)
                    self.unbind_all(h_env, carried)
                    c_out.append(self.walk(h.body, cond, h_env))
                c_else = self.walk(st.orelse, c_body, body_env) if st.orelse else c_body
                out = OR(c_else, *c_out)
                # after the try: only bindings from before that were not rebound
                if all(c is False for c in c_out):
                    # every handler leaves (raise/return/exit): after the try only the
                    # body's bindings can be live
                    env.clear()
                    env.update(body_env)
                else:
                    rebound = carried | assigned_names(st.orelse)
                    for h in st.handlers:
                        rebound |= assigned_names(h.body)
                    self.unbind_all(env, rebound)
                if st.finalbody:
                    out = self.walk(st.finalbody, out, env)
                cond = out
            elif isinstance(st, ast.With):
                for item in st.items:
                    if item.optional_vars is not None:
                        self.unbind_all(env, {n.id for n in ast.walk(item.optional_vars) if isinstance(n, ast.Name)})
                cond = self.walk(st.body, cond, env)
            elif isinstance(st, FUNC_TYPES + (ast.ClassDef,)):
                self.unbind_all(env, {st.name})
            elif isinstance(st, (ast.Expr, ast.Pass, ast.Assert, ast.Global, ast.Nonlocal,
                                 ast.Return, ast.Raise, ast.Continue, ast.Break)):
                pass
            else:
                raise AnalysisError('statement kind {} not covered by the flow model'.format(type(st).__name__))
            if is_terminator(st):
                return False
        return cond


def reaching(fn, stmts, is_sink, env=None, cond=True):
    """List of (stmt, condition, env snapshot) for every statement satisfying
    is_sink, relative to the entry of stmts."""
    found = []

    def visit(st, c, e):
        if is_sink(st):
            found.append((st, c, dict(e)))
    Reach(fn, visit).walk(stmts, cond, dict(env or {}))
    return found


def value_table(fn, name, is_sink, stmts=None, env=None):
    """What the local `name` holds when control reaches the (single) statement satisfying is_sink, as a decision table
    [(condition formula, value text)], whichever way the choice is spelled: if/elif/else assigning in every arm, a default
    followed by overriding ifs, a conditional expression, or a chain of those.  None when the sink is not found exactly once
    or the name has no tracked value there."""
    found = []

    def visit(st, c, e):
        if is_sink(st):
            found.append((st, c, dict(e)))
    Reach(fn, visit, merge_values=True).walk(fn.body if stmts is None else stmts, True, dict(env or {}))
    if len(found) != 1 or name not in found[0][2]:
        return None
    rows = []

    def flatten(expr, cond):
        if isinstance(expr, ast.IfExp):
            t = to_formula(expr.test)
            flatten(expr.body, AND(cond, t))
            flatten(expr.orelse, AND(cond, NOT(t)))
        else:
            rows.append((cond, ast.unparse(expr)))
    flatten(found[0][2][name], True)
    merged = {}
    for cond, text in rows:
        merged[text] = OR(merged[text], cond) if text in merged else cond
    return sorted(merged.items(), key=lambda kv: kv[0]) and [(c, t) for t, c in merged.items()]


def fallthrough(fn, stmts, env=None):
    return Reach(fn, lambda *a: None).walk(stmts, True, dict(env or {}))


# --------------------------------------------------------------------------
# bounded path enumeration through a statement list (loops: body 0 or 1 times)

class PathLimit(Exception):
    pass


def paths(stmts, limit=256):
    """Yield (events, exit_kind): events is the list of simple statements and
    ('test', expr, bool) decisions along one acyclic path through stmts;
    exit_kind in fall/return/raise/continue/break."""
    out = []

    def go(todo, events):
        # todo: list of statements still to execute
        if len(out) > limit:
            raise PathLimit()
        if not todo:
            out.append((events, 'fall'))
            return
        st, rest = todo[0], todo[1:]
        if isinstance(st, ast.If):
            go(list(st.body) + rest, events + [('test', st.test, True)])
            go(list(st.orelse) + rest, events + [('test', st.test, False)])
        elif isinstance(st, (ast.For, ast.While)):
            # zero iterations, or one iteration (continue/break end the body)
            go(list(st.orelse) + rest, events + [('loop', st, 0)])
            sub = []
            for ev_, kind in paths(st.body, limit):
                if kind in ('fall', 'continue', 'break'):
                    sub.append(ev_)
                else:
                    out.append((events + [('loop', st, 1)] + ev_, kind))
            for ev_ in sub:
                go(rest, events + [('loop', st, 1)] + ev_)
        elif isinstance(st, ast.Try):
            go(list(st.body) + list(st.orelse) + list(st.finalbody) + rest, events)
            for h in st.handlers:
                go(list(h.body) + list(st.finalbody) + rest, events + [('except', h, True)])
        elif isinstance(st, ast.With):
            go(list(st.body) + rest, events + [st])
        elif isinstance(st, ast.Return):
            out.append((events + [st], 'return'))
        elif isinstance(st, ast.Raise):
            out.append((events + [st], 'raise'))
        elif isinstance(st, ast.Continue):
            out.append((events + [st], 'continue'))
        elif isinstance(st, ast.Break):
            out.append((events + [st], 'break'))
        else:
            if is_terminator(st):
                out.append((events + [st], 'raise'))
            else:
                go(rest, events + [st])
    go(list(stmts), [])
    return out
