"""E7 -- format-layout calculator for str.format strings (with the trailing
't' truncation flag of vermouth's TruncFormatter)."""
import re
import string

SPEC = re.compile(r'^(?:(?P<fill>[\s\S])?(?P<align>[<>=\^]))?(?P<sign>[\+\- ])?(?P<alt>#)?(?P<zero>0)?'
                  r'(?P<width>\d+)?(?P<group>[,_])?(?:\.(?P<prec>\d+))?(?P<type>[sbcdoxXneEfFgGn%])?(?P<trunc>t)?$')


class Field:
    def __init__(self, index, name, spec, start):
        self.index = index
        self.name = name
        self.spec = spec
        m = SPEC.match(spec or '')
        self.valid = bool(m)
        self.width = int(m.group('width')) if m and m.group('width') else None
        self.align = m.group('align') if m else None
        self.type = m.group('type') if m else None
        self.precision = int(m.group('prec')) if m and m.group('prec') else None
        self.trunc = bool(m and m.group('trunc'))
        self.nested = '{' in (spec or '')
        self.start = start
        self.end = None if (self.width is None or start is None) else start + self.width

    def as_dict(self):
        return {'i': self.index, 'spec': self.spec, 'start': self.start, 'end': self.end, 'width': self.width,
                'type': self.type, 'trunc': self.trunc}


def layout(fmt):
    """(fields, literals, total_width).  Column positions are known as long as
    every preceding field has an explicit width."""
    col = 0
    fields, literals = [], []
    auto = 0
    for lit, name, spec, conv in string.Formatter().parse(fmt):
        if lit:
            literals.append((lit, col, None if col is None else col + len(lit)))
            if col is not None:
                col += len(lit)
        if name is None:
            continue
        if name == '':
            name = str(auto)
            auto += 1
        fld = Field(len(fields), name, spec, col)
        fields.append(fld)
        col = fld.end
    return fields, literals, col
