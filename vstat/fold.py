"""E6 -- constant folder: evaluates literal tables and the few pure operations
the repository applies to them, without executing repository code."""
import ast
import operator

from .index import u


class NotConstant(Exception):
    pass


BINOPS = {ast.Add: operator.add, ast.Sub: operator.sub, ast.Mult: operator.mul, ast.Div: operator.truediv,
          ast.Pow: operator.pow, ast.Mod: operator.mod, ast.FloorDiv: operator.floordiv}
STR_METHODS = {'split', 'format', 'casefold', 'lower', 'upper', 'strip', 'join'}


def fold(node, env=None, module=None, depth=0):
    """Python value of a constant expression.  `env` maps names to AST nodes or
    values; `module` supplies module-level constants."""
    env = env or {}
    if depth > 20:
        raise NotConstant('too deep')
    if isinstance(node, ast.Constant):
        return node.value
    if isinstance(node, (ast.Tuple, ast.List, ast.Set)):
        vals = []
        for e in node.elts:
            if isinstance(e, ast.Starred):
                vals.extend(fold(e.value, env, module, depth + 1))
            else:
                vals.append(fold(e, env, module, depth + 1))
        return tuple(vals) if isinstance(node, ast.Tuple) else (set(vals) if isinstance(node, ast.Set) else vals)
    if isinstance(node, ast.Dict):
        out = {}
        for k, v in zip(node.keys, node.values):
            if k is None:
                out.update(fold(v, env, module, depth + 1))
            else:
                out[fold(k, env, module, depth + 1)] = fold(v, env, module, depth + 1)
        return out
    if isinstance(node, ast.Name):
        if node.id in env:
            val = env[node.id]
            return fold(val, env, module, depth + 1) if isinstance(val, ast.AST) else val
        if module is not None and node.id in module.constants:
            return fold(module.constants[node.id], {}, module, depth + 1)
        if node.id in ('True', 'False', 'None'):
            return {'True': True, 'False': False, 'None': None}[node.id]
        raise NotConstant('name ' + node.id)
    if isinstance(node, ast.UnaryOp) and isinstance(node.op, (ast.USub, ast.UAdd, ast.Not)):
        val = fold(node.operand, env, module, depth + 1)
        return -val if isinstance(node.op, ast.USub) else (+val if isinstance(node.op, ast.UAdd) else (not val))
    if isinstance(node, ast.BinOp) and type(node.op) in BINOPS:
        return BINOPS[type(node.op)](fold(node.left, env, module, depth + 1), fold(node.right, env, module, depth + 1))
    if isinstance(node, ast.Call) and isinstance(node.func, ast.Attribute) and node.func.attr in STR_METHODS:
        recv = fold(node.func.value, env, module, depth + 1)
        if isinstance(recv, str):
            args = [fold(a, env, module, depth + 1) for a in node.args]
            kwargs = {k.arg: fold(k.value, env, module, depth + 1) for k in node.keywords}
            return getattr(recv, node.func.attr)(*args, **kwargs)
    if isinstance(node, ast.Call) and isinstance(node.func, ast.Name) and node.func.id in ('tuple', 'list', 'set', 'frozenset', 'dict', 'len', 'sorted', 'str', 'int', 'float'):
        args = [fold(a, env, module, depth + 1) for a in node.args]
        return {'tuple': tuple, 'list': list, 'set': set, 'frozenset': frozenset, 'dict': dict, 'len': len,
                'sorted': sorted, 'str': str, 'int': int, 'float': float}[node.func.id](*args)
    if isinstance(node, ast.Attribute):
        name = u(node)
        table = {'logging.WARNING': 30, 'logging.ERROR': 40, 'logging.INFO': 20, 'logging.DEBUG': 10,
                 'logging.CRITICAL': 50, 'np.inf': float('inf'), 'numpy.inf': float('inf')}
        if name in table:
            return table[name]
    if isinstance(node, ast.JoinedStr):
        parts = []
        for v in node.values:
            if isinstance(v, ast.Constant):
                parts.append(v.value)
            else:
                raise NotConstant('f-string field')
        return ''.join(parts)
    if isinstance(node, ast.Subscript):
        base = fold(node.value, env, module, depth + 1)
        if isinstance(node.slice, ast.Slice):
            lo = fold(node.slice.lower, env, module, depth + 1) if node.slice.lower else None
            hi = fold(node.slice.upper, env, module, depth + 1) if node.slice.upper else None
            st = fold(node.slice.step, env, module, depth + 1) if node.slice.step else None
            return base[lo:hi:st]
        return base[fold(node.slice, env, module, depth + 1)]
    raise NotConstant(type(node).__name__ + ' ' + u(node)[:60])


def try_fold(node, env=None, module=None, default=None):
    try:
        return fold(node, env, module)
    except (NotConstant, Exception):  # noqa: broad on purpose: folding never decides alone
        return default
