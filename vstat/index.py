"""E1 -- source index: parse every module of the analysed tree, keep parent
links, functions by qualified name, classes, module constants and imports."""
import ast
import hashlib
import os
import sys
import warnings


class AnalysisError(Exception):
    """The analysis itself cannot be carried out (anchor vanished, unknown
    construct, zero instances).  Reported as ANALYSIS-ERROR, exit status 2."""


def u(node):
    """Normalised source text of a node."""
    if node is None:
        return ''
    if isinstance(node, str):
        return node
    return ast.unparse(node)


def dotted(node):
    """Dotted name of a Name/Attribute chain, or None."""
    parts = []
    while isinstance(node, ast.Attribute):
        parts.append(node.attr)
        node = node.value
    if isinstance(node, ast.Name):
        parts.append(node.id)
        return '.'.join(reversed(parts))
    return None


def call_name(node):
    """Dotted name of the callee of a Call node (None when not a plain chain)."""
    if isinstance(node, ast.Call):
        return dotted(node.func)
    return None


def call_attr(node):
    """Last component of the callee: the method / function name."""
    if isinstance(node, ast.Call):
        if isinstance(node.func, ast.Attribute):
            return node.func.attr
        if isinstance(node.func, ast.Name):
            return node.func.id
    return None


def const(node, types=(str, int, float, bool, type(None))):
    if isinstance(node, ast.Constant) and isinstance(node.value, types):
        return node.value
    raise ValueError('not a constant')


def is_const(node, value=None):
    if not isinstance(node, ast.Constant):
        return False
    return True if value is None else (node.value == value and type(node.value) is type(value))


def base_name(node):
    """Name at the root of a Subscript/Attribute/Call chain."""
    while True:
        if isinstance(node, (ast.Subscript, ast.Attribute, ast.Starred)):
            node = node.value
        elif isinstance(node, ast.Call):
            node = node.func
        else:
            break
    return node.id if isinstance(node, ast.Name) else None


FUNC_TYPES = (ast.FunctionDef, ast.AsyncFunctionDef)


_MIRROR = {ast.Eq: ast.Eq, ast.NotEq: ast.NotEq, ast.Lt: ast.Gt, ast.Gt: ast.Lt, ast.LtE: ast.GtE, ast.GtE: ast.LtE}


def _constant_like(node):
    if isinstance(node, ast.Constant):
        return True
    if isinstance(node, ast.UnaryOp) and isinstance(node.op, (ast.USub, ast.UAdd)) and isinstance(node.operand, ast.Constant):
        return True
    if isinstance(node, (ast.Tuple, ast.List, ast.Set)) and all(_constant_like(e) for e in node.elts):
        return True
    return False


class _Canon(ast.NodeTransformer):
    """Canonical spelling of two behaviour-neutral choices, so that rules reading expression text are indifferent to them:
    a single-operator comparison keeps a constant operand on the right and otherwise orders its operands textually
    (`0 == x` -> `x == 0`, `b > a` -> `a < b`); an if/else whose test is a negation is turned round (`if not c: A else: B`
    -> `if c: B else: A`)."""

    def visit_Compare(self, node):  # noqa: N802
        self.generic_visit(node)
        if len(node.ops) == 1 and type(node.ops[0]) in _MIRROR:
            left, right = node.left, node.comparators[0]
            lc, rc = _constant_like(left), _constant_like(right)
            flip = (lc and not rc) or (lc == rc and ast.unparse(left) > ast.unparse(right))
            if flip:
                return ast.copy_location(ast.Compare(left=right, ops=[_MIRROR[type(node.ops[0])]()], comparators=[left]), node)
        return node

    _POSITIVE = {ast.NotIn: ast.In, ast.IsNot: ast.Is, ast.NotEq: ast.Eq}

    def _positive(self, test):
        """The un-negated test when `test` is a negation (`not x`, `a not in b`, `a is not b`, `a != b`), else None."""
        if isinstance(test, ast.UnaryOp) and isinstance(test.op, ast.Not):
            return test.operand
        if isinstance(test, ast.Compare) and len(test.ops) == 1 and type(test.ops[0]) in self._POSITIVE:
            return ast.copy_location(ast.Compare(left=test.left, ops=[self._POSITIVE[type(test.ops[0])]()], comparators=test.comparators), test)
        return None

    def visit_If(self, node):  # noqa: N802
        self.generic_visit(node)
        if node.orelse:
            pos = self._positive(node.test)
            if pos is not None:
                return ast.copy_location(ast.If(test=pos, body=node.orelse, orelse=node.body), node)
        return node

    def visit_JoinedStr(self, node):  # noqa: N802
        # f'..{a}..{b}' with plain fields  ->  '..{}..{}'.format(a, b): one spelling of string building for the rules that read format texts
        # (the format spec of a field is itself a JoinedStr: it stays one -- `f'{x:{spec}}'` has no plain-field spelling)
        for v in node.values:
            if isinstance(v, ast.FormattedValue):
                v.value = self.visit(v.value)
        if not any(isinstance(v, ast.FormattedValue) for v in node.values):
            return node
        text, args = '', []
        for v in node.values:
            if isinstance(v, ast.Constant) and isinstance(v.value, str):
                text += v.value.replace('{', '{{').replace('}', '}}')
            elif isinstance(v, ast.FormattedValue) and v.conversion == -1 and v.format_spec is None:
                text += '{}'
                args.append(v.value)
            else:
                return node
        new = ast.Call(func=ast.Attribute(value=ast.Constant(value=text), attr='format', ctx=ast.Load()), args=args, keywords=[])
        return ast.copy_location(new, node)

    def visit_Try(self, node):  # noqa: N802
        # try: x = getattr(o, n)  except AttributeError: x = d      ->  x = getattr(o, n, d)     (d a plain name / attribute / constant: nothing to evaluate early)
        self.generic_visit(node)
        if len(node.body) == 1 and len(node.handlers) == 1 and not node.orelse and not node.finalbody:
            st, h = node.body[0], node.handlers[0]
            if isinstance(st, ast.Assign) and len(st.targets) == 1 and isinstance(st.targets[0], ast.Name) and isinstance(st.value, ast.Call) and \
                    isinstance(st.value.func, ast.Name) and st.value.func.id == 'getattr' and len(st.value.args) == 2 and not st.value.keywords and \
                    isinstance(h.type, ast.Name) and h.type.id == 'AttributeError' and h.name is None and len(h.body) == 1 and \
                    isinstance(h.body[0], ast.Assign) and len(h.body[0].targets) == 1 and isinstance(h.body[0].targets[0], ast.Name) and \
                    h.body[0].targets[0].id == st.targets[0].id and isinstance(h.body[0].value, (ast.Name, ast.Attribute, ast.Constant)):
                call = ast.Call(func=st.value.func, args=list(st.value.args) + [h.body[0].value], keywords=[])
                return ast.copy_location(ast.Assign(targets=st.targets, value=ast.copy_location(call, st.value)), node)
        return node

    def visit_IfExp(self, node):  # noqa: N802
        self.generic_visit(node)
        pos = self._positive(node.test)
        if pos is not None:
            return ast.copy_location(ast.IfExp(test=pos, body=node.orelse, orelse=node.body), node)
        return node


def _own_signatures(tree):
    """{name: [positional parameter names]} of the plain top-level functions and of the classes (through __init__) of a module."""
    sigs = {}
    for st in tree.body:
        if isinstance(st, FUNC_TYPES) and not st.args.vararg and not st.args.posonlyargs and \
                not any(isinstance(d, ast.Name) and d.id in ('staticmethod', 'classmethod', 'property') for d in st.decorator_list):
            sigs[st.name] = [a.arg for a in st.args.args]
        elif isinstance(st, ast.ClassDef):
            init = next((m for m in st.body if isinstance(m, FUNC_TYPES) and m.name == '__init__'), None)
            if init is not None and not init.args.vararg and not init.args.posonlyargs and init.args.args:
                sigs[st.name] = [a.arg for a in init.args.args[1:]]
    return sigs


def _positional_calls(tree, sigs):
    """Calls of package functions / classes by their plain name: keywords that merely name the next positional parameters become positional
    (`f(a, y=b)` -> `f(a, b)` for `def f(x, y)`), so that rules reading call arguments are indifferent to that choice.  Returns the count."""
    n = 0
    for c in ast.walk(tree):
        if isinstance(c, ast.Call) and isinstance(c.func, ast.Name) and sigs.get(c.func.id) and c.keywords and not any(isinstance(a, ast.Starred) for a in c.args) \
                and not any(k.arg is None for k in c.keywords):
            params = sigs[c.func.id]
            by_name = {k.arg: k for k in c.keywords}
            moved = 0
            while len(c.args) < len(params) and params[len(c.args)] in by_name:
                k = by_name.pop(params[len(c.args)])
                c.args.append(k.value)
                c.keywords.remove(k)
                moved += 1
            n += 1 if moved else 0
    return n


class Module:
    def __init__(self, path, rel):
        self.path = path
        self.rel = rel
        with open(path, encoding='utf-8') as handle:
            self.src = handle.read()
        try:
            with warnings.catch_warnings():
                warnings.simplefilter('ignore')
                self.tree = ast.parse(self.src, filename=path)
        except SyntaxError as err:
            raise AnalysisError('cannot parse {}: {}'.format(rel, err))
        self.digest = hashlib.sha256(self.src.encode('utf-8')).hexdigest()[:16]
        if not os.environ.get('VSTAT_NO_CANON'):
            self.tree = ast.fix_missing_locations(_Canon().visit(self.tree))
        self.parent = {}
        self.functions = {}
        self.classes = {}
        self.constants = {}
        self.imports = {}
        self._index()

    def _index(self):
        for node in ast.walk(self.tree):
            for child in ast.iter_child_nodes(node):
                self.parent[id(child)] = node

        def visit(body, prefix):
            for st in body:
                if isinstance(st, FUNC_TYPES):
                    name = prefix + st.name
                    self.functions.setdefault(name, st)
                    visit(st.body, name + '.')
                elif isinstance(st, ast.ClassDef):
                    name = prefix + st.name
                    self.classes.setdefault(name, st)
                    visit(st.body, name + '.')
                elif isinstance(st, (ast.If, ast.Try, ast.With, ast.For, ast.While)):
                    for fld in ('body', 'orelse', 'finalbody'):
                        visit(getattr(st, fld, []) or [], prefix)
                    for handler in getattr(st, 'handlers', []) or []:
                        visit(handler.body, prefix)
        visit(self.tree.body, '')
        for st in self.tree.body:
            if isinstance(st, ast.Assign) and len(st.targets) == 1 and isinstance(st.targets[0], ast.Name):
                self.constants[st.targets[0].id] = st.value
            elif isinstance(st, ast.AnnAssign) and isinstance(st.target, ast.Name) and st.value is not None:
                self.constants[st.target.id] = st.value
        for node in ast.walk(self.tree):
            if isinstance(node, ast.Import):
                for alias in node.names:
                    self.imports[alias.asname or alias.name.split('.')[0]] = (alias.name, None)
            elif isinstance(node, ast.ImportFrom):
                for alias in node.names:
                    self.imports[alias.asname or alias.name] = ('.' * node.level + (node.module or ''), alias.name)

    def reindex(self):
        """Rebuild parent links and the function / class tables after the tree was rewritten."""
        self.parent = {}
        self.functions = {}
        self.classes = {}
        self.constants = {}
        self.imports = {}
        self._index()

    # -- navigation ---------------------------------------------------------
    def func(self, qualname):
        try:
            return self.functions[qualname]
        except KeyError:
            raise AnalysisError('anchor vanished: function {} in {}'.format(qualname, self.rel))

    def cls(self, name):
        try:
            return self.classes[name]
        except KeyError:
            raise AnalysisError('anchor vanished: class {} in {}'.format(name, self.rel))

    def ancestors(self, node):
        out = []
        cur = self.parent.get(id(node))
        while cur is not None:
            out.append(cur)
            cur = self.parent.get(id(cur))
        return out

    def enclosing(self, node, types):
        for anc in self.ancestors(node):
            if isinstance(anc, types):
                return anc
        return None

    def enclosing_function(self, node):
        return self.enclosing(node, FUNC_TYPES)

    def qualname_of(self, fn):
        for name, node in self.functions.items():
            if node is fn:
                return name
        return getattr(fn, 'name', '?')

    def stmt_of(self, node):
        """The statement a node belongs to."""
        cur = node
        while cur is not None and not isinstance(cur, ast.stmt):
            cur = self.parent.get(id(cur))
        return cur

    def loc(self, node):
        return '{}:{}'.format(self.rel, getattr(node, 'lineno', 0))


def walk_local(fn):
    """Walk a function body without descending into nested defs/classes
    (lambdas and comprehensions are entered)."""
    stack = list(fn.body) if hasattr(fn, 'body') and isinstance(fn.body, list) else [fn]
    while stack:
        node = stack.pop()
        yield node
        for child in ast.iter_child_nodes(node):
            if isinstance(child, FUNC_TYPES + (ast.ClassDef,)):
                continue
            stack.append(child)


def calls_in(node, local=True):
    it = walk_local(node) if (local and isinstance(node, FUNC_TYPES)) else ast.walk(node)
    return [n for n in it if isinstance(n, ast.Call)]


class SourceIndex:
    """All non-test modules of the package plus bin/martinize2."""

    def __init__(self, root):
        self.root = os.path.abspath(root)
        self.modules = {}
        pkg = os.path.join(self.root, 'vermouth')
        if not os.path.isdir(pkg):
            raise AnalysisError('no vermouth package under {}'.format(self.root))
        for dirpath, dirnames, filenames in os.walk(pkg):
            dirnames[:] = sorted(d for d in dirnames if d not in ('tests', '__pycache__'))
            for name in sorted(filenames):
                if name.endswith('.py'):
                    path = os.path.join(dirpath, name)
                    rel = os.path.relpath(path, self.root)
                    self.modules[rel] = Module(path, rel)
        cli = os.path.join(self.root, 'bin', 'martinize2')
        if os.path.isfile(cli):
            self.modules['bin/martinize2'] = Module(cli, 'bin/martinize2')
        else:
            raise AnalysisError('bin/martinize2 not found under {}'.format(self.root))
        self._nx_graph = None
        if not os.environ.get('VSTAT_NO_CANON'):
            # calls of package functions / classes by plain name: one spelling of "positional or keyword" (see _positional_calls)
            own = {rel: _own_signatures(m.tree) for rel, m in self.modules.items()}
            by_name = {}
            for rel, sg in own.items():
                for name, params in sg.items():
                    by_name.setdefault(name, []).append(params)
            for rel, m in self.modules.items():
                sigs = dict(own[rel])
                for local, (_modname, orig) in m.imports.items():
                    if orig is not None and local not in sigs and len(by_name.get(orig, [])) == 1:
                        sigs[local] = by_name[orig][0]
                _positional_calls(m.tree, sigs)
        # alpha-normalise local names towards the names the rule sets use (vstat/alpha.py)
        self.renamed = {}
        self.inlined = {}
        if not os.environ.get('VSTAT_NO_INLINE'):
            from . import inline
            for rel, module in self.modules.items():
                done = inline.normalise_module(module)
                if done:
                    self.inlined[rel] = done
        if not os.environ.get('VSTAT_NO_ALPHA'):
            from . import alpha
            for rel, module in self.modules.items():
                applied = alpha.normalise_module(module)
                if applied:
                    self.renamed[rel] = applied
        from . import util as _util
        _util.register_signatures(self)
        self.unhoisted = {}
        if not os.environ.get('VSTAT_NO_UNHOIST'):
            from . import unhoist
            for rel, module in self.modules.items():
                done = unhoist.normalise_module(module)
                if done:
                    self.unhoisted[rel] = done

    def mod(self, rel):
        try:
            return self.modules[rel]
        except KeyError:
            raise AnalysisError('anchor vanished: module {}'.format(rel))

    def func(self, rel, qualname):
        return self.mod(rel).func(qualname)

    def all_functions(self):
        for rel, module in self.modules.items():
            for name, fn in module.functions.items():
                yield module, name, fn

    def digest(self):
        h = hashlib.sha256()
        for rel in sorted(self.modules):
            h.update(rel.encode())
            h.update(self.modules[rel].digest.encode())
        return h.hexdigest()[:16]

    def stats(self):
        nfun = sum(len(m.functions) for m in self.modules.values())
        nlines = sum(m.src.count('\n') for m in self.modules.values())
        return {'modules_parsed': len(self.modules), 'functions_indexed': nfun, 'source_lines': nlines,
                'tree_digest': self.digest()}

    # networkx/classes/graph.py is parsed (never imported) for the inherited
    # mutators of Molecule.
    def networkx_graph_module(self):
        if self._nx_graph is None:
            for entry in sys.path:
                cand = os.path.join(entry, 'networkx', 'classes', 'graph.py')
                if os.path.isfile(cand):
                    self._nx_graph = Module(cand, 'site-packages/networkx/classes/graph.py')
                    break
            else:
                raise AnalysisError('networkx/classes/graph.py not found on sys.path')
        return self._nx_graph
