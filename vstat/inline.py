"""Un-extract: helper functions that did not exist in the pinned tree are inlined at their call sites before any rule runs.

"Extract function" is the commonest behaviour-preserving refactoring, and it moves exactly the statements the provenance /
must-pass-through rules read out of the function they read.  The normal form used by the rules is therefore the one with such
helpers inlined: a function (or method) whose qualified name is not in the inventory of the pinned tree (vstat/functions.json,
written by tools/mkroles.py) and whose body has its returns in tail position only is substituted for every call that is a whole
statement (`helper(...)`, `x = helper(...)`, `return helper(...)`) in a function of the same module.  Helpers all of whose call
sites could be inlined are removed from the module.  Everything else is left alone (the rules then report what they cannot find).
"""
import ast
import copy
import json
import os

FUNC_TYPES = (ast.FunctionDef, ast.AsyncFunctionDef)
INVENTORY = os.path.join(os.path.dirname(os.path.abspath(__file__)), 'functions.json')
_STORE = None


def stored():
    global _STORE
    if _STORE is None:
        try:
            with open(INVENTORY) as handle:
                _STORE = json.load(handle)
        except OSError:
            _STORE = {}
    return _STORE


class NotInlinable(Exception):
    pass


def _strip_doc(body):
    if body and isinstance(body[0], ast.Expr) and isinstance(body[0].value, ast.Constant) and isinstance(body[0].value.value, str):
        return body[1:]
    return body


def _has_return(stmts):
    return any(isinstance(n, ast.Return) for st in stmts for n in ast.walk(st) if not isinstance(n, FUNC_TYPES + (ast.Lambda,)))


def _tailify(stmts, on_return, falls_off):
    """Rewrite a statement list whose returns are all in tail position; `on_return(value_or_None)` gives the replacement
    statements for a return, `falls_off()` the statements for running off the end."""
    out = []
    for i, st in enumerate(stmts):
        last = i == len(stmts) - 1
        if isinstance(st, ast.Return):
            if not last:
                raise NotInlinable('code after return')
            out.extend(on_return(st.value))
            return out
        if isinstance(st, ast.If) and (_has_return(st.body) or _has_return(st.orelse)):
            rest = stmts[i + 1:]
            body_ends = _always_returns(st.body)
            else_ends = _always_returns(st.orelse) if st.orelse else False
            if rest and not (body_ends or else_ends):
                raise NotInlinable('conditional return that neither arm completes')
            new_body = list(st.body)
            new_else = list(st.orelse)
            if rest:
                # the code after the `if` belongs to the arm(s) that do not return
                if body_ends and not else_ends:
                    new_else = new_else + rest
                elif else_ends and not body_ends:
                    new_body = new_body + rest
                # both end: rest is dead
            new = ast.If(test=st.test, body=_tailify(new_body, on_return, falls_off) or [ast.Pass()],
                         orelse=_tailify(new_else, on_return, falls_off) if (new_else or True) else [])
            if not new.orelse:
                new.orelse = []
            out.append(ast.copy_location(new, st))
            return out
        if _has_return([st]):
            raise NotInlinable('return inside a loop / try / with')
        out.append(st)
    out.extend(falls_off())
    return out


def _always_returns(stmts):
    if not stmts:
        return False
    last = stmts[-1]
    if isinstance(last, (ast.Return, ast.Raise)):
        return True
    if isinstance(last, ast.If):
        return _always_returns(last.body) and bool(last.orelse) and _always_returns(last.orelse)
    return False


def _bind_arguments(helper, call, bound, renames=None, assigned_back=()):
    """[Assign(param = arg)] for the parameters whose argument is not simply the same name."""
    args = helper.args
    if args.vararg or args.kwarg or any(isinstance(a, ast.Starred) for a in call.args) or any(k.arg is None for k in call.keywords):
        raise NotInlinable('star arguments')
    params = [a.arg for a in args.posonlyargs + args.args]
    if bound:
        if not params:
            raise NotInlinable('method without self')
        params = params[1:]
    defaults = dict(zip(params[len(params) - len(args.defaults):], args.defaults)) if args.defaults else {}
    for a, d in zip(args.kwonlyargs, args.kw_defaults):
        if d is not None:
            defaults[a.arg] = d
    allp = params + [a.arg for a in args.kwonlyargs]
    given = {}
    if len(call.args) > len(params):
        raise NotInlinable('too many positional arguments')
    for p, a in zip(params, call.args):
        given[p] = a
    for k in call.keywords:
        if k.arg not in allp or k.arg in given:
            raise NotInlinable('unknown / duplicate keyword')
        given[k.arg] = k.value
    out = []
    for p in allp:
        if p in given:
            val = given[p]
        elif p in defaults:
            val = defaults[p]
        else:
            raise NotInlinable('missing argument')
        if isinstance(val, ast.Name) and val.id == p:
            continue
        if isinstance(val, ast.Name) and renames is not None:
            # the helper calls its parameter differently from the caller's variable: use the caller's name inside the inlined body when that
            # cannot change what the caller sees (the helper never rebinds it, or the caller assigns the result back to that very variable)
            stored_in_helper = any(isinstance(n, ast.Name) and n.id == p and isinstance(n.ctx, (ast.Store, ast.Del)) for n in ast.walk(helper))
            uses_callers_name = any(isinstance(n, ast.Name) and n.id == val.id for n in ast.walk(helper))
            if not uses_callers_name and (not stored_in_helper or val.id in assigned_back):
                renames[p] = val.id
                continue
        out.append(ast.Assign(targets=[ast.Name(id=p, ctx=ast.Store())], value=copy.deepcopy(val), lineno=call.lineno, col_offset=0))
    return out


def _inline_statement(st, helper, call, bound):
    if any(isinstance(n, (ast.Yield, ast.YieldFrom, ast.Await, ast.Global, ast.Nonlocal)) for n in ast.walk(helper)):
        raise NotInlinable('generator / global')
    if any(isinstance(n, ast.Call) and isinstance(n.func, ast.Name) and n.func.id == helper.name for n in ast.walk(helper)):
        raise NotInlinable('recursive')
    body = copy.deepcopy(_strip_doc(helper.body))
    renames = {}
    assigned_back = {t.id for t in st.targets if isinstance(t, ast.Name)} if isinstance(st, ast.Assign) else set()
    binds = _bind_arguments(helper, call, bound, renames, assigned_back)
    if renames:
        class _R(ast.NodeTransformer):
            def visit_Name(self, n):  # noqa: N802
                if n.id in renames:
                    return ast.copy_location(ast.Name(id=renames[n.id], ctx=n.ctx), n)
                return n
        body = [_R().visit(b) for b in body]
    if isinstance(st, ast.Expr):
        new = _tailify(body, lambda v: [] if v is None or isinstance(v, (ast.Constant, ast.Name)) else [ast.Expr(value=v)], lambda: [])
    elif isinstance(st, ast.Assign):
        targets = st.targets

        def assign(v):
            if isinstance(v, ast.Name) and len(targets) == 1 and isinstance(targets[0], ast.Name) and targets[0].id == v.id:
                return []       # `x = helper()` where the helper ends in `return x`: nothing left to do
            return [ast.Assign(targets=copy.deepcopy(targets), value=v if v is not None else ast.Constant(value=None), lineno=st.lineno, col_offset=st.col_offset)]
        new = _tailify(body, assign, lambda: assign(None))
    elif isinstance(st, ast.Return):
        new = _tailify(body, lambda v: [ast.Return(value=v)], lambda: [ast.Return(value=None)])
    else:
        raise NotInlinable('call is not a whole statement')
    new = binds + new
    for n in new:
        ast.copy_location(n, st)
        ast.fix_missing_locations(n)
    return new or [ast.copy_location(ast.Pass(), st)]


def _call_of(st):
    if isinstance(st, ast.Expr) and isinstance(st.value, ast.Call):
        return st.value
    if isinstance(st, ast.Assign) and isinstance(st.value, ast.Call):
        return st.value
    if isinstance(st, ast.Return) and isinstance(st.value, ast.Call):
        return st.value
    return None


def normalise_module(module):
    """Returns {helper qualname: number of call sites inlined}."""
    inventory = stored().get(module.rel)
    if inventory is None:
        return {}
    known = set(inventory)
    # candidates: top-level functions and methods of top-level classes that the pinned tree does not have
    top = {}
    for st in module.tree.body:
        if isinstance(st, FUNC_TYPES) and st.name not in known:
            top[st.name] = (st, None)
        elif isinstance(st, ast.ClassDef):
            for it in st.body:
                if isinstance(it, FUNC_TYPES) and '{}.{}'.format(st.name, it.name) not in known:
                    top['{}.{}'.format(st.name, it.name)] = (it, st)
    if not top:
        return {}
    applied = {}
    failed = set()

    def resolve(call, cls):
        f = call.func
        if isinstance(f, ast.Name) and f.id in top and top[f.id][1] is None:
            return f.id, False
        if isinstance(f, ast.Attribute) and isinstance(f.value, ast.Name) and cls is not None:
            qual = '{}.{}'.format(cls.name, f.attr)
            if qual in top and f.value.id in ('self', 'cls', cls.name):
                helper = top[qual][0]
                static = any(isinstance(d, ast.Name) and d.id == 'staticmethod' for d in helper.decorator_list)
                return qual, (not static and f.value.id != cls.name)
        return None, False

    def rewrite(stmts, cls, depth=0):
        out = []
        for st in stmts:
            call = _call_of(st)
            name, bound = resolve(call, cls) if call is not None else (None, False)
            if name is not None and depth < 3:
                helper = top[name][0]
                try:
                    new = _inline_statement(st, helper, call, bound)
                    applied[name] = applied.get(name, 0) + 1
                    out.extend(rewrite(new, cls, depth + 1))
                    continue
                except NotInlinable:
                    failed.add(name)
            for fld in ('body', 'orelse', 'finalbody'):
                sub = getattr(st, fld, None)
                if isinstance(sub, list) and sub and isinstance(sub[0], ast.stmt) and not isinstance(st, FUNC_TYPES + (ast.ClassDef,)):
                    setattr(st, fld, rewrite(sub, cls, depth))
            for h in getattr(st, 'handlers', []) or []:
                h.body = rewrite(h.body, cls, depth)
            out.append(st)
        return out

    helpers = {id(v[0]) for v in top.values()}
    for st in module.tree.body:
        if isinstance(st, FUNC_TYPES) and id(st) not in helpers:
            st.body = rewrite(st.body, None)
        elif isinstance(st, ast.ClassDef):
            for it in st.body:
                if isinstance(it, FUNC_TYPES) and id(it) not in helpers:
                    it.body = rewrite(it.body, st)
    # drop helpers that are now unused anywhere in the module
    if applied:
        def still_called(name):
            simple = name.split('.')[-1]
            for n in ast.walk(module.tree):
                if isinstance(n, ast.Name) and n.id == simple and isinstance(n.ctx, ast.Load):
                    return True
                if isinstance(n, ast.Attribute) and n.attr == simple:
                    return True
            return False
        for name in list(applied):
            helper, cls = top[name]
            container = cls.body if cls is not None else module.tree.body
            saved = list(container)
            container[:] = [s for s in container if s is not helper]
            if still_called(name) or name in failed:
                container[:] = saved
            elif not container:
                container.append(ast.Pass())
        ast.fix_missing_locations(module.tree)
        module.reindex()
    return applied
