"""Small-domain interpretation of pure decision code.

An own evaluator for the if/elif/return + comparison/arithmetic fragment, used
to compare a decision function with its documented table over *all* valuations
of a small finite domain (the code touches its inputs only through comparisons
and differences, so a small grid exhausts the orderings).  Nothing of the
analysed repository is executed: the AST is interpreted here.
"""
import ast

from .index import u


class Model:
    """Base class of the stand-in objects a rule may put into the environment (a fake path, ...): the interpreter calls their methods and reads
    their attributes directly."""


class Unsupported(Exception):
    pass


class Returned(Exception):
    def __init__(self, value):
        super().__init__()
        self.value = value


class Broke(Exception):
    pass


class Raised(Exception):
    """An interpreted callee executed a `raise` statement (the text of the raised expression is the argument)."""


class Continued(Exception):
    pass


def _is_log_stmt(st):
    """LOGGER.debug(...) style statement: no effect on the decision being interpreted."""
    if isinstance(st, ast.Expr) and isinstance(st.value, ast.Call) and isinstance(st.value.func, ast.Attribute):
        base = st.value.func.value
        name = base.id if isinstance(base, ast.Name) else base.attr if isinstance(base, ast.Attribute) else ''
        return name.upper().startswith('LOG') and st.value.func.attr in ('debug', 'info', 'log', 'warning')
    return False


class Bools(list):
    """Stand-in for a numpy boolean array (what `np.isfinite(v)` or `v == w` give): a list with .all() / .any()."""
    def all(self):
        return all(self)

    def any(self):
        return any(self)


class Vec(tuple):
    """Stand-in for a small numpy vector: == and != compare element by element."""
    def __eq__(self, other):
        if isinstance(other, (tuple, list)) and len(other) == len(self):
            return Bools(a == b for a, b in zip(self, other))
        return False

    def __ne__(self, other):
        if isinstance(other, (tuple, list)) and len(other) == len(self):
            return Bools(a != b for a, b in zip(self, other))
        return True

    __hash__ = tuple.__hash__


def _np_all(x):
    return bool(x) if isinstance(x, (bool, int, float)) or x is None else all(x)


def _np_any(x):
    return bool(x) if isinstance(x, (bool, int, float)) or x is None else any(x)


def _np_isfinite(p):
    import math
    return math.isfinite(p) if isinstance(p, (int, float)) else Bools(math.isfinite(x) for x in p)


def _binop(op, a, b):
    if isinstance(op, ast.Add):
        return a + b
    if isinstance(op, ast.Sub):
        return a - b
    if isinstance(op, ast.BitOr):
        return a | b
    if isinstance(op, ast.BitAnd):
        return a & b
    raise Unsupported('augmented assignment ' + type(op).__name__)


def sign(x):
    return (x > 0) - (x < 0)


BUILTINS = {'sign': sign, 'abs': abs, 'len': len, 'min': min, 'max': max, 'int': int, 'float': float, 'bool': bool, 'str': str,
            'np.sign': sign, 'numpy.sign': sign, 'isinstance': isinstance,
            'set': set, 'enumerate': lambda *a, **k: list(enumerate(*a, **k)), 'tuple': tuple, 'list': list, 'dict': dict,
            'copy.copy': lambda x: x.copy() if hasattr(x, 'copy') else x,
            'zip': lambda *a: list(zip(*a)), 'range': lambda *a: list(range(*a)) if all(isinstance(x, int) and abs(x) < 10000 for x in a) else (_ for _ in ()).throw(Unsupported('long range')),
            'sorted': sorted, 'sum': sum, 'any': any, 'all': all, 'frozenset': frozenset, 'reversed': lambda x: list(reversed(x)),
            'itertools.chain.from_iterable': lambda xs: [y for x in xs for y in x], 'chain.from_iterable': lambda xs: [y for x in xs for y in x],
            'itertools.chain': lambda *xs: [y for x in xs for y in x], 'chain': lambda *xs: [y for x in xs for y in x],
            'itertools.product': lambda *xs: list(__import__('itertools').product(*xs)), 'itertools.count': lambda start=0: list(range(start, start + 60)),
            're.compile': __import__('re').compile, 're.fullmatch': __import__('re').fullmatch, 're.match': __import__('re').match, 're.search': __import__('re').search,
            're.findall': __import__('re').findall, 're.sub': __import__('re').sub, 're.split': __import__('re').split, 're.escape': __import__('re').escape,
            'iter': iter, 'next': next, 'slice': slice, 'divmod': divmod, 'round': round, 'repr': repr, 'getattr': getattr, 'hasattr': hasattr, 'defaultdict': __import__('collections').defaultdict, 'collections.defaultdict': __import__('collections').defaultdict,
            'string.ascii_letters': __import__('string').ascii_letters, 'ascii_letters': __import__('string').ascii_letters,
            'np.all': _np_all, 'numpy.all': _np_all, 'np.any': _np_any, 'numpy.any': _np_any, 'np.isfinite': _np_isfinite, 'numpy.isfinite': _np_isfinite}

CMP = {ast.Eq: lambda a, b: a == b, ast.NotEq: lambda a, b: a != b, ast.Lt: lambda a, b: a < b, ast.LtE: lambda a, b: a <= b,
       ast.Gt: lambda a, b: a > b, ast.GtE: lambda a, b: a >= b, ast.In: lambda a, b: a in b, ast.NotIn: lambda a, b: a not in b,
       ast.Is: lambda a, b: a is b, ast.IsNot: lambda a, b: a is not b}


def ev(node, env):
    if isinstance(node, ast.Constant):
        return node.value
    if isinstance(node, ast.Name):
        if node.id in env:
            return env[node.id]
        if node.id in BUILTINS and BUILTINS[node.id] is not None:
            return BUILTINS[node.id]
        raise Unsupported('name ' + node.id)
    if isinstance(node, (ast.Tuple, ast.List)):
        vals = [ev(e, env) for e in node.elts]
        return tuple(vals) if isinstance(node, ast.Tuple) else vals
    if isinstance(node, ast.Dict) and all(k is not None for k in node.keys):
        return {ev(k, env): ev(v, env) for k, v in zip(node.keys, node.values)}
    if isinstance(node, ast.Set):
        return {ev(e, env) for e in node.elts}
    if isinstance(node, (ast.ListComp, ast.SetComp, ast.GeneratorExp, ast.DictComp)):
        results = []

        def bind(target, value, scope):
            if isinstance(target, ast.Name):
                scope[target.id] = value
            elif isinstance(target, (ast.Tuple, ast.List)):
                vals = tuple(value)
                if len(vals) != len(target.elts):
                    raise Unsupported('unpacking arity')
                for t_, v_ in zip(target.elts, vals):
                    bind(t_, v_, scope)
            else:
                raise Unsupported('comprehension target')

        def run(gens, scope):
            if not gens:
                if isinstance(node, ast.DictComp):
                    results.append((ev(node.key, scope), ev(node.value, scope)))
                else:
                    results.append(ev(node.elt, scope))
                return
            g = gens[0]
            seq = list(ev(g.iter, scope))
            if len(seq) > 256:
                raise Unsupported('long iteration')
            for item in seq:
                inner = dict(scope)
                bind(g.target, item, inner)
                if all(ev(c, inner) for c in g.ifs):
                    run(gens[1:], inner)
        run(node.generators, dict(env))
        if isinstance(node, ast.DictComp):
            return dict(results)
        if isinstance(node, ast.SetComp):
            return set(results)
        return results
    if isinstance(node, ast.BoolOp):
        if isinstance(node.op, ast.And):
            val = True
            for v in node.values:
                val = ev(v, env)
                if not val:
                    return val
            return val
        val = False
        for v in node.values:
            val = ev(v, env)
            if val:
                return val
        return val
    if isinstance(node, ast.UnaryOp):
        val = ev(node.operand, env)
        if isinstance(node.op, ast.Not):
            return not val
        if isinstance(node.op, ast.USub):
            return -val
        if isinstance(node.op, ast.UAdd):
            return +val
    if isinstance(node, ast.BinOp):
        a, b = ev(node.left, env), ev(node.right, env)
        if isinstance(node.op, ast.Add):
            return a + b
        if isinstance(node.op, ast.Sub):
            return a - b
        if isinstance(node.op, ast.Mult):
            return a * b
        if isinstance(node.op, ast.FloorDiv):
            return a // b
        if isinstance(node.op, ast.Mod):
            return a % b
        if isinstance(node.op, ast.BitAnd):
            return a & b
        if isinstance(node.op, ast.BitOr):
            return a | b
        if isinstance(node.op, ast.BitXor):
            return a ^ b
        if isinstance(node.op, ast.Div):
            return a / b
        if isinstance(node.op, ast.Pow) and isinstance(b, (int, float)) and abs(b) <= 8:
            return a ** b
    if isinstance(node, ast.Compare):
        left = ev(node.left, env)
        for op, right in zip(node.ops, node.comparators):
            r = ev(right, env)
            if type(op) not in CMP:
                raise Unsupported('comparison ' + type(op).__name__)
            res = CMP[type(op)](left, r)
            if isinstance(res, Bools) and len(node.ops) == 1:
                return res            # element-wise comparison of two vectors
            if not res:
                return False
            left = r
        return True
    if isinstance(node, ast.Subscript):
        if isinstance(node.slice, ast.Slice):
            lo = ev(node.slice.lower, env) if node.slice.lower is not None else None
            hi = ev(node.slice.upper, env) if node.slice.upper is not None else None
            st = ev(node.slice.step, env) if node.slice.step is not None else None
            return ev(node.value, env)[lo:hi:st]
        return ev(node.value, env)[ev(node.slice, env)]
    if isinstance(node, ast.IfExp):
        return ev(node.body, env) if ev(node.test, env) else ev(node.orelse, env)
    if isinstance(node, ast.Lambda) and not node.args.vararg and not node.args.kwarg and not node.args.defaults:
        params = [a.arg for a in node.args.posonlyargs + node.args.args]
        def lam(*args, _n=node, _env=env, **kw):
            bound = dict(zip(params, args))
            bound.update({k_: v_ for k_, v_ in kw.items() if k_ in params})
            if len(args) > len(params) or any(p_ not in bound for p_ in params) or any(k_ not in params for k_ in kw):
                raise TypeError('lambda called with the wrong arguments')     # what the real call would do
            return ev(_n.body, dict(_env, **bound))
        return lam
    if isinstance(node, ast.Call) and isinstance(node.func, ast.Lambda):
        return ev(node.func, env)(*[ev(a, env) for a in node.args])
    if isinstance(node, ast.Call) and isinstance(node.func, ast.Attribute) and node.func.attr in ('get', 'startswith', 'endswith', 'keys', 'values', 'items', 'isdigit', 'copy', 'split', 'rsplit', 'replace', 'strip', 'lower', 'upper', 'casefold', 'join', 'count', 'isalpha', 'isalnum', 'index', 'find', 'rfind', 'lstrip', 'rstrip', 'partition', 'rpartition', 'splitlines', 'title', 'zfill', 'ljust', 'rjust', 'center',
                                                                                                      'isdecimal', 'isnumeric', 'isspace', 'isupper', 'islower', 'removeprefix', 'removesuffix') \
            and u(node.func) not in env and u(node.func) not in BUILTINS:
        recv = ev(node.func.value, env)
        if isinstance(recv, (dict, str)):
            return getattr(recv, node.func.attr)(*[ev(a, env) for a in node.args])
    if isinstance(node, ast.Call) and isinstance(node.func, ast.Attribute) and u(node.func) not in env:
        try:
            recv_m = ev(node.func.value, env)
        except Unsupported:
            recv_m = None
        if isinstance(recv_m, (__import__('re').Pattern, __import__('re').Match)) and node.func.attr in ('fullmatch', 'match', 'search', 'findall', 'sub', 'split', 'group', 'groups', 'groupdict', 'start', 'end', 'span'):
            return getattr(recv_m, node.func.attr)(*[ev(a, env) for a in node.args])
        if isinstance(recv_m, Bools) and node.func.attr in ('all', 'any') and not node.args:
            return getattr(recv_m, node.func.attr)()
        if isinstance(recv_m, Model):
            return getattr(recv_m, node.func.attr)(*[ev(a, env) for a in node.args], **{k.arg: ev(k.value, env) for k in node.keywords if k.arg})
        if isinstance(recv_m, str) and node.func.attr == 'format':
            kw_ = {}
            for k in node.keywords:
                if k.arg:
                    kw_[k.arg] = ev(k.value, env)
                else:
                    kw_.update(ev(k.value, env))
            return recv_m.format(*[ev(a, env) for a in node.args], **kw_)
        if isinstance(recv_m, (set, frozenset, dict, list, tuple, str)) and not node.func.attr.startswith('_') and hasattr(recv_m, node.func.attr) \
                and not isinstance(node.func.value, (ast.Name, ast.Attribute)):
            # a method of a freshly built container / string (`set().union(..)`, `'sep'.join(..)`)
            args_ = []
            for a in node.args:
                if isinstance(a, ast.Starred):
                    args_.extend(list(ev(a.value, env)))
                else:
                    args_.append(ev(a, env))
            return getattr(recv_m, node.func.attr)(*args_)
    if isinstance(node, ast.Call):
        name = u(node.func)
        fn = env.get(name) if name in env else BUILTINS.get(name)
        if fn is None and isinstance(node.func, ast.Attribute) and node.func.attr in ('add', 'append', 'update', 'discard', 'items', 'get', 'keys', 'values', 'copy', 'setdefault', 'pop', 'extend', 'remove', 'index', 'isdisjoint', 'issubset', 'union', 'intersection', 'difference'):
            recv = ev(node.func.value, env)
            if isinstance(recv, (dict, set, list)):
                return getattr(recv, node.func.attr)(*[ev(a, env) for a in node.args])
        if fn is None:
            raise Unsupported('call ' + name)
        args = []
        for a in node.args:
            if isinstance(a, ast.Starred):
                args.extend(list(ev(a.value, env)))
            else:
                args.append(ev(a, env))
        kwargs_ = {}
        for k in node.keywords:
            if k.arg:
                kwargs_[k.arg] = ev(k.value, env)
            else:
                kwargs_.update(ev(k.value, env))
        return fn(*args, **kwargs_)
    if isinstance(node, ast.Attribute):
        name = u(node)
        if name in env:
            return env[name]
        if name in BUILTINS:
            return BUILTINS[name]
        try:
            base = ev(node.value, env)
        except Unsupported:
            base = None
        if isinstance(base, Model):
            return getattr(base, node.attr)
        if isinstance(base, (list, tuple, dict, set, frozenset, str, int, float)) and not hasattr(base, node.attr):
            raise AttributeError(node.attr)      # what the real object would do (`iterable.shape` on a list)
    raise Unsupported(type(node).__name__ + ' ' + u(node)[:40])


def run_stmts(stmts, env):
    for st in stmts:
        if isinstance(st, ast.Expr) and isinstance(st.value, ast.Constant):
            continue
        if _is_log_stmt(st):
            continue
        if isinstance(st, ast.Return):
            raise Returned(ev(st.value, env) if st.value is not None else None)
        if isinstance(st, ast.If):
            run_stmts(st.body if ev(st.test, env) else st.orelse, env)
        elif isinstance(st, ast.Assign) and len(st.targets) == 1 and isinstance(st.targets[0], ast.Name) and isinstance(st.value, ast.Call) \
                and isinstance(st.value.func, ast.Attribute) and st.value.func.attr == '_replace' and isinstance(st.value.func.value, ast.Name):
            # record-style update: x = x._replace(field=value) over the flattened names 'x.field'
            src, dst = st.value.func.value.id, st.targets[0].id
            if src != dst:
                for k in [k for k in env if k.startswith(src + '.')]:
                    env[dst + k[len(src):]] = env[k]
            for kw in st.value.keywords:
                env['{}.{}'.format(dst, kw.arg)] = ev(kw.value, env)
        elif isinstance(st, ast.Assign) and len(st.targets) == 1 and isinstance(st.targets[0], ast.Name):
            env[st.targets[0].id] = ev(st.value, env)
        elif isinstance(st, ast.Assign) and len(st.targets) == 1 and isinstance(st.targets[0], ast.Tuple) \
                and sum(isinstance(e, ast.Starred) for e in st.targets[0].elts) == 1 \
                and all(isinstance(e, ast.Name) or (isinstance(e, ast.Starred) and isinstance(e.value, ast.Name)) for e in st.targets[0].elts):
            # a, *rest = value  /  *front, last = value
            vals = list(ev(st.value, env))
            elts = st.targets[0].elts
            k = next(i for i, e in enumerate(elts) if isinstance(e, ast.Starred))
            after = len(elts) - k - 1
            if len(vals) < len(elts) - 1:
                raise Unsupported('unpacking arity')
            for e, v in zip(elts[:k], vals[:k]):
                env[e.id] = v
            env[elts[k].value.id] = vals[k:len(vals) - after]
            for e, v in zip(elts[k + 1:], vals[len(vals) - after:]):
                env[e.id] = v
        elif isinstance(st, ast.Assign) and len(st.targets) == 1 and isinstance(st.targets[0], ast.Tuple) \
                and all(isinstance(e, ast.Name) for e in st.targets[0].elts):
            vals = tuple(ev(st.value, env))
            if len(vals) != len(st.targets[0].elts):
                raise Unsupported('unpacking arity')
            for e, v in zip(st.targets[0].elts, vals):
                env[e.id] = v
        elif isinstance(st, ast.Assign) and len(st.targets) == 1 and isinstance(st.targets[0], ast.Subscript) \
                and isinstance(st.targets[0].value, (ast.Name, ast.Attribute)) and isinstance(env.get(u(st.targets[0].value)), dict):
            env[u(st.targets[0].value)][ev(st.targets[0].slice, env)] = ev(st.value, env)
        elif isinstance(st, ast.Assign) and len(st.targets) == 1 and isinstance(st.targets[0], ast.Attribute) and isinstance(st.targets[0].value, ast.Name):
            # object state as flattened names: self.x = value
            env[u(st.targets[0])] = ev(st.value, env)
        elif isinstance(st, ast.For) and isinstance(st.target, (ast.Name, ast.Tuple)):
            # finite iteration over a small concrete value (string / tuple / list), with break / else
            seq = list(ev(st.iter, env))
            if len(seq) > 64:
                raise Unsupported('long iteration')
            broke = False
            for item in seq:
                if isinstance(st.target, ast.Name):
                    env[st.target.id] = item
                else:
                    for e, v in zip(st.target.elts, item):
                        env[e.id] = v
                try:
                    run_stmts(st.body, env)
                except Continued:
                    continue
                except Broke:
                    broke = True
                    break
            if not broke:
                run_stmts(st.orelse, env)
        elif isinstance(st, ast.AugAssign) and isinstance(st.target, ast.Subscript):
            box = ev(st.target.value, env)
            key = ev(st.target.slice, env)
            box[key] = ev(ast.BinOp(left=ast.Constant(value=box[key]), op=st.op, right=st.value), env) if isinstance(box[key], (int, float, str, bool, type(None))) \
                else _binop(st.op, box[key], ev(st.value, env))
        elif isinstance(st, ast.AugAssign) and isinstance(st.target, ast.Name):
            env[st.target.id] = ev(ast.BinOp(left=ast.Name(id=st.target.id, ctx=ast.Load()), op=st.op, right=st.value), env)
        elif isinstance(st, ast.Expr) and isinstance(st.value, ast.Call) and isinstance(st.value.func, ast.Attribute) and \
                st.value.func.attr in ('add', 'append', 'update', 'discard', 'setdefault', 'pop', 'extend', 'remove'):
            ev(st.value, env)
        elif isinstance(st, ast.Try) and not st.finalbody:
            try:
                run_stmts(st.body, env)
            except (Returned, Broke, Continued, Unsupported):
                raise
            except Exception as err:  # pylint: disable=broad-except
                for h in st.handlers:
                    names = [] if h.type is None else [u(e).split('.')[-1] for e in (h.type.elts if isinstance(h.type, ast.Tuple) else [h.type])]
                    raised_name = str(err.args[0]).split('(')[0].split('.')[-1] if isinstance(err, Raised) and err.args else None
                    if h.type is None or any(n in [c.__name__ for c in type(err).__mro__] for n in names) or (raised_name is not None and (raised_name in names or 'Exception' in names)):
                        if h.name:
                            env[h.name] = err
                        run_stmts(h.body, env)
                        break
                else:
                    raise
            else:
                run_stmts(st.orelse, env)
        elif isinstance(st, ast.Expr) and isinstance(st.value, ast.Yield):
            # a generator is interpreted eagerly: its values are collected in order
            env.setdefault('__yield__', []).append(ev(st.value.value, env) if st.value.value is not None else None)
        elif isinstance(st, ast.FunctionDef) and not st.decorator_list:
            # a local helper: a closure over the current environment
            def closure(*args, _st=st, _env=env, **kwargs):
                local = dict(_env)
                local.pop('__yield__', None)
                params = [a.arg for a in _st.args.posonlyargs + _st.args.args]
                if len(args) > len(params) and not _st.args.vararg:
                    raise Unsupported('call arity')
                defaults = dict(zip(params[len(params) - len(_st.args.defaults):], _st.args.defaults)) if _st.args.defaults else {}
                for p_, d_ in defaults.items():
                    local[p_] = ev(d_, _env)
                for a_, d_ in zip(_st.args.kwonlyargs, _st.args.kw_defaults):
                    if d_ is not None:
                        local[a_.arg] = ev(d_, _env)
                local.update(zip(params, args))
                if _st.args.vararg:
                    local[_st.args.vararg.arg] = tuple(args[len(params):])
                named = set(params) | {a_.arg for a_ in _st.args.kwonlyargs}
                extra = {k_: v_ for k_, v_ in kwargs.items() if k_ not in named}
                if extra and not _st.args.kwarg:
                    raise Unsupported('call arity')
                local.update({k_: v_ for k_, v_ in kwargs.items() if k_ in named})
                if _st.args.kwarg:
                    local[_st.args.kwarg.arg] = extra
                if any(p_ not in local for p_ in params):
                    raise Unsupported('call arity')
                is_gen = any(isinstance(n_, (ast.Yield, ast.YieldFrom)) for b_ in _st.body for n_ in ast.walk(b_))
                try:
                    run_stmts(_st.body, local)
                except Returned as r:
                    if r.value is not None and isinstance(r.value, tuple) and len(r.value) == 2 and r.value[0] == 'raise':
                        if is_gen and local.get('__yield__'):
                            # a generator is interpreted eagerly: what it yielded before it raised is what a consumer that takes the first items (`next(..)`) sees
                            return list(local['__yield__'])
                        raise Raised(r.value[1])
                    return list(local.get('__yield__', [])) if is_gen else r.value
                return list(local.get('__yield__', [])) if is_gen else None
            env[st.name] = closure
        elif isinstance(st, ast.Delete) and all(isinstance(t, ast.Subscript) and isinstance(t.value, (ast.Name, ast.Attribute)) for t in st.targets):
            for t in st.targets:
                del ev(t.value, env)[ev(t.slice, env)]
        elif isinstance(st, ast.While):
            # bounded: a loop that has not finished after 64 rounds is outside the small domain
            rounds = 0
            broke = False
            while ev(st.test, env):
                rounds += 1
                if rounds > 64:
                    raise Unsupported('long iteration')
                try:
                    run_stmts(st.body, env)
                except Continued:
                    continue
                except Broke:
                    broke = True
                    break
            if not broke:
                run_stmts(st.orelse, env)
        elif isinstance(st, ast.Expr) and isinstance(st.value, ast.Call):
            ev(st.value, env)        # a call for its effect (a recorder put into the environment, a method of a stand-in object)
        elif isinstance(st, ast.Break):
            raise Broke()
        elif isinstance(st, ast.Continue):
            raise Continued()
        elif isinstance(st, ast.Pass):
            continue
        elif isinstance(st, ast.Raise):
            raise Returned(('raise', u(st.exc)[:60] if st.exc is not None else ''))
        else:
            raise Unsupported('statement ' + type(st).__name__)


def call(stmts, env):
    """Interpret a statement list; returns the returned value (None when falling off the end)."""
    try:
        run_stmts(stmts, dict(env))
    except Returned as r:
        return r.value
    return None
