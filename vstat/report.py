"""E8 -- obligations, violations, known findings, evidence."""
import json
import os
import time

from .index import AnalysisError

VERIF = os.path.dirname(os.path.dirname(os.path.abspath(__file__)))


class Check:
    """Collects the rule instances (obligations) of one property run."""

    def __init__(self, prop, index, tier='quick', seed=0):
        self.prop = prop
        self.index = index
        self.tier = tier
        self.seed = seed
        self.t0 = time.time()
        self.obligations = []   # dict(rule, where, key, ok, detail)
        self.notes = []
        self.assumptions = []
        self.extra = {}
        self.functions_analysed = set()
        self.vacuous = []

    # -- recording ------------------------------------------------------------
    def ob(self, rule, where, ok, detail, key=None):
        """Record one rule instance.  `key` identifies the construct for the
        known-findings file (stable under line shifts)."""
        entry = {'rule': rule, 'where': where, 'ok': bool(ok), 'detail': detail,
                 'key': key or '{}|{}'.format(rule, detail)}
        self.obligations.append(entry)
        return bool(ok)

    def note(self, text):
        self.notes.append(text)

    def assume(self, text):
        if text not in self.assumptions:
            self.assumptions.append(text)

    def need(self, cond, what):
        """An anchor the rule needs; its absence is an analysis error, never a
        silent pass."""
        if not cond:
            raise AnalysisError(what)
        return cond

    def analysed(self, module, fn):
        self.functions_analysed.add('{}::{}'.format(module.rel, module.qualname_of(fn) if hasattr(fn, 'name') else fn))

    def expect_count(self, rule, measured, minimum):
        """Vacuity guard: a rule matching fewer instances than confirmed by
        hand is an analysis error."""
        if measured < minimum:
            # reported at the end: a violation found elsewhere is not masked by this
            self.vacuous.append('rule {} matched {} instance(s), at least {} were confirmed by hand '
                                '-- refusing a vacuous pass'.format(rule, measured, minimum))


def load_known():
    path = os.path.join(VERIF, 'known_findings.json')
    with open(path) as handle:
        data = json.load(handle)
    return data


def finish(check, out=print):
    """Print verdict lines, write evidence, return exit status."""
    known = load_known()
    known_keys = {}
    for entry in known.get('known', []):
        if entry['property'] == check.prop:
            known_keys[entry['key']] = entry
    failed = [o for o in check.obligations if not o['ok']]
    status = 0
    seen_known = set()
    nviol = 0
    os.makedirs(os.path.join(VERIF, 'evidence'), exist_ok=True)
    os.makedirs(os.path.join(VERIF, 'replay'), exist_ok=True)
    for o in failed:
        if o['key'] in known_keys:
            if o['key'] not in seen_known:
                seen_known.add(o['key'])
                out('KNOWN-FINDING: property={} {} [{} at {}] {}'.format(
                    check.prop, known_keys[o['key']]['what'], o['rule'], o['where'], o['detail']))
            continue
        nviol += 1
        status = 1
        replay = os.path.join(VERIF, 'replay', '{}_{}.json'.format(check.prop, nviol))
        if check.index.root != '/repo':
            replay = os.devnull
        with open(replay, 'w') as handle:
            json.dump({'property': check.prop, 'rule': o['rule'], 'where': o['where'],
                       'key': o['key'], 'detail': o['detail'], 'root': check.index.root,
                       'replay': './vcheck {} --root {}'.format(check.prop, check.index.root)}, handle, indent=1)
        out('FAILED-OBLIGATION rule={} at {}: {}'.format(o['rule'], o['where'], o['detail']))
        out('VIOLATION property={} replay={}'.format(check.prop, replay))
    for note in check.notes:
        out('NOTE: ' + note)
    nob = len(check.obligations)
    ndis = nob - len(failed)
    distinct = len({o['key'] for o in check.obligations})
    samples = [{'rule': o['rule'], 'where': o['where'], 'verdict': 'discharged' if o['ok'] else
                ('known-finding' if o['key'] in known_keys else 'VIOLATED'), 'detail': o['detail'][:300]}
               for o in check.obligations]
    # keep the evidence readable: all failed + a spread of discharged ones
    shown = [s for s in samples if s['verdict'] != 'discharged'] + \
            [s for s in samples if s['verdict'] == 'discharged'][:60]
    rules = sorted({o['rule'] for o in check.obligations})
    evidence = {
        'property_id': check.prop,
        'tier': check.tier,
        'seed': int(check.seed),
        'level': 'other',
        'coverage': {
            'explanation': ('Static analysis (stdlib ast) of the source under {root}: {nob} rule instances '
                            '(obligations) of rules {rules} were evaluated on {nfun} functions; {ndis} discharged, '
                            '{nk} known finding(s), {nv} violation(s). Decides the structural clauses named in '
                            'MANIFEST level_note, not the behaviour as a whole.').format(
                                root=check.index.root, nob=nob, rules=rules, nfun=len(check.functions_analysed),
                                ndis=ndis, nk=len(seen_known), nv=nviol),
            'obligations': nob,
            'discharged': ndis,
            'evaluations': nob,
            'distinct_nontrivial': distinct,
            'rule': 'one evaluation = one rule instance on one construct of the current source; distinct = distinct '
                    '(rule, construct) keys; every instance is non-trivial in that it names a located construct',
            'samples': shown,
            'rules': rules,
            'functions_analysed': sorted(check.functions_analysed),
            'known_findings_reported': sorted(seen_known),
            'notes': check.notes,
            'checker_cmd': './vcheck {} --tier {}'.format(check.prop, check.tier),
            'trusted_base': ['python ast parser', 'vstat engine', 'anchor tables in vstat/rules'],
            'exhaustive': False,
        },
        'assumptions': check.assumptions,
        'wall_s': round(time.time() - check.t0, 3),
        'violations': nviol,
    }
    evidence['coverage'].update(check.index.stats())
    evidence['coverage'].update(check.extra)
    if check.index.root == '/repo' or os.environ.get('VSTAT_WRITE_EVIDENCE'):
        with open(os.path.join(VERIF, 'evidence', check.prop + '.json'), 'w') as handle:
            json.dump(evidence, handle, indent=1, default=str)
    out('SUMMARY property={} tier={} obligations={} discharged={} known={} violations={} functions={} wall={}s'.format(
        check.prop, check.tier, nob, ndis, len(seen_known), nviol, len(check.functions_analysed),
        evidence['wall_s']))
    if status == 0 and check.vacuous:
        for msg in check.vacuous:
            out('ANALYSIS-ERROR property={} {}'.format(check.prop, msg))
        return 2
    return status
