"""Per-property rule sets.  get('C16') -> callable(check)."""
import importlib

from ..index import AnalysisError

CLAIMED = ['C01', 'C02', 'C03', 'C04', 'C05', 'C07', 'C08', 'C09', 'C10', 'C11', 'C12', 'C13', 'C14', 'C15',
           'C16', 'C17', 'C18', 'C19']


def get(prop):
    if prop not in CLAIMED:
        raise AnalysisError('property {} is not claimed (see MANIFEST not_applicable)'.format(prop))
    try:
        mod = importlib.import_module('vstat.rules.' + prop.lower())
    except ModuleNotFoundError:
        raise AnalysisError('rule set for {} is not armed'.format(prop))
    return with_state_lint(prop, mod.run)


ANCHOR_FILES = {'C01': ['vermouth/processors/do_mapping.py', 'vermouth/map_parser.py', 'vermouth/molecule.py', 'vermouth/graph_utils.py'], 'C02': ['vermouth/gmx/itp.py', 'vermouth/molecule.py'], 'C03': ['vermouth/pdb/pdb.py', 'vermouth/gmx/itp.py', 'vermouth/gmx/topology.py', 'vermouth/gmx/gro.py', 'vermouth/processors/name_moltype.py', 'vermouth/processors/sort_molecule_atoms.py', 'vermouth/molecule.py'], 'C04': ['vermouth/processors/repair_graph.py', 'vermouth/ismags.py', 'vermouth/graph_utils.py', 'vermouth/processors/annotate_mut_mod.py'], 'C05': ['vermouth/processors/do_links.py', 'vermouth/molecule.py', 'vermouth/ffinput.py'], 'C06': ['vermouth/ismags.py', 'vermouth/graph_utils.py'], 'C07': ['vermouth/file_writer.py', 'bin/martinize2', 'vermouth/log_helpers.py', 'vermouth/gmx/topology.py', 'vermouth/pdb/pdb.py', 'vermouth/gmx/gro.py', 'vermouth/dssp/dssp.py', 'vermouth/rcsu/contact_map.py'], 'C08': ['vermouth/log_helpers.py', 'bin/martinize2'], 'C09': ['vermouth/processors/average_beads.py', 'vermouth/processors/do_mapping.py'], 'C10': ['vermouth/processors/make_bonds.py', 'vermouth/graph_utils.py'], 'C11': ['bin/martinize2', 'vermouth/processors/make_bonds.py', 'vermouth/processors/repair_graph.py', 'vermouth/processors/canonicalize_modifications.py', 'vermouth/processors/do_mapping.py', 'vermouth/processors/do_links.py', 'vermouth/processors/apply_rubber_band.py', 'vermouth/processors/sort_molecule_atoms.py', 'vermouth/pdb/pdb.py'], 'C12': ['vermouth/molecule.py', 'vermouth/system.py', 'vermouth/processors/merge_chains.py', 'vermouth/processors/merge_all_molecules.py', 'vermouth/edge_tuning.py'], 'C13': ['vermouth/ffinput.py', 'vermouth/parser_utils.py', 'vermouth/gmx/itp_read.py', 'vermouth/map_input.py', 'vermouth/map_parser.py', 'vermouth/forcefield.py'], 'C14': ['vermouth/processors/canonicalize_modifications.py', 'vermouth/processors/repair_graph.py', 'vermouth/ffinput.py'], 'C15': ['vermouth/processors/apply_rubber_band.py', 'vermouth/graph_utils.py', 'vermouth/selectors.py'], 'C16': ['vermouth/pdb/pdb.py', 'vermouth/gmx/gro.py', 'vermouth/truncating_formatter.py', 'vermouth/processors/pdb_reader.py', 'vermouth/processors/gro_reader.py'], 'C17': ['vermouth/dssp/dssp.py', 'vermouth/molecule.py', 'vermouth/graph_utils.py', 'vermouth/selectors.py'], 'C18': ['vermouth/rcsu/go_vs_includes.py', 'vermouth/rcsu/go_structure_bias.py', 'vermouth/rcsu/go_utils.py', 'vermouth/rcsu/contact_map.py', 'vermouth/rcsu/go_pipeline.py', 'vermouth/gmx/topology.py'], 'C19': ['vermouth/processors/annotate_mut_mod.py', 'vermouth/processors/repair_graph.py', 'vermouth/graph_utils.py', 'bin/martinize2']}


def with_state_lint(prop, run):
    """Every property also runs the state lint over the files it is anchored in."""
    def wrapped(check):
        from ..index import AnalysisError
        pending = None
        try:
            run(check)
        except AnalysisError as err:
            # a clause rule lost its anchor: the shared lints and the helper contracts are still evaluated (they do not depend on it), then the error is raised
            pending = err
        from . import shared
        rels = [f for f in ANCHOR_FILES.get(prop, []) if f in check.index.modules]
        if rels:
            shared.no_new_state(check, rels)
            shared.arg_binding(check, rels)
            shared.edge_orientation(check, rels)
            shared.handlers_unchanged(check, rels)
            shared.copy_source_untouched(check, rels)
            shared.no_identity_on_values(check, rels)
            shared.no_store_unless_present(check, rels)
            shared.residue_identity(check, rels)
            shared.no_param_inplace_update(check, rels)
            shared.local_memo_tables(check, rels)
            shared.no_live_view_in_mutating_loop(check, rels)
            shared.no_shared_object_filled_per_iteration(check, rels)
            shared.no_reused_one_shot_iterator(check, rels)
            shared.attribute_view_sites(check, rels)
            shared.no_lazy_instance_memo(check, rels)
        from . import helpers
        try:
            helpers.helper_contracts(check)
        except AnalysisError:
            if pending is None:
                raise
        if pending is not None:
            raise pending
    return wrapped
