"""Per-property rule sets.  get('C16') -> callable(check)."""
import importlib

from ..index import AnalysisError

CLAIMED = ['C01', 'C02', 'C03', 'C04', 'C05', 'C07', 'C08', 'C09', 'C10', 'C11', 'C12', 'C13', 'C14', 'C15',
           'C16', 'C17', 'C18', 'C19']


def get(prop):
    if prop not in CLAIMED:
        raise AnalysisError('property {} is not claimed (see MANIFEST not_applicable)'.format(prop))
    try:
        mod = importlib.import_module('vstat.rules.' + prop.lower())
    except ModuleNotFoundError:
        raise AnalysisError('rule set for {} is not armed'.format(prop))
    return mod.run
