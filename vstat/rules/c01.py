"""C01 -- resolution transformation conserves atoms, residues and connectivity."""
import ast

from ..index import u, call_name, call_attr, walk_local, base_name
from .. import flow, interp
from ..fold import try_fold
from ..util import canon_comprehension, stmts_with_env, calls_with_env, assignments_to, single_def, kwarg, param_names, is_log_call, log_type, loops_around
from .common import method, unconditional_in
from .c09 import constituents_rule
from . import shared

DM = 'vermouth/processors/do_mapping.py'


def weight_rules(ck):
    """The weights recorded for a particle are the mapping's own (shared with C09)."""
    mod = ck.index.mod(DM)
    abm = mod.func('apply_block_mapping')
    amm = mod.func('apply_mod_mapping')
    ck.analysed(mod, abm)
    ck.analysed(mod, amm)
    # ------------------------------------------------------------ every atom of a placement enters the table, with the placement's weights
    stores = [s for s in ast.walk(abm) if isinstance(s, ast.Assign) and isinstance(s.targets[0], ast.Subscript) and base_name(s.targets[0]) in ('mol_to_out', 'out_to_mol')]
    m2b = 'mol_to_block'
    floop = [n for n in abm.body if isinstance(n, ast.For) and u(n.iter) == m2b]
    ok = len(floop) == 1
    if ok:
        fl = floop[0]
        mv = u(fl.target)
        inner = [n for n in fl.body if isinstance(n, ast.For)]
        ok = len(inner) == 1 and u(inner[0].iter) == '{}[{}].items()'.format(m2b, mv) and len(fl.body) == 1
        if ok:
            bv, wv = [u(e) for e in inner[0].target.elts]
            body = inner[0].body
            od = [s for s in body if isinstance(s, ast.Assign) and u(s.targets[0]) == 'out_idx']
            s1 = [s for s in body if isinstance(s, ast.Assign) and u(s.targets[0]) == 'mol_to_out[{}][out_idx]'.format(mv) and u(s.value) == wv]
            s2 = [s for s in body if isinstance(s, ast.Assign) and u(s.targets[0]) == 'out_to_mol[out_idx][{}]'.format(mv) and u(s.value) == wv]
            ok = len(od) == 1 and u(od[0].value) == 'block_to_out[{}]'.format(bv) and len(s1) == 1 and len(s2) == 1 and \
                all(unconditional_in(abm, body, s) for s in (od[0], s1[0], s2[0]))
    ck.ob('PROV-weights', mod.loc(abm), ok, 'for every atom of the placement and every particle it maps to, both tables receive the placement\'s own weight under the merged particle key, unconditionally',
          key='PROV-weights|block')
    # mod mapping weights
    ml = [n for n in amm.body if isinstance(n, ast.For) and u(n.iter) == 'mol_to_mod']
    ok = len(ml) == 1
    if ok:
        inner = [n for n in ml[0].body if isinstance(n, ast.For)]
        ok = len(inner) == 1 and u(inner[0].iter) == 'mol_to_mod[{}].items()'.format(u(ml[0].target))
        if ok:
            body = inner[0].body
            bv, wv = [u(e) for e in inner[0].target.elts]
            s1 = [s for s in body if isinstance(s, ast.Assign) and u(s.targets[0]) == 'mol_to_out[{}][out_idx]'.format(u(ml[0].target)) and u(s.value) == wv]
            s2 = [s for s in body if isinstance(s, ast.Assign) and u(s.targets[0]) == 'out_to_mol[out_idx][{}]'.format(u(ml[0].target)) and u(s.value) == wv]
            od = [s for s in body if isinstance(s, ast.Assign) and u(s.targets[0]) == 'out_idx' and u(s.value) == 'mod_to_out[{}]'.format(bv)]
            ok = len(s1) == 1 and len(s2) == 1 and len(od) == 1 and all(unconditional_in(amm, body, s) for s in (s1[0], s2[0], od[0]))
    ck.ob('PROV-weights', mod.loc(amm), ok, 'modification mappings record their weights in both tables the same way', key='PROV-weights|modification')
    placement_weights_rule(ck)


def placement_weights_rule(ck):
    """Mapping._graph_map: a placement hands on, for every matched atom, the atom's *whole* table of (particle -> weight) -- an atom shared between
    particles keeps all its particles.  The statements that build the placement are interpreted on a sample match with a shared atom."""
    import collections
    mp = ck.index.mod('vermouth/map_parser.py')
    fn = mp.func('Mapping._graph_map')
    ck.analysed(mp, fn)
    loops = [s for s in fn.body if isinstance(s, ast.For) and 'isomorphisms' in u(s.iter)]
    ok = len(loops) == 1
    detail = 'the loop over the matches was not found'
    if ok:
        ys = [n for n in ast.walk(loops[0]) if isinstance(n, ast.Yield)]
        ok = len(ys) == 1 and isinstance(ys[0].value, ast.Tuple) and len(ys[0].value.elts) == 3
        detail = 'the placement is not yielded as (weights, block, references)'
        if ok:
            body = [s for s in loops[0].body if not any(n is ys[0] for n in ast.walk(s))]
            env = {u(loops[0].target): {10: 'a', 11: 'b', 12: 'c'}, 'self.mapping': {'a': {1: 0.5, 2: 0.5}, 'b': {2: 1.0}, 'c': {3: 0}}, 'self.references': {},
                   'defaultdict': collections.defaultdict, 'collections.defaultdict': collections.defaultdict}
            try:
                interp.run_stmts(body, env)
                got = interp.ev(ys[0].value.elts[0], env)
                got = {k: dict(v) for k, v in dict(got).items()}
                ok = got == {10: {1: 0.5, 2: 0.5}, 11: {2: 1.0}, 12: {3: 0}}
                detail = 'sample match gives {}'.format(got)
            except interp.Unsupported as err:
                ok, detail = False, 'code outside the interpretable fragment: {}'.format(err)
            except Exception as err:  # pylint: disable=broad-except
                ok, detail = False, 'interpreting the sample failed: {}: {}'.format(type(err).__name__, err)
    ck.ob('PROV-weights', mp.loc(fn), ok, 'a placement carries, for every matched atom, all the particles that atom contributes to with their weights (zero weights included) -- ' + detail,
          key='PROV-weights|placement')


def run(ck):
    idx = ck.index
    mod = idx.mod(DM)
    fn = mod.func('do_mapping')
    abm = mod.func('apply_block_mapping')
    amm = mod.func('apply_mod_mapping')
    for f in (fn, abm, amm):
        ck.analysed(mod, f)
    molp = param_names(fn)[0]

    # ------------------------------------------------------------ no silent vanish
    logs = [(c, st, cond, env) for c, st, cond, env in calls_with_env(fn, lambda c: is_log_call(c, ('debug', 'info', 'warning', 'error', 'critical')))
            if log_type(c) == 'unmapped-atom']
    warn = [x for x in logs if call_attr(x[0]) in ('warning', 'error', 'critical')]
    ck.ob('MPT-unmapped', mod.loc(fn), len(warn) == 1, 'one unmapped-atom report at WARNING level or above in do_mapping ({} found; {} at lower levels)'.format(
        len(warn), len(logs) - len(warn)), key='MPT-unmapped|level')
    table = 'mol_to_out'
    if len(warn) == 1:
        call, st, cond, env = warn[0]
        # definitions the guard is built from
        unc = single_def(fn, 'uncovered_atoms')
        hyd = single_def(fn, 'uncovered_hydrogens')
        oth = single_def(fn, 'other_uncovered')
        ok_defs = (unc is not None and u(unc) == 'set({0}.nodes.keys()) - set({1}.keys())'.format(molp, table)
                   and hyd is not None and isinstance(hyd, ast.SetComp) and u(hyd.generators[0].iter) == 'uncovered_atoms'
                   and [u(c) for c in hyd.generators[0].ifs] == ["{}.nodes[{}].get('element', '') == 'H'".format(molp, u(hyd.generators[0].target))]
                   and u(hyd.elt) == u(hyd.generators[0].target)
                   and oth is not None and u(oth) == 'uncovered_atoms - uncovered_hydrogens')
        ck.ob('MPT-unmapped', mod.loc(st), ok_defs,
              'the reported set is (all input atoms) minus (atoms in the atom -> particle table) minus (those whose element is H)', key='MPT-unmapped|set')
        atoms = flow.atoms_of(cond)
        # the guard is only emptiness tests of those sets
        ok_guard = all(k[0] == 'truth' for k in atoms) and len(atoms) == 2 and \
            flow.equivalent(cond, flow.AND(*[('atom', k) for k in atoms]))[0] and \
            {k[1] for k in atoms} == {u(flow.subst(ast.Name(id='uncovered_atoms', ctx=ast.Load()), env)),
                                      u(flow.subst(ast.Name(id='other_uncovered', ctx=ast.Load()), env))}
        ck.ob('MPT-unmapped', mod.loc(st), ok_guard, 'the report is issued exactly when that set is non-empty (guard {})'.format(flow.show(cond)[:160]), key='MPT-unmapped|guard')
        msg_args = [a for a in call.args[1:]]
        ok_args = any('other_uncovered' in u(a) for a in msg_args)
        ck.ob('MPT-unmapped', mod.loc(st), ok_args, 'the report lists those atoms', key='MPT-unmapped|lists')
        # not skippable: no return before it, and the enclosing ifs are top-level statements
        top = next((s for s in fn.body if any(n is st for n in ast.walk(s))), None)
        before = [s for s in fn.body[:fn.body.index(top)]] if top is not None else []
        early = [n for s in before for n in ast.walk(s) if isinstance(n, ast.Return)]
        ck.ob('MPT-unmapped', mod.loc(st), top is not None and not early, 'no return can skip the check ({} early return(s) before it)'.format(len(early)), key='MPT-unmapped|unskippable')
    # the table is a defaultdict: a subscript read with a key that is not in it would insert the key and hide an uncovered atom
    tdef = single_def(fn, table)
    is_dd = tdef is not None and call_name(tdef) in ('defaultdict', 'collections.defaultdict')
    loops_apply = [n for n in fn.body if isinstance(n, ast.While)]
    merge_loops = [n for n in fn.body if isinstance(n, ast.For) and isinstance(n.iter, ast.Call) and (call_name(n.iter) or '').split('.')[-1] == 'merge']
    ck.need(len(loops_apply) + len(merge_loops) == 1, 'do_mapping: the match application loop (a while over the two sorted lists, or a for over their merge) not found')
    wl = (loops_apply + merge_loops)[0]
    if merge_loops:
        # heapq.merge is stable in argument order: on equal keys the first sequence wins, and that must be the blocks (a modification is applied after
        # the block that creates the particle it is anchored on)
        margs = [single_def(fn, a.id) if isinstance(a, ast.Name) else a for a in wl.iter.args]
        first_block = len(margs) == 2 and all(m is not None for m in margs) and 'block_sort_key' in u(margs[0]) and 'mod_sort_key' in u(margs[1])
        ck.ob('MPT-one-copy', mod.loc(wl), first_block, 'the merged walk takes the block placement first when a block and a modification placement have the same key '
              '(`{}`)'.format(u(wl.iter)[:80]), key='MPT-one-copy|tie-break')
    after = fn.body[fn.body.index(wl) + 1:]
    nreads = 0
    SAFE_ITERABLES = {table, table + '.keys()', 'overlapping_mappings', 'edges'}
    for s in after:
        for n in ast.walk(s):
            if isinstance(n, ast.Subscript) and isinstance(n.ctx, ast.Load) and u(n.value) == table:
                nreads += 1
                key = n.slice
                src = None
                if isinstance(key, ast.Name):
                    # loop or comprehension that binds the key
                    for anc in mod.ancestors(n):
                        if isinstance(anc, ast.For) and key.id in [x.id for x in ast.walk(anc.target) if isinstance(x, ast.Name)]:
                            src = u(anc.iter)
                            break
                        if isinstance(anc, (ast.ListComp, ast.SetComp, ast.GeneratorExp, ast.DictComp)):
                            for g in anc.generators:
                                if key.id in [x.id for x in ast.walk(g.target) if isinstance(x, ast.Name)]:
                                    src = u(g.iter)
                            if src:
                                break
                ok = not is_dd or src in SAFE_ITERABLES
                ck.ob('PROV-table-read', mod.loc(n), ok,
                      '`{}` reads the atom -> particle table (a defaultdict) with a key drawn from `{}`: keys known to be in the table, so the read cannot insert one'.format(u(n), src),
                      key='PROV-table-read|' + str(src))
    ck.expect_count('PROV-table-read sites', nreads, 3)
    edefs = [v for v in assignments_to(fn, 'edges')]
    ck.ob('PROV-table-read', mod.loc(fn), len(edefs) == 1 and u(edefs[0]) == '{}.edges_between(match1.keys(), match2.keys())'.format(molp),
          '`edges` holds input bonds between atoms of two applied placements (both ends are in the table)', key='PROV-table-read|edges-def')

    weight_rules(ck)
    m2b = 'mol_to_block'
    floop = [n for n in abm.body if isinstance(n, ast.For) and u(n.iter) == m2b]
    merges = calls_with_env(abm, lambda c: call_attr(c) == 'merge_molecule')
    ok = len(merges) == 1 and not [l for l in mod.ancestors(merges[0][0]) if isinstance(l, (ast.For, ast.While))] and u(merges[0][0].args[0]) == 'blocks_to' \
        and u(merges[0][0].func.value) == 'graph_out'
    b2o = single_def(abm, 'block_to_out')
    ok = ok and b2o is merges[0][0]
    ck.ob('MPT-one-copy', mod.loc(abm), ok, 'apply_block_mapping merges the target block into the output exactly once (not in a loop) and keys everything by the returned correspondence',
          key='MPT-one-copy|merge')
    un = [s for s in abm.body if isinstance(s, ast.Assign) and isinstance(s.targets[0], ast.Tuple) and u(s.value) == 'match']
    ck.ob('MPT-one-copy', mod.loc(abm), len(un) == 1 and [u(e) for e in un[0].targets[0].elts] == [m2b, 'blocks_to', 'references'],
          'the placement is (atom -> block atom weights, block, references)', key='MPT-one-copy|match-shape')
    # spawned particles
    adds = stmts_with_env(abm, lambda s: isinstance(s, ast.Expr) and call_attr(s.value) == 'add' and 'none_to_one' in u(s))
    ok = len(adds) == 1
    if ok:
        st, c, e = adds[0]
        lp = mod.enclosing(st, ast.For)
        arg = u(st.value.args[0])
        conv = [s for s in (lp.body if lp is not None else []) if isinstance(s, ast.Assign) and u(s.targets[0]) == arg and u(s.value) == 'block_to_out[{}]'.format(u(lp.target))]
        val = u(flow.subst(st.value.args[0], e))
        ok = (val.startswith('block_to_out[') or (len(conv) == 1 and lp.body.index(conv[0]) < lp.body.index(st) and unconditional_in(abm, lp.body, conv[0]))) and lp is not None and u(lp.iter) == 'set(blocks_to.nodes) - mapped_block_idxs' and unconditional_in(abm, lp.body, st)
        zeros = [s for s in ast.walk(lp) if isinstance(s, ast.Assign) and try_fold(s.value, default=1) == 0 and base_name(s.targets[0]) in ('mol_to_out', 'out_to_mol')]
        ok = ok and len(zeros) == 2
    rets = [s for s in abm.body if isinstance(s, ast.Return)]
    ok = ok and len(rets) == 1 and [u(e) for e in rets[0].value.elts] == ['overlap', 'none_to_one_mappings', 'new_references']
    ck.ob('PROV-weights', mod.loc(abm), ok, 'particles built from no atom are recorded by their key in the output molecule (the merged key), with weight 0 for the atoms of the placement',
          key='PROV-weights|spawned')
    mbi = single_def(abm, 'mapped_block_idxs')
    ck.ob('PROV-weights', mod.loc(abm), mbi is not None and canon_comprehension(mbi) == canon_comprehension('{block_idx for mol_idx in mol_to_block for block_idx in mol_to_block[mol_idx]}'),
          '"built from no atom" means: block atoms that no atom of the placement maps to', key='PROV-weights|spawned-def')
    # overlap: computed before the table is updated
    ov = [s for s in abm.body if isinstance(s, ast.Assign) and u(s.targets[0]) == 'overlap']
    ok = len(ov) == 1 and u(ov[0].value) == 'set(mol_to_out.keys()) & set({}.keys())'.format(m2b) and floop and abm.body.index(ov[0]) < abm.body.index(floop[0])
    ck.ob('PROV-overlap', mod.loc(abm), ok, 'overlap = atoms already in the table that the new placement also covers, computed before the table is updated', key='PROV-overlap|computed')
    ologs = [(c, st, cond, env) for c, st, cond, env in calls_with_env(fn, lambda c: is_log_call(c, ('warning', 'error', 'critical')))
             if log_type(c) == 'inconsistent-data' and 'overlapping_mappings' in u(st)]
    ok = len(ologs) == 1 and flow.equivalent(ologs[0][2], ('atom', ('truth', 'overlapping_mappings')))[0] and any(ologs[0][1] is n for s in fn.body for n in ast.walk(s))
    upd = calls_with_env(fn, lambda c: call_attr(c) == 'update' and u(c.func.value) == 'overlapping_mappings')
    ok = ok and len(upd) == 1 and u(upd[0][0].args[0]) == 'overlap'
    ck.ob('PROV-overlap', mod.loc(fn), ok, 'overlapping placements raise an inconsistent-data warning exactly when some overlap was returned', key='PROV-overlap|warning')

    # ------------------------------------------------------------ one copy per placement, in order
    paths = flow.paths(wl.body)
    ok = True
    detail = []
    for events, kind in paths:
        pops = [e for e in events if isinstance(e, ast.AST) and any(isinstance(c, ast.Call) and call_attr(c) == 'pop' for c in ast.walk(e))]
        applies = [e for e in events if isinstance(e, ast.AST) and any(isinstance(c, ast.Call) and call_name(c) in ('apply_block_mapping', 'apply_mod_mapping') for c in ast.walk(e))]
        appended = [e for e in events if isinstance(e, ast.Expr) and call_attr(e.value) == 'append' and u(e.value.func.value) == 'all_matches']
        detail.append((len(pops), len(applies), len(appended), kind))
        ok = ok and len(pops) == (1 if isinstance(wl, ast.While) else 0) and len(applies) == 1 and len(appended) == 1 and kind == 'fall'
        if pops and applies:
            which = 'block' if 'block_matches.pop' in u(pops[0]) else 'mod'
            ok = ok and (('apply_block_mapping' in u(applies[0])) == (which == 'block')) and u(pops[0].value.args[0] if isinstance(pops[0], ast.Assign) else ast.Constant(-1)) == '-1'
    ck.ob('MPT-one-copy', mod.loc(wl), ok and len(paths) == 2, 'every pass of the application loop takes exactly one placement off one work list, applies it once and records it '
          '(paths: {})'.format(detail), key='MPT-one-copy|loop')
    ck.ob('MPT-one-copy', mod.loc(wl), isinstance(wl, ast.While) and u(wl.test) == 'block_matches or mod_matches' or (isinstance(wl, ast.For) and not
          any(isinstance(n_, ast.Break) for n_ in ast.walk(wl))), 'the loop runs until both work lists are empty', key='MPT-one-copy|exhaust')
    srt = {u(s.targets[0]): s.value for s in fn.body if isinstance(s, ast.Assign) and isinstance(s.value, ast.Call) and call_name(s.value) == 'sorted'}
    ok = set(srt) >= {'block_matches', 'mod_matches'} and all(try_fold(kwarg(v, 'reverse')) is True for v in srt.values()) and \
        u(kwarg(srt['block_matches'], 'key')) == 'block_sort_key' and u(single_def(fn, 'block_sort_key')) == 'lambda x: min(x[0].keys())'
    ck.ob('MPT-one-copy', mod.loc(fn), ok, 'placements are taken in order of their lowest atom key (sorted descending, popped from the end)', key='MPT-one-copy|order')
    msk = single_def(fn, 'mod_sort_key')
    ok = isinstance(msk, ast.Lambda) and isinstance(msk.body, ast.IfExp)
    if ok:
        x = msk.args.args[0].arg
        ok = u(msk.body.body) == 'max({}[0].keys())'.format(x) and u(msk.body.orelse) == 'min({}[0].keys())'.format(x) and \
            'node_should_exist({}[1], idx)'.format(x) in u(msk.body.test) and u(msk.body.test).startswith('any(') and u(kwarg(srt.get('mod_matches'), 'key')) == 'mod_sort_key'
    ck.ob('MPT-one-copy', mod.loc(fn), ok, 'a modification placement that touches existing particles is scheduled by its highest atom key (after the blocks it modifies), '
          'one that only adds atoms by its lowest', key='MPT-one-copy|mod-order')
    bm = [s for s in ast.walk(fn) if isinstance(s, ast.Expr) and call_attr(s.value) == 'extend' and 'block_matches' in u(s)]
    ok = len(bm) == 1 and 'mapping.map(' in u(bm[0])
    if ok:
        rel_loop = mod.enclosing(bm[0], ast.For)
        rel = stmts_with_env(fn, lambda s: s is bm[0], stmts=rel_loop.body)
        ok = u(rel_loop.iter) == 'mappings' and flow.equivalent(rel[0][1], flow.to_formula(ast.parse("mapping.type == 'block'", mode='eval').body))[0]
    ck.ob('MPT-one-copy', mod.loc(fn), ok, 'every place where any block mapping fits becomes a placement (all matches of all block mappings are collected)', key='MPT-one-copy|all-matches')

    # ------------------------------------------------------------ constituents (shared with C09)
    constituents_rule(ck)

    # ------------------------------------------------------------ cross-placement edges
    ae = stmts_with_env(fn, lambda s: isinstance(s, ast.Expr) and call_attr(s.value) == 'add_edge')
    ck.ob('PROV-edges', mod.loc(fn), len(ae) == 1, 'one site connects particles of different placements ({} add_edge site(s) in do_mapping)'.format(len(ae)), key='PROV-edges|site')
    if len(ae) == 1:
        st, cond, env = ae[0]
        loops = [l for l in mod.ancestors(st) if isinstance(l, ast.For)]
        its = [u(l.iter) for l in loops]
        ok = len(loops) == 3 and its[2] == 'combinations(all_matches, 2)' and its[1] == 'edges' and its[0] == 'product(out_idxs, out_jdxs)'
        if ok:
            el = loops[1]
            a, b = [u(e) for e in el.target.elts]
            oi = [s for s in el.body if isinstance(s, ast.Assign) and u(s.targets[0]) in ('out_idxs', 'out_jdxs')]
            vals = {u(s.targets[0]): u(s.value) for s in oi}
            ok = vals == {'out_idxs': 'mol_to_out[{}].keys() - none_to_one_mappings'.format(a), 'out_jdxs': 'mol_to_out[{}].keys() - none_to_one_mappings'.format(b)}
            rel = stmts_with_env(fn, lambda s: s is st, stmts=loops[2].body)
            atoms = flow.atoms_of(rel[0][1])
            ok = ok and len(atoms) == 1 and list(atoms)[0][0] == 'Eq' and set(list(atoms)[0][1:]) == {'out_idx', 'out_jdx'} and \
                [u(x) for x in st.value.args] == ['out_idx', 'out_jdx']
            m12 = [s for s in loops[2].body if isinstance(s, ast.Assign) and u(s.targets[0]) in ('match1', 'match2')]
            ok = ok and {u(s.targets[0]): u(s.value) for s in m12} == {'match1': 'match1[0]', 'match2': 'match2[0]'}
        ck.ob('PROV-edges', mod.loc(st), ok, 'two particles of different placements are connected exactly when an input bond joins an atom of one placement to an atom of the other '
              '(particles built from no atom excepted; no self-edges)', key='PROV-edges|provenance')
    nto = calls_with_env(fn, lambda c: call_attr(c) == 'update' and u(c.func.value) == 'none_to_one_mappings')
    ck.ob('PROV-edges', mod.loc(fn), len(nto) == 1 and u(nto[0][0].args[0]) == 'none_to_one', 'the excepted particles are those apply_block_mapping reported as built from no atom',
          key='PROV-edges|none-to-one')

    # ------------------------------------------------------------ attribute transfer: stash in both branches, per-attribute stores
    aloops = [n for n in fn.body if isinstance(n, ast.For) and u(n.iter) == 'out_to_mol']
    lp = aloops[0]
    ifs = [n for n in lp.body if isinstance(n, ast.If) and 'all_references' in u(n.test)]
    ck.need(len(ifs) == 1, 'do_mapping: reference / no-reference branch not found')
    br = ifs[0]
    for label, arm in (('reference', br.body), ('no-reference', br.orelse)):
        stash = stmts_with_env(fn, lambda s: isinstance(s, ast.Assign) and "'_old_' + attr" in u(s.targets[0]), stmts=arm)
        ok = len(stash) >= 1 and all(any(k[0] == 'In' and k[1] == 'attr' and k[2] == 'attribute_stash' for k in flow.atoms_of(c)) and
                                     flow.implies(c, ('atom', ('In', 'attr', 'attribute_stash')))[0] for s, c, e in stash)
        ck.ob('SIB-stash', mod.loc(br), ok, '{} branch stores "_old_<attr>" for the attributes to stash ({} store(s))'.format(label, len(stash)), key='SIB-stash|' + label)
        # BULK: under a per-attribute test, only that attribute is written
        per = [n for n in ast.walk(ast.Module(body=arm, type_ignores=[])) if isinstance(n, ast.For) and isinstance(n.target, ast.Tuple)
               and u(n.target.elts[0]) == 'attr' and '.items()' in u(n.iter)]
        bulk_bad = []
        nst = 0
        for pl in per:
            for n in ast.walk(pl):
                if isinstance(n, ast.Call) and call_attr(n) == 'update' and 'graph_out.nodes[' in u(n.func.value):
                    bulk_bad.append(u(n))
                if isinstance(n, ast.Assign) and isinstance(n.targets[0], ast.Subscript) and 'graph_out.nodes[' in u(n.targets[0]):
                    nst += 1
                    if 'attr' not in u(n.targets[0].slice):
                        bulk_bad.append(u(n))
        exact = True
        nwith = 0
        for pl in per:
            st_ = stmts_with_env(fn, lambda s: isinstance(s, ast.Assign) and "'_old_' + attr" in u(s.targets[0]), stmts=pl.body)
            if not st_:
                continue
            nwith += 1
            any_ = flow.OR(*[c for s, c, e in st_])
            exact = exact and flow.equivalent(any_, ('atom', ('In', 'attr', 'attribute_stash')))[0]
        exact = exact and nwith == 1
        ck.ob('SIB-stash', mod.loc(br), exact, '{} branch: "_old_<attr>" is stored exactly when the attribute is to be stashed -- also when the attribute itself is copied to the '
              'particle in the same pass'.format(label), key='SIB-stash|exact|' + label)
        ck.ob('BULK-per-attribute', mod.loc(br), per and not bulk_bad and nst >= 1,
              '{} branch: inside the per-attribute loop only the attribute being tested is written ({} store(s){})'.format(
                  label, nst, '; whole-dict writes: ' + '; '.join(bulk_bad) if bulk_bad else ''), key='BULK-per-attribute|' + label)
    # ------------------------------------------------------------ block instantiation = merge (shared with C12), induced matching
    # particles a modification mapping deletes (atomname None) are taken out *after* the edges between placements were added: networkx re-creates a node that
    # `add_edge` names, so an earlier removal brings the particle back without attributes
    dmf = idx.mod('vermouth/processors/do_mapping.py').func('do_mapping')
    dmm = idx.mod('vermouth/processors/do_mapping.py')
    rm_ = [dmm.stmt_of(c_) for c_ in walk_local(dmf) if isinstance(c_, ast.Call) and call_attr(c_) == 'remove_nodes_from' and u(c_.func.value) == 'graph_out' and
           c_.args and u(c_.args[0]) == 'to_remove']
    adders = [dmm.stmt_of(c_) for c_ in walk_local(dmf) if isinstance(c_, ast.Call) and call_attr(c_) in ('add_edge', 'add_edges_from') and u(c_.func.value) == 'graph_out']
    from ..util import runs_after as _runs_after
    okrm = len(rm_) == 1 and bool(adders) and all(_runs_after(dmf, a_, rm_[0]) and not _runs_after(dmf, rm_[0], a_) for a_ in adders)
    ck.ob('PROV-edges', dmm.loc(rm_[0]) if rm_ else dmm.loc(dmf), okrm, 'the particles deleted by a modification mapping are removed once, after every statement that adds edges to the '
          'output ({} edge-adding statement(s))'.format(len(adders)), key='PROV-edges|removed-after-edges')
    # a particle that a modification mapping *adds* (a PTM atom of its target that no placed block provides) belongs to the residue it modifies: it gets that
    # residue's number, and the next placement -- whose residues are numbered from the receiver's last atom (merge_molecule) -- continues from it.  F28 (known):
    # the new particle is created from the modification's node attributes alone, without a resid
    amm = dmm.func('apply_mod_mapping')
    ck.analysed(dmm, amm)
    new_nodes = [c_ for c_ in walk_local(amm) if isinstance(c_, ast.Call) and call_attr(c_) == 'add_node' and u(c_.func.value) == 'graph_out' and
                 any(k_.arg is None and 'modification.nodes[' in u(k_.value) for k_ in c_.keywords)]
    ck.need(len(new_nodes) == 1, 'apply_mod_mapping: the creation of a particle the modification adds (graph_out.add_node(out_idx, **modification.nodes[..])) was not found')
    nn = new_nodes[0]
    idx_txt = u(nn.args[0])
    gets_resid = any(k_.arg == 'resid' for k_ in nn.keywords) or \
        any(isinstance(s_, ast.Assign) and any(isinstance(t_, ast.Subscript) and try_fold(t_.slice, default=None) == 'resid' and idx_txt in u(t_.value) and 'graph_out' in u(t_.value)
                                               for t_ in s_.targets) for s_ in walk_local(amm))
    ck.ob('MPT-renumber', dmm.loc(nn), gets_resid, 'a particle added by a modification mapping is given a residue number (it is the last atom of the output when the next block is '
          'merged in, and merge_molecule continues the numbering from the last atom): `{}`'.format(u(nn)[:70]), key='MPT-renumber|new-particle-resid')
    from .c12 import merge_rules
    merge_rules(ck)
    shared.no_monomorphism(ck, ['vermouth/map_parser.py', 'vermouth/processors/do_mapping.py', 'vermouth/graph_utils.py'])
    mp = ck.index.mod('vermouth/map_parser.py')
    # the pattern a mapping looks for is its source block restricted to the atoms the mapping mentions -- all of them, whatever their weights
    # (a zero-weight atom still belongs to the particle's constituents and carries bonds to the neighbouring placements)
    minit = mp.func('Mapping.__init__')
    ck.analysed(mp, minit)
    rem = [c for c in walk_local(minit) if isinstance(c, ast.Call) and call_attr(c) in ('remove_nodes_from', 'remove_node') and 'block_from' in u(c.func.value)]
    ok = len(rem) == 1 and call_attr(rem[0]) == 'remove_nodes_from' and u(rem[0].func.value) == 'self.block_from'
    if ok:
        arg = rem[0].args[0]
        val = single_def(minit, arg.id) if isinstance(arg, ast.Name) else arg
        ok = isinstance(val, ast.BinOp) and isinstance(val.op, ast.Sub) and \
            u(val.left) in ('set(self.block_from.nodes.keys())', 'set(self.block_from.nodes)', 'set(self.block_from)') and \
            u(val.right) in ('set(self.mapping.keys())', 'set(self.mapping)', 'self.mapping.keys()', 'set(mapping.keys())', 'set(mapping)', 'mapping.keys()')
    ck.ob('WMC-induced', mp.loc(minit), ok, 'a mapping keeps in its pattern every atom it mentions (the source block minus exactly the atoms that are not keys of the mapping), '
          'zero-weight atoms included', key='WMC-induced|pattern-atoms')
    gmap = mp.func('Mapping._graph_map')
    mapf = mp.func('Mapping.map')
    ck.analysed(mp, gmap)
    ck.analysed(mp, mapf)
    its = [c for c in walk_local(gmap) if isinstance(c, ast.Call) and call_attr(c) == 'subgraph_isomorphisms_iter']
    gmc = [c for c in walk_local(gmap) if isinstance(c, ast.Call) and (call_name(c) or '').endswith('GraphMatcher')]
    ok = len(its) == 1 and len(gmc) == 1 and u(kwarg(gmc[0], 'node_match')) == 'node_match' and u(kwarg(gmc[0], 'edge_match')) == 'edge_match' \
        and [u(a) for a in gmc[0].args] == ['graph', 'self.block_from']
    ck.ob('WMC-induced', mp.loc(gmap), ok, 'a mapping is placed wherever its source block is an induced subgraph of the molecule under the node and edge predicates handed in '
          '(`{}`)'.format(u(gmc[0])[:100] if gmc else '?'), key='WMC-induced|graph_map')
    mcalls = [c for c in walk_local(fn) if isinstance(c, ast.Call) and call_attr(c) == 'map' and 'mapping' in u(c.func.value)]
    ok = len(mcalls) == 1 and u(kwarg(mcalls[0], 'node_match')) == '_old_atomname_match' and u(kwarg(mcalls[0], 'edge_match')) == 'edge_matcher' and u(mcalls[0].args[0]) == molp
    ck.ob('WMC-induced', mod.loc(fn), ok, 'do_mapping matches every block mapping on the whole molecule with the atom-name and same-residue predicates', key='WMC-induced|do_mapping-call')
    # the predicates the mapping placement uses
    em = mod.func('edge_matcher')
    ck.analysed(mod, em)
    rt = [s_ for s_ in em.body if isinstance(s_, ast.Return)]
    ok = len(rt) == 1 and u(rt[0].value) == "(node11.get('resid') == node12.get('resid')) == (node21.get('resid') == node22.get('resid'))"
    defs = {n: u(single_def(em, n)) for n in ('node11', 'node12', 'node21', 'node22')}
    ok = ok and defs == {'node11': 'graph1.nodes[node11]', 'node12': 'graph1.nodes[node12]', 'node21': 'graph2.nodes[node21]', 'node22': 'graph2.nodes[node22]'}
    ck.ob('DT-placement-predicates', mod.loc(em), ok, 'a bond of the mapping fits a bond of the molecule when both join atoms of one residue or both join atoms of different residues',
          key='DT-placement-predicates|edge_matcher')
    nm = mod.func('node_matcher')
    c = [x for x in walk_local(nm) if isinstance(x, ast.Call) and call_name(x) == 'attributes_match']
    ign = try_fold(kwarg(c[0], 'ignore_keys'), default=()) if c else ()
    ck.ob('DT-placement-predicates', mod.loc(nm), len(c) == 1 and [u(a) for a in c[0].args[:2]] == ['node1', 'node2'] and
          set(ign) == {'atype', 'charge', 'charge_group', 'mass', 'resid', 'replace', '_old_atomname'},
          'atoms are compared on every attribute the mapping gives, except the force-field specific / numbering ones {}'.format(sorted(ign)), key='DT-placement-predicates|node_matcher')
    oam = mod.func('_old_atomname_match')
    ck.analysed(mod, oam)
    src = u(oam)
    ck.ob('DT-placement-predicates', mod.loc(oam), "name1 = node1.get('_old_atomname', node1['atomname'])" in src and "name2 = node2.get('_old_atomname', node2['atomname'])" in src
          and "node1['_name'] = name1" in src and "node2['_name'] = name2" in src and 'return node_matcher(node1, node2)' in src and 'node1 = node1.copy()' in src and 'node2 = node2.copy()' in src,
          'the atom name compared is the name before a modification renamed it, on copies of the attribute dicts', key='DT-placement-predicates|old_atomname')
    afn = mod.func('attrs_from_node')
    ck.ob('DT-placement-predicates', mod.loc(afn), 'return {attr: val for attr, val in node.items() if attr in attrs}' in u(afn) and "node.update(node['replace'])" in u(afn) and 'node = node.copy()' in u(afn),
          'attributes transferred from an atom are the listed ones, after applying its pending replacements to a copy', key='DT-placement-predicates|attrs_from_node')
    dmc = mod.cls('DoMapping')
    drs = method(dmc, 'run_system')
    ck.analysed(mod, drs)
    lp = [l for l in drs.body if isinstance(l, ast.For) and u(l.iter) == 'system.molecules']
    ok = len(lp) == 1 and 'new_molecule = self.run_molecule(molecule)' in u(lp[0]) and 'mols.append(new_molecule)' in u(lp[0]) and 'system.molecules = mols' in u(drs) \
        and 'system.force_field = self.to_ff' in u(drs)
    ck.ob('MPT-one-copy', mod.loc(drs), ok, 'every molecule of the system is converted, in system order, and the system is switched to the target force field', key='MPT-one-copy|run_system')
    # the output adopts the exclusion count of the first block even when a modification placed atoms into it first (else the first block merge is refused)
    nre = stmts_with_env(abm, lambda s_: isinstance(s_, ast.Assign) and u(s_.targets[0]) == 'graph_out.nrexcl')
    mrg = calls_with_env(abm, lambda c: call_attr(c) == 'merge_molecule')
    ok = len(nre) == 1 and len(mrg) == 1 and u(nre[0][0].value) == 'blocks_to.nrexcl' and nre[0][0].lineno < mrg[0][1].lineno and \
        (flow.equivalent(nre[0][1], ('atom', ('Is', 'graph_out.nrexcl', 'None')))[0] or flow.equivalent(nre[0][1], ('atom', ('Is', 'None', 'graph_out.nrexcl')))[0])
    ck.ob('MPT-one-copy', mod.loc(abm), ok, 'before a block is merged, an output that has no exclusion count yet adopts the block\'s (the merge itself only does so for an *empty* '
          'receiver, and refuses differing counts)', key='MPT-one-copy|nrexcl-adopted')
    # ------------------------------------------------------------ modification mappings are chosen per connected group of modified atoms
    mm = mod.func('modification_matches')
    ck.analysed(mod, mm)
    cov = [(c, st, cond, env) for c, st, cond, env in calls_with_env(mm, lambda c: call_name(c) == 'cover')]
    ok = len(cov) == 1
    detail = '{} cover() call(s)'.format(len(cov))
    if ok:
        call, st, cond, env = cov[0]
        loops = [l for l in loops_around(mod, call, mm) if isinstance(l, ast.For)]
        ok = len(loops) == 1 and isinstance(loops[0].target, ast.Name) and any(isinstance(n, ast.Name) and n.id == loops[0].target.id for n in ast.walk(call.args[0]))
        detail = 'cover() is called once per group, on that group' if ok else 'cover() is not called per group (loop target not its argument)'
        if ok:
            gl = loops[0]
            src_groups = u(gl.iter)
            # the groups are the modification names per connected component of the modified atoms
            comp = [l for l in mm.body if isinstance(l, ast.For) and 'connected_components' in u(flow.subst(l.iter, {k: v for st_, c_, e_ in stmts_with_env(mm, lambda s_: s_ is l) for k, v in e_.items()}))]
            ok_g = len(comp) == 1 and '{}.append('.format(src_groups) in u(comp[0]) and all(unconditional_in(mm, comp[0].body, s_) for s_ in comp[0].body)
            sub = single_def(mm, 'ptm_subgraph')
            ok_g = ok_g and sub is not None and u(sub) == '{}.subgraph(modified_nodes)'.format(param_names(mm)[0])
            ck.ob('MPT-mod-groups', mod.loc(mm), ok_g, 'a group is one connected component of the atoms that carry modifications; every component yields a group', key='MPT-mod-groups|components')
            upd = stmts_with_env(mm, lambda s_: isinstance(s_, ast.Expr) and call_attr(s_.value) == 'update' and u(s_.value.func.value) == 'needed_mod_mappings', stmts=gl.body)
            tgt = u(st.targets[0]) if isinstance(st, ast.Assign) else '?'
            def is_none_atom(cond_):
                ats = list(flow.atoms_of(cond_))
                return ats[0] if len(ats) == 1 and ats[0][0] == 'Is' and 'None' in ats[0][1:] and any(x == tgt or 'cover(' in x for x in ats[0][1:]) else None
            a_ = is_none_atom(upd[0][1]) if len(upd) == 1 else None
            ok_u = a_ is not None and u(upd[0][0].value.args[0]) == tgt and flow.equivalent(upd[0][1], ('not', ('atom', a_)))[0] and \
                not any(isinstance(n, (ast.Break, ast.Return, ast.Raise)) for n in ast.walk(gl))
            ck.ob('MPT-mod-groups', mod.loc(gl), ok_u, 'the mappings covering a group are selected exactly when a cover exists for *that* group (a group without cover does not '
                  'cancel the others)', key='MPT-mod-groups|select')
            wl = [(c_, s_, k_, e_) for c_, s_, k_, e_ in calls_with_env(mm, lambda c_: is_log_call(c_), stmts=gl.body) if log_type(c_) == 'unmapped-atom']
            a_ = is_none_atom(wl[0][2]) if len(wl) == 1 else None
            ok_w = a_ is not None and flow.equivalent(wl[0][2], ('atom', a_))[0]
            ck.ob('MPT-mod-groups', mod.loc(gl), ok_w, 'a group that cannot be covered is reported as unmapped-atom warning, exactly then', key='MPT-mod-groups|report')
    ck.ob('MPT-mod-groups', mod.loc(mm), ok, 'modification mappings are chosen per connected group of modified atoms: ' + detail, key='MPT-mod-groups|per-group')
    ml = [l for l in ast.walk(mm) if isinstance(l, ast.For) and call_attr(l.iter) == 'map']
    ok = len(ml) == 1 and u(ml[0].iter.args[0]) == param_names(mm)[0] and u(kwarg(ml[0].iter, 'node_match')) == 'ptm_resname_match'
    if ok:
        app = [s_ for s_ in ml[0].body if isinstance(s_, ast.Expr) and call_attr(s_.value) == 'append' and u(s_.value.func.value) == 'matches']
        ok = len(app) == 1 and unconditional_in(mm, ml[0].body, app[0]) and u(app[0].value.args[0]) == '({})'.format(', '.join(u(e) for e in ml[0].target.elts)) \
            and not any(isinstance(n, (ast.Break, ast.Return)) for n in ast.walk(ml[0]))
        outer = [l for l in loops_around(mod, ml[0], mm)]
        ok = ok and len(outer) == 1 and 'needed_mod_mappings' in u(outer[0].iter) and not any(isinstance(n, (ast.Break, ast.Continue)) for n in outer[0].body)
    ck.ob('MPT-mod-groups', mod.loc(mm), ok, 'every placement of every selected modification mapping on the molecule is returned (no early exit, nothing filtered)', key='MPT-mod-groups|all-placements')
    cv = mod.func('cover')
    ck.analysed(mod, cv)
    rec = [(c, st_, cond_, e_) for c, st_, cond_, e_ in calls_with_env(cv, lambda c: call_name(c) == 'cover')]
    cl = [l for l in cv.body if isinstance(l, ast.For)]
    ok = len(rec) == 1 and len(cl) == 1 and [u(a) for a in rec[0][0].args] == ['left_to_cover', 'options[idx:]'] and u(cl[0].iter) == 'enumerate(options)'
    if ok:
        inloop = calls_with_env(cv, lambda c: c is rec[0][0], stmts=cl[0].body)
        ats = list(flow.atoms_of(inloop[0][2])) if inloop else []
        ok = len(ats) == 1 and ats[0] == ('truth', 'all((item in to_cover for item in option))') and flow.equivalent(inloop[0][2], ('atom', ats[0]))[0]
        src = u(cl[0])
        rets = stmts_with_env(cv, lambda s_: isinstance(s_, ast.Return), stmts=cl[0].body)
        ok = ok and 'left_to_cover = to_cover.copy()' in src and 'left_to_cover.remove(item)' in src and len(rets) == 1 and u(rets[0][0].value) == '[option] + found' and \
            isinstance(cv.body[-1], ast.Return) and u(cv.body[-1].value) == 'None'
        first = [s_ for s_ in cv.body if not (isinstance(s_, ast.Expr) and isinstance(s_.value, ast.Constant)) and not interp._is_log_stmt(s_)][0]
        ok = ok and isinstance(first, ast.If) and u(first.test) == 'not to_cover' and isinstance(first.body[0], ast.Return) and u(first.body[0].value) == '[]'
    ck.ob('MPT-mod-groups', mod.loc(cv), ok, 'cover() is an exact cover: an option qualifies only when all its items are still to be covered, its items are removed from a copy, '
          'the rest is covered recursively, and failure is None', key='MPT-mod-groups|exact-cover')
    shared.truthy_zero(ck, [DM, 'vermouth/map_parser.py'])
    ck.assume('that the matcher finds every placement, the residue renumbering arithmetic and modification mapping covers are not decided')
