"""C02 -- a written ITP states exactly the molecule held in memory."""
import ast
import string

from ..index import u, call_name, call_attr, walk_local, base_name
from .. import flow
from ..fold import try_fold
from ..util import stmts_with_env, calls_with_env, assignments_to, single_def, kwarg, str_constants
from .common import method, unconditional_in
from . import shared

ITP = 'vermouth/gmx/itp.py'
MOL = 'vermouth/molecule.py'
ATOM_FIELDS = ['idx', 'atype', 'resid', 'resname', 'atomname', 'charge_group', 'charge', 'mass']


def locate_writer(ck, mod):
    hits = [fn for name, fn in mod.functions.items() if any(s == '[ atoms ]\n' for s in str_constants(fn))]
    ck.need(len(hits) == 1, 'ITP writer (function writing the "[ atoms ]" header) not found / ambiguous in ' + ITP)
    return hits[0]


def printed_copy_columns(ck, rule='PROV-renumber'):
    """The [ atoms ] line prints a copy of the node in which only the two optional columns are filled in: residue number, names, type and charge group
    are the node's own (the coordinate file prints them from the node as well)."""
    mod = ck.index.mod(ITP)
    w = locate_writer(ck, mod)
    writes = [c for c in walk_local(w) if isinstance(c, ast.Call) and call_attr(c) == 'format' and any(k.arg is None for k in c.keywords) and 'atomname' in u(c.func.value)]
    ok = len(writes) == 1
    rewritten = ['?']
    if ok:
        copyvar = next(u(k.value) for k in writes[0].keywords if k.arg is None)
        loop = next((l for l in mod.ancestors(writes[0]) if isinstance(l, ast.For)), None)
        scope = loop if loop is not None else w
        rewritten = sorted({str(try_fold(s_.targets[0].slice, default=u(s_.targets[0].slice))) for s_ in ast.walk(scope) if isinstance(s_, ast.Assign)
                            and isinstance(s_.targets[0], ast.Subscript) and u(s_.targets[0].value) == copyvar} |
                           {str(try_fold(c_.args[0], default='?')) for c_ in ast.walk(scope) if isinstance(c_, ast.Call) and call_attr(c_) in ('setdefault', 'update', 'pop')
                            and u(c_.func.value) == copyvar and c_.args})
        ok = set(rewritten) <= {'charge', 'mass'}
    ck.ob(rule, mod.loc(w), ok, 'the printed copy of a node has only its optional columns filled in (items written: {}): residue number, names, type and charge group '
          'are the node\'s own'.format(rewritten), key=rule + '|columns-untouched')


def run(ck):
    idx = ck.index
    mod = idx.mod(ITP)
    mol = idx.mod(MOL)
    w = locate_writer(ck, mod)
    printed_copy_columns(ck)
    ck.analysed(mod, w)
    mparam = w.args.args[0].arg
    out = w.args.args[1].arg

    # ------------------------------------------------------------ atom loop and renumbering table
    aloops = [n for n in w.body if isinstance(n, ast.For) and isinstance(n.iter, ast.Call) and call_name(n.iter) == 'enumerate'
              and any(isinstance(s, ast.Expr) and call_attr(s.value) == 'write' for s in n.body)]
    # equivalent spelling: the key -> index table is built first, from the same enumeration, and the atom loop walks `table.items()`
    tloops = []
    for n in w.body:
        if isinstance(n, ast.For) and isinstance(n.iter, ast.Call) and call_attr(n.iter) == 'items' and isinstance(n.iter.func.value, ast.Name) and \
                any(isinstance(s, ast.Expr) and call_attr(s.value) == 'write' for s in n.body):
            d = single_def(w, n.iter.func.value.id)
            if isinstance(d, ast.DictComp) and len(d.generators) == 1 and not d.generators[0].ifs and isinstance(d.generators[0].iter, ast.Call) and \
                    call_name(d.generators[0].iter) == 'enumerate' and isinstance(d.generators[0].target, ast.Tuple) and len(d.generators[0].target.elts) == 2 and \
                    u(d.key) == u(d.generators[0].target.elts[1]) and u(d.value) == u(d.generators[0].target.elts[0]):
                tloops.append((n, d))
    ck.ob('MPT-atoms', mod.loc(w), len(aloops) + len(tloops) == 1, 'one loop over the enumerated atoms writes the [ atoms ] lines ({} found)'.format(len(aloops) + len(tloops)), key='MPT-atoms|loop')
    if len(aloops) + len(tloops) != 1:
        return
    if aloops:
        al = aloops[0]
        enum = al.iter
        ivar, kvar = [u(e) for e in al.target.elts] if isinstance(al.target, ast.Tuple) and len(al.target.elts) == 2 else ('?', '?')
    else:
        al, comp = tloops[0]
        enum = comp.generators[0].iter
        kvar, ivar = [u(e) for e in al.target.elts] if isinstance(al.target, ast.Tuple) and len(al.target.elts) == 2 else ('?', '?')
    start = kwarg(enum, 'start') or (enum.args[1] if len(enum.args) > 1 else None)
    ck.ob('MPT-atoms', mod.loc(al), try_fold(start, default=0) == 1, 'atoms are numbered from 1 (enumerate start={})'.format(u(start)), key='MPT-atoms|start')
    atom_iter = u(enum.args[0])
    ck.ob('MPT-atoms', mod.loc(al), atom_iter == mparam + '.sorted_nodes', 'atoms are written in atom-id order: the enumeration runs over `{}`'.format(atom_iter),
          key='MPT-atoms|iterator')
    if aloops:
        stores = [s for s in al.body if isinstance(s, ast.Assign) and isinstance(s.targets[0], ast.Subscript) and u(s.targets[0].slice) == kvar and u(s.value) == ivar]
        ck.ob('PROV-renumber', mod.loc(al), len(stores) == 1 and unconditional_in(w, al.body, stores[0]),
              'the key -> index table is filled in the atom loop, for every atom, with the index being written ({} store(s))'.format(len(stores)), key='PROV-renumber|store')
        if len(stores) != 1:
            return
        table = u(stores[0].targets[0].value)
        the_store = stores[0]
    else:
        table = al.iter.func.value.id
        the_store = None
        ck.ob('PROV-renumber', mod.loc(al), True, 'the key -> index table is the enumeration itself ({key: index}), and the atom loop walks exactly its items: every atom is in it with '
              'the index being written', key='PROV-renumber|store')
    others = [n for n in walk_local(w) if isinstance(n, (ast.Assign, ast.AugAssign)) and n is not the_store and
              any(base_name(t) == table for t in (n.targets if isinstance(n, ast.Assign) else [n.target]))]
    if aloops:
        init_ok = all(isinstance(n, ast.Assign) and isinstance(n.targets[0], ast.Name) and isinstance(n.value, ast.Dict) and not n.value.keys for n in others)
    else:
        init_ok = all(isinstance(n, ast.Assign) and isinstance(n.targets[0], ast.Name) and isinstance(n.value, ast.DictComp) for n in others)
    upd = [c for c in walk_local(w) if isinstance(c, ast.Call) and isinstance(c.func, ast.Attribute) and base_name(c.func.value) == table
           and c.func.attr in ('update', 'setdefault', 'pop', 'clear')]
    ck.ob('PROV-renumber', mod.loc(w), init_ok and not upd and len(others) == 1,
          'the table has no other writer ({} other assignment(s), {} mutator call(s))'.format(len(others), len(upd)), key='PROV-renumber|single-writer')
    writes = [s for s in al.body if isinstance(s, ast.Expr) and call_attr(s.value) == 'write' and u(s.value.func.value) == out]
    ck.ob('MPT-atoms', mod.loc(al), len(writes) == 1 and unconditional_in(w, al.body, writes[0]) and
          not any(isinstance(n, (ast.Continue, ast.Break, ast.If)) for s in al.body for n in ast.walk(s)),
          'every atom yields exactly one line: the write is unconditional, the loop body has no branch', key='MPT-atoms|one-line-each')
    if len(writes) == 1:
        call = writes[0].value.args[0]
        ok = isinstance(call, ast.Call) and call_attr(call) == 'format'
        fmt = try_fold(call.func.value) if ok else None
        fields = [f.split('.')[0].split('[')[0] for _l, f, _s, _c in string.Formatter().parse(fmt) if f] if isinstance(fmt, str) else []
        ck.ob('MPT-atoms', mod.loc(writes[0]), fields == ATOM_FIELDS and fmt.endswith('\n'),
              'the atom line prints {} in that order'.format(fields), key='MPT-atoms|fields')
        star = [k.value for k in call.keywords if k.arg is None] if ok else []
        ok = ok and u(kwarg(call, 'idx')) == ivar and len(star) == 1
        src = None
        if ok:
            d = single_def(w, u(star[0])) if isinstance(star[0], ast.Name) else None
            src = d
            ok = d is not None and isinstance(d, ast.Call) and (call_name(d) in ('copy.copy', 'dict') or call_attr(d) == 'copy') and d.args
            if ok:
                a = d.args[0]
                adef = single_def(w, u(a)) if isinstance(a, ast.Name) else a
                ok = adef is not None and u(adef) == '{}.nodes[{}]'.format(mparam, kvar)
        ck.ob('PROV-renumber', mod.loc(writes[0]), ok, 'the line numbered idx prints the attributes of the very node whose key is recorded under idx', key='PROV-renumber|same-atom')
        for opt in ('charge', 'mass'):
            fills = [s for s in al.body if isinstance(s, ast.Assign) and isinstance(s.targets[0], ast.Subscript) and try_fold(s.targets[0].slice) == opt]
            ck.ob('MPT-atoms', mod.loc(al), len(fills) == 1 and "get('{}', '')".format(opt) in u(fills[0].value),
                  'a missing {} is written blank, a present one unchanged'.format(opt), key='MPT-atoms|optional|' + opt)

    # ------------------------------------------------------------ interactions
    iloops = [n for n in w.body if isinstance(n, ast.For) and 'sort_interactions' in u(n.iter)]
    ck.ob('MPT-all-interactions', mod.loc(w), len(iloops) == 1,
          'the ITP writer walks the interaction types of the molecule itself (a loop over molecule.sort_interactions(molecule.interactions)), {} found'.format(len(iloops)),
          key='MPT-all-interactions|loop')
    shared.pure_writer(ck, mod, w, [mparam])
    for name, helper in mod.functions.items():
        if helper is not w and any(isinstance(c, ast.Call) and call_name(c) == name for c in ast.walk(w)) and helper.args.args:
            shared.pure_writer(ck, mod, helper, [a.arg for a in helper.args.args])
    if len(iloops) != 1:
        return
    il = iloops[0]
    ck.ob('MPT-all-interactions', mod.loc(il), u(il.iter) == '{0}.sort_interactions({0}.interactions)'.format(mparam),
          'the section loop covers every interaction type of the molecule (`{}`)'.format(u(il.iter)), key='MPT-all-interactions|types')
    nvar = u(il.target)
    # the section name written to the file: the loop variable itself (overwritten for impropers), or a separate local that is 'dihedrals' for
    # impropers and the interaction type otherwise -- either way it equals 'virtual_sitesn' exactly when the type does
    svar = nvar
    sdefs_ = [(s_, c_) for s_, c_, _e in stmts_with_env(w, lambda s_: isinstance(s_, ast.Assign) and isinstance(s_.targets[0], ast.Name) and try_fold(s_.value) == 'dihedrals', stmts=il.body)]
    if len(sdefs_) == 1 and u(sdefs_[0][0].targets[0]) != nvar:
        cand = u(sdefs_[0][0].targets[0])
        others = [(s_, c_) for s_, c_, _e in stmts_with_env(w, lambda s_: isinstance(s_, ast.Assign) and u(s_.targets[0]) == cand and s_ is not sdefs_[0][0], stmts=il.body)]
        if len(others) == 1 and u(others[0][0].value) == nvar and flow.equivalent(others[0][1], flow.NOT(sdefs_[0][1]))[0]:
            svar = cand
    # sort/groupby agreement
    srt = [c for c in ast.walk(il) if isinstance(c, ast.Call) and call_name(c) == 'sorted']
    grp = [c for c in ast.walk(il) if isinstance(c, ast.Call) and call_name(c) in ('itertools.groupby', 'groupby')]
    ok = len(srt) == 1 and len(grp) == 1 and u(kwarg(srt[0], 'key')) == u(kwarg(grp[0], 'key')) and kwarg(srt[0], 'key') is not None
    ok_src = False
    if ok:
        gsrc = grp[0].args[0]
        gdef = single_def(w, u(gsrc)) if isinstance(gsrc, ast.Name) else gsrc
        ssrc = srt[0].args[0]
        sdef = single_def(w, u(ssrc)) if isinstance(ssrc, ast.Name) else ssrc
        ok_src = gdef is srt[0] and sdef is not None and u(sdef) == '{}.interactions[{}]'.format(mparam, nvar)
    ck.ob('SIB-group-key', mod.loc(il), ok and ok_src, 'groupby runs over the list sorted with the same key function, and that list is all interactions of the type',
          key='SIB-group-key|itp')
    gloops = [n for n in il.body if isinstance(n, ast.For)]
    gl = [g for g in gloops if grp and (u(g.iter) == u(grp[0]) or (isinstance(g.iter, ast.Name) and single_def(w, g.iter.id) is grp[0]))]
    ck.need(len(gl) == 1, 'ITP writer: loop over the interaction groups not found')
    gl = gl[0]
    grp_items = u(gl.target.elts[1]) if isinstance(gl.target, ast.Tuple) else '?'
    inner = [n for n in gl.body if isinstance(n, ast.For) and u(n.iter) == grp_items]
    if not inner:
        # the group's items reached through a local that is an element-wise view of them (`(item[1] for item in group)`)
        for n in gl.body:
            if isinstance(n, ast.For) and isinstance(n.iter, ast.Name):
                d_ = single_def(w, n.iter.id)
                if isinstance(d_, (ast.GeneratorExp, ast.ListComp)) and len(d_.generators) == 1 and u(d_.generators[0].iter) == grp_items and not d_.generators[0].ifs:
                    inner.append(n)
    ck.need(len(inner) == 1, 'ITP writer: loop over the interactions of a group not found')
    inl = inner[0]
    ck.ob('MPT-all-interactions', mod.loc(inl), unconditional_in(w, gl.body, inl) and unconditional_in(w, il.body, gl),
          'every group and every interaction of a group is visited unconditionally', key='MPT-all-interactions|visit')
    lw = [s for s in inl.body if isinstance(s, ast.Expr) and call_attr(s.value) == 'write']
    ck.ob('MPT-all-interactions', mod.loc(inl), len(lw) == 1 and unconditional_in(w, inl.body, lw[0]) and
          not any(isinstance(n, (ast.Continue, ast.Break)) for s in inl.body for n in ast.walk(s)),
          'every interaction yields exactly one line (no skip, no early exit)', key='MPT-all-interactions|one-line-each')
    # order: the atoms of an interaction are written in the order the interaction lists them (exclusions, cmap, impropers, virtual sites are directional)
    reorder = [u(n)[:60] for s_ in inl.body for n in ast.walk(s_)
               if (isinstance(n, ast.Call) and (call_attr(n) in ('reverse', 'sort') or call_name(n) in ('sorted', 'reversed', 'set', 'frozenset', 'min', 'max')))
               or (isinstance(n, ast.Subscript) and isinstance(n.slice, ast.Slice) and n.slice.step is not None)]
    ck.ob('ORD-atoms', mod.loc(inl), not reorder, 'the atom columns of a line follow the interaction\'s own atom order: nothing in the line-building loop sorts, reverses or '
          'de-duplicates ({})'.format(reorder or 'none'), key='ORD-atoms|no-reorder')
    # taint: raw node keys never reach the writer
    ivar2 = u(inl.target)
    raw_uses = 0
    bad = []
    for comp in [n for n in ast.walk(inl) if isinstance(n, (ast.ListComp, ast.GeneratorExp, ast.For))]:
        gens = comp.generators if not isinstance(comp, ast.For) else [comp]
        for g in gens:
            it = g.iter
            if u(it) == ivar2 + '.atoms':
                raw_uses += 1
                var = u(g.target)
                scope = comp.elt if not isinstance(comp, ast.For) else ast.Module(body=comp.body, type_ignores=[])
                for n in ast.walk(scope):
                    if isinstance(n, ast.Name) and n.id == var:
                        par = [p for p in ast.walk(scope) if isinstance(p, ast.Subscript) and p.slice is n and u(p.value) == table]
                        if not par:
                            bad.append(u(comp)[:80])
    other_atom_reads = [n for n in ast.walk(inl) if isinstance(n, ast.Attribute) and n.attr == 'atoms' and u(n.value) == ivar2]
    ck.ob('PROV-renumber', mod.loc(inl), raw_uses >= 1 and not bad and len(other_atom_reads) == raw_uses,
          'every atom of an interaction is written as {}[key] -- the raw node key never reaches the file ({} iteration(s) over the atoms{})'.format(
              table, raw_uses, '; raw use in ' + '; '.join(bad) if bad else ''), key='PROV-renumber|taint')
    # line assembly
    if len(lw) == 1:
        found = stmts_with_env(w, lambda s: s is lw[0], stmts=inl.body)
        arg = lw[0].value.args[0]
        txt = u(arg)
        tj = assignments_to(w, 'to_join')
        forms = sorted(u(v) for v in tj)
        conds = stmts_with_env(w, lambda s: isinstance(s, ast.Assign) and u(s.targets[0]) == 'to_join', stmts=inl.body)
        vs_ok = False
        for st, c, e in conds:
            if u(st.value) == '[atoms[0], parameters] + atoms[1:]':
                vs_ok = any(flow.equivalent(c, ('atom', ('Eq', "'virtual_sitesn'", v_)))[0] or flow.equivalent(c, ('atom', ('Eq', v_, "'virtual_sitesn'")))[0] for v_ in {nvar, svar})
        ck.ob('TAB-sections', mod.loc(lw[0]), forms == sorted(['[atoms[0], parameters] + atoms[1:]', 'atoms + [parameters]']) and vs_ok and "' '.join(to_join)" in txt,
              'a line is atoms then parameters, except virtual_sitesn: first atom, function type/parameters, remaining atoms', key='TAB-sections|virtual_sitesn')
        pdef = single_def(w, 'parameters')
        ck.ob('MPT-all-interactions', mod.loc(lw[0]), pdef is not None and u(pdef) == "' '.join((str(x) for x in {}.parameters))".format(ivar2),
              'all parameters of the interaction are written, in order', key='MPT-all-interactions|parameters')
        # the comment is the last thing on the line: no field (parameters, atoms) is extended with it
        aug = [n for n in ast.walk(inl) if isinstance(n, ast.AugAssign) and isinstance(n.target, ast.Name) and n.target.id in ('parameters', 'atoms', 'to_join')]
        ext = [c for c in ast.walk(inl) if isinstance(c, ast.Call) and call_attr(c) in ('append', 'extend', 'insert') and u(c.func.value) in ('atoms', 'to_join')]

        def flat(n):
            return flat(n.left) + flat(n.right) if isinstance(n, ast.BinOp) and isinstance(n.op, ast.Add) else [n]
        ops = flat(arg)
        mid = ops[1:-1]
        cdefs = {u(v) for m_ in mid if isinstance(m_, ast.Name) for v in assignments_to(w, m_.id)}
        ok_c = len(ops) >= 2 and u(ops[0]) == "' '.join(to_join)" and u(ops[-1]) == repr('\n') and all(isinstance(m_, ast.Name) for m_ in mid) and \
            cdefs <= {"''", "' ; ' + {}.meta['comment']".format(ivar2)} and not aug and not ext
        ck.ob('TAB-sections', mod.loc(lw[0]), ok_c, 'the fields of a line are exactly the atoms and the parameters; a comment is appended after the last field, '
              'never inside a field (`{}`{})'.format(txt[:70], '; field extended in place: ' + '; '.join(u(a)[:50] for a in aug + ext) if aug or ext else ''),
              key='TAB-sections|comment-last')
    # impropers -> dihedrals before the header
    ren = stmts_with_env(w, lambda s: isinstance(s, ast.Assign) and u(s.targets[0]) == svar and try_fold(s.value) == 'dihedrals', stmts=il.body)
    hdr = [s for s in il.body if isinstance(s, ast.Expr) and call_attr(s.value) == 'write' and '[ {} ]' in u(s) and svar in u(s)]
    ok = len(ren) == 1 and len(hdr) == 1 and ren[0][0].lineno < hdr[0].lineno and \
        (flow.equivalent(ren[0][1], ('atom', ('Eq', "'impropers'", nvar)))[0] or flow.equivalent(ren[0][1], ('atom', ('Eq', nvar, "'impropers'")))[0])
    lookup = [s for s in il.body if isinstance(s, ast.Assign) and u(s.value) == '{}.interactions[{}]'.format(mparam, nvar)]
    ok = ok and len(lookup) == 1 and lookup[0].lineno < ren[0][0].lineno
    ck.ob('TAB-sections', mod.loc(il), ok, 'impropers are fetched under their own name and written under a [ dihedrals ] header', key='TAB-sections|impropers')
    # conditional guards: open and close pair up
    opens = stmts_with_env(w, lambda s: isinstance(s, ast.Expr) and call_attr(s.value) == 'write' and 'conditional_key' in u(s), stmts=gl.body)
    closes = stmts_with_env(w, lambda s: isinstance(s, ast.Expr) and call_attr(s.value) == 'write' and try_fold(s.value.args[0], default='') == '#endif\n', stmts=gl.body)
    ok = len(opens) == 1 and len(closes) == 1 and flow.equivalent(opens[0][1], closes[0][1])[0] and not flow.valid(opens[0][1])
    pos = {id(s): i for i, s in enumerate(gl.body)}
    top = lambda st: next((i for i, s in enumerate(gl.body) if any(n is st for n in ast.walk(s))), -1)
    ok = ok and top(opens[0][0]) < pos[id(inl)] < top(closes[0][0])
    ck.ob('PAIR-guard', mod.loc(gl), ok, 'a group opened with #ifdef/#ifndef is closed with #endif under the same test, inside the same group iteration, after its lines',
          key='PAIR-guard|itp')
    keys = single_def(w, 'conditional_keys')
    ck.ob('PAIR-guard', mod.loc(w), try_fold(keys) == {True: '#ifdef', False: '#ifndef'}, 'guard keyword table {}'.format(try_fold(keys)), key='PAIR-guard|keywords')
    if opens:
        o = opens[0][0].value.args[0]
        ok = isinstance(o, ast.Call) and call_attr(o) == 'format' and try_fold(o.func.value) == '{} {}\n' and [u(a) for a in o.args] == ['conditional_key', 'conditional[0]']
        ckd = single_def(w, 'conditional_key')
        ok = ok and ckd is not None and u(ckd) == 'conditional_keys[conditional[1]]'
        ck.ob('PAIR-guard', mod.loc(opens[0][0]), ok, 'the guard line is "<#ifdef|#ifndef> <macro>" from the group key', key='PAIR-guard|line')
    # sorting key: conditional and group from the interaction's meta
    sk = mod.func('_interaction_sorting_key')
    ck.analysed(mod, sk)
    rets = stmts_with_env(sk, lambda s: isinstance(s, ast.Return))
    ok = len(rets) == 1 and u(rets[0][0].value) == '(conditional, group)'
    cds = {u(flow.subst(s.value, e)): flow.show(c) for s, c, e in stmts_with_env(sk, lambda s: isinstance(s, ast.Assign) and u(s.targets[0]) == 'conditional')}
    ok = ok and set(cds) == {"(interaction.meta.get('ifdef'), True)", "(interaction.meta.get('ifndef'), False)", '()'}
    ck.ob('PAIR-guard', mod.loc(sk), ok, 'the group key is ((macro, is-ifdef) or (), group) taken from meta ifdef / ifndef / group: {}'.format(sorted(cds)), key='PAIR-guard|sorting-key')
    # sort_interactions drops only empty types
    si = mol.func('Molecule.sort_interactions')
    ck.analysed(mol, si)
    loops = [n for n in si.body if isinstance(n, ast.For)]
    ok = len(loops) == 1 and u(loops[0].iter) == si.args.args[0].arg + '.items()' and isinstance(loops[0].target, ast.Tuple)
    if ok:
        # a type gets its sort key exactly when its list is non-empty (guard clause or positive test, with or without a temporary)
        tvar, lvar = [u(e) for e in loops[0].target.elts]
        st_ = stmts_with_env(si, lambda s: isinstance(s, ast.Assign) and u(s.targets[0]) == 'sort_keys[{}]'.format(tvar), stmts=loops[0].body)
        ok = len(st_) == 1 and flow.equivalent(st_[0][1], ('atom', ('truth', lvar)))[0] and \
            u(flow.subst(st_[0][0].value, st_[0][2])) == '(len({}[0].atoms), {})'.format(lvar, tvar) and not any(isinstance(n, (ast.Break, ast.Return)) for n in ast.walk(loops[0]))
        ret = [s for s in si.body if isinstance(s, ast.Return)]
        ok = ok and len(ret) == 1 and 'sorted(sort_keys' in u(ret[0])
    ck.ob('MPT-all-interactions', mol.loc(si), ok, 'sort_interactions returns every interaction type that has at least one interaction', key='MPT-all-interactions|sort_interactions')
    shared.sorted_nodes_rule(ck, 'MPT-atoms')
    shared.truthy_zero(ck, ['vermouth/gmx/itp.py', 'vermouth/molecule.py'])
    ck.assume('textual alignment and parameter formatting are not decided; reading the text back is not modelled')
