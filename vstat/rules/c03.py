"""C03 -- coordinates, molecule types and system topology agree atom for atom."""
import ast
import string

from ..index import u, call_name, call_attr, walk_local, base_name
from .. import flow, interp
from ..fold import try_fold
from ..util import stmts_with_env, calls_with_env, assignments_to, single_def, kwarg, str_constants
from . import shared
from .common import method, unconditional_in
from .c02 import locate_writer, printed_copy_columns

PDB = 'vermouth/pdb/pdb.py'
ITP = 'vermouth/gmx/itp.py'
TOP = 'vermouth/gmx/topology.py'
GRO = 'vermouth/gmx/gro.py'
MOL = 'vermouth/molecule.py'
NM = 'vermouth/processors/name_moltype.py'


def atom_iterator(module, fn, mol_name=None):
    """Text of the iterable of the loop that visits the atoms of one molecule
    in a writer (the loop whose body formats a line)."""
    out = []
    for n in walk_local(fn):
        if isinstance(n, ast.For):
            it = n.iter
            if isinstance(it, ast.Call) and call_name(it) == 'enumerate':
                it = it.args[0]
            elif isinstance(it, ast.Call) and call_attr(it) == 'items' and isinstance(it.func.value, ast.Name):
                # a table {key: index} built from an enumeration and walked in insertion order visits the atoms in the order of that enumeration
                d = single_def(fn, it.func.value.id)
                if isinstance(d, ast.DictComp) and len(d.generators) == 1 and not d.generators[0].ifs and isinstance(d.generators[0].iter, ast.Call) and \
                        call_name(d.generators[0].iter) == 'enumerate' and isinstance(d.generators[0].target, ast.Tuple) and u(d.key) == u(d.generators[0].target.elts[1]):
                    it = d.generators[0].iter.args[0]
            txt = u(it)
            if txt.endswith('.sorted_nodes') or txt.endswith('.nodes') or txt.endswith('.nodes()') or isinstance(it, ast.Name) or txt.endswith('.atoms') \
                    or (isinstance(it, ast.Call) and call_name(it) == 'sorted'):
                if any(isinstance(c, ast.Call) and call_attr(c) in ('format', 'write', 'append') for s in n.body for c in ast.walk(s)) and \
                        any(isinstance(x, ast.Subscript) and u(x.slice) in ([u(n.target)] if not isinstance(n.target, ast.Tuple) else [u(e) for e in n.target.elts]) and '.nodes' in u(x.value)
                            for s in n.body for x in ast.walk(s)):
                    out.append((n, it))
    return out


def run(ck):
    idx = ck.index
    pdb = idx.mod(PDB)
    itp = idx.mod(ITP)
    top = idx.mod(TOP)
    gro = idx.mod(GRO)
    mol = idx.mod(MOL)
    nm = idx.mod(NM)

    # ------------------------------------------------------------ SIB: same atom order in PDB and ITP
    pw = pdb.func('write_pdb_string')
    iw = locate_writer(ck, itp)
    ck.analysed(pdb, pw)
    ck.analysed(itp, iw)
    def attr_of(it, fn):
        # resolve a plain name to its definition, then take what follows the molecule object
        if isinstance(it, ast.Name):
            d = single_def(fn, it.id)
            if d is not None:
                it = d
        t = u(it)
        return t.split('.', 1)[1] if '.' in t and not isinstance(it, ast.Call) else t
    p_it = [attr_of(it, pw) for n, it in atom_iterator(pdb, pw) if 'format_string' in u(n) or 'ATOM' in u(n)]
    i_it = [attr_of(it, iw) for n, it in atom_iterator(itp, iw) if '{atype' in u(n)]
    ck.ob('SIB-atom-order', pdb.loc(pw), len(p_it) == 1 and len(i_it) == 1 and p_it == i_it == ['sorted_nodes'],
          'the PDB writer visits the atoms of a molecule through `.{}`, the ITP writer through `.{}`: the k-th coordinate record is the k-th ITP atom'.format(
              p_it, i_it), key='SIB-atom-order|pdb-itp')
    gw = gro.func('write_gro')
    g_it = []
    for n, it in atom_iterator(gro, gw):
        t = single_def(gw, u(it)) if isinstance(it, ast.Name) else it
        g_it.append(u(t))
    if g_it and not all(t.endswith('.sorted_nodes') for t in g_it):
        ck.note('write_gro visits atoms through {} (node order, not atom-id order); the GRO writer is outside the observation points of C03 '
                '(write_pdb, write_gmx_topology, CLI -x/-o)'.format(g_it))

    # ------------------------------------------------------------ top file
    wt = top.func('write_gmx_topology')
    ck.analysed(top, wt)
    grp = single_def(wt, 'molecule_groups')
    ok = isinstance(grp, ast.Call) and call_name(grp) in ('itertools.groupby', 'groupby') and u(grp.args[0]) == 'system.molecules' and \
        'meta[' in u(kwarg(grp, 'key')) and 'moltype' in u(kwarg(grp, 'key'))
    ck.ob('PROV-molecules', top.loc(wt), ok, '[ molecules ] groups successive molecules of system.molecules itself (no sorting) by their moltype (`{}`)'.format(u(grp)[:90]),
          key='PROV-molecules|groupby')
    loops = [n for n in wt.body if isinstance(n, ast.For) and u(n.iter) == 'molecule_groups']
    ck.need(len(loops) == 1, 'write_gmx_topology: loop over the molecule groups not found')
    lp = loops[0]
    tvar, gvar = [u(e) for e in lp.target.elts]
    # the ITP write and its first-occurrence guard
    withs = [(s, c, e) for s, c, e in stmts_with_env(wt, lambda s: isinstance(s, ast.With), stmts=lp.body)
             if any(call_name(i.context_expr) == 'deferred_open' for i in s.items)]
    ck.need(len(withs) == 1, 'write_gmx_topology: the deferred write of "<moltype>.itp" not found in the group loop')
    wst, wcond, wenv = withs[0]
    guard = [k for k in flow.atoms_of(wcond) if k[0] == 'In' and k[1] == tvar]
    ok = len(guard) == 1 and flow.equivalent(wcond, flow.NOT(('atom', guard[0])))[0]
    seen = guard[0][2] if guard else '?'
    adds = stmts_with_env(wt, lambda s: isinstance(s, ast.Expr) and call_attr(s.value) == 'add' and u(s.value.func.value) == seen, stmts=lp.body)
    ok = ok and len(adds) == 1 and u(adds[0][0].value.args[0]) == tvar and flow.equivalent(adds[0][1], wcond)[0]
    ck.ob('PROV-include-once', top.loc(wst), ok, 'the ITP of a molecule type is written on its first occurrence only (guard `{} not in {}`, recorded in the same arm)'.format(tvar, seen),
          key='PROV-include-once|itp-guard')
    itpname = [i.context_expr for i in wst.items][0]
    # the file name is the type name with '.itp' *appended* (one file per type name, whatever characters the name has)
    itp_txt = u(flow.subst(itpname.args[0], wenv)) if itpname.args else '?'
    ck.ob('PROV-include-once', top.loc(wst), itp_txt in ("'{}.itp'.format(" + tvar + ')', tvar + " + '.itp'", "f'{" + tvar + "}.itp'"),
          'the ITP file is named after the molecule type: `<type>.itp` (found `{}`)'.format(itp_txt), key='PROV-include-once|itp-name')
    # the include list
    inc_fmt = [c for c in walk_local(wt) if isinstance(c, ast.Call) and call_attr(c) == 'format' and isinstance(c.func.value, ast.Constant)
               and isinstance(c.func.value.value, str) and c.func.value.value.startswith('#include') and '.itp' in c.func.value.value]
    if len(inc_fmt) != 1:
        ck.ob('PROV-include-once', top.loc(wt), False, 'the include lines are `#include "<type>.itp"` for the written types ({} such format(s) found)'.format(len(inc_fmt)),
              key='PROV-include-once|include-list')
        inc_fmt = None
    if inc_fmt is not None:
        gen = top.enclosing(inc_fmt[0], (ast.GeneratorExp, ast.ListComp))
        ck.need(gen is not None, 'write_gmx_topology: the include lines are not built by a comprehension')
        src = gen.generators[0].iter
        src_name = u(src)
        apps = stmts_with_env(wt, lambda s: isinstance(s, ast.Expr) and call_attr(s.value) in ('append', 'add', 'extend') and u(s.value.func.value) == src_name, stmts=lp.body)
        elsewhere = [c for c in walk_local(wt) if isinstance(c, ast.Call) and call_attr(c) in ('append', 'add', 'extend', 'insert') and u(c.func.value) == src_name
                     and not any(c is n for n in ast.walk(lp))]
        first_only = len(apps) >= 1 and all(flow.equivalent(c, wcond)[0] for s, c, e in apps) and not elsewhere
        is_dedup = isinstance(src, ast.Call) and call_name(src) in ('dict.fromkeys',)   # an order-preserving dedup is also fine
        elt_ok = u(inc_fmt[0].args[0]) == u(gen.generators[0].target) if not isinstance(gen.generators[0].target, ast.Tuple) else \
            u(inc_fmt[0].args[0]) == u(gen.generators[0].target.elts[0])
        pushed = all(u(s.value.args[0]) == tvar for s, c, e in apps) if not is_dedup else True
        ck.ob('PROV-include-once', top.loc(inc_fmt[0]), (first_only or is_dedup) and elt_ok and pushed and not gen.generators[0].ifs,
              'the #include lines are produced from `{}`, which receives a molecule type exactly when its ITP is written (first occurrence): '
              '{} append site(s) in the loop, guards {}'.format(src_name, len(apps), [flow.show(c)[:60] for s, c, e in apps]), key='PROV-include-once|include-list')
    # counts: one [ molecules ] entry per group, count = consumed + remaining
    cnt_fmt = [c for c in walk_local(wt) if isinstance(c, ast.Call) and call_attr(c) == 'format' and 'num' in [k.arg for k in c.keywords]]
    ck.need(len(cnt_fmt) == 1, 'write_gmx_topology: the [ molecules ] line format not found')
    cgen = top.enclosing(cnt_fmt[0], (ast.GeneratorExp, ast.ListComp))
    csrc = u(cgen.generators[0].iter)
    capps = stmts_with_env(wt, lambda s: isinstance(s, ast.Expr) and call_attr(s.value) == 'append' and u(s.value.func.value) == csrc, stmts=lp.body)
    ok = len(capps) == 1 and flow.valid(capps[0][1]) and any(capps[0][0] is s for s in lp.body)
    ck.ob('PROV-molecules', top.loc(lp), ok, 'every group of successive molecules contributes exactly one [ molecules ] entry (unconditional append to `{}`)'.format(csrc),
          key='PROV-molecules|one-entry-per-group')
    if ok:
        ent = capps[0][0].value.args[0]
        good = isinstance(ent, (ast.List, ast.Tuple)) and len(ent.elts) == 2 and u(ent.elts[0]) == tvar
        k_const = None
        if good and isinstance(ent.elts[1], ast.BinOp) and isinstance(ent.elts[1].op, ast.Add):
            parts = [ent.elts[1].left, ent.elts[1].right]
            consts = [try_fold(p, default=None) for p in parts]
            rest = [p for p, c in zip(parts, consts) if not isinstance(c, int)]
            k_const = next((c for c in consts if isinstance(c, int)), None)
            good = len(rest) == 1 and u(rest[0]) == 'len(list({}))'.format(gvar)
        elif good:
            k_const = 0
            good = u(ent.elts[1]) == 'len(list({}))'.format(gvar)
        # number of next(<group>) calls before the append on every path
        counts = set()
        for events, kind in flow.paths(lp.body):
            n = 0
            for ev in events:
                if ev is capps[0][0]:
                    break
                node = ev[1] if isinstance(ev, tuple) and ev[0] == 'test' else ev
                if isinstance(node, ast.AST):
                    n += sum(1 for c in ast.walk(node) if isinstance(c, ast.Call) and call_name(c) == 'next' and c.args and u(c.args[0]) == gvar)
            if kind == 'fall':
                counts.add(n)
        ck.ob('PROV-molecules', top.loc(capps[0][0]), good and counts == {k_const},
              'the count written is (molecules already taken from the group) + (molecules left): constant {} vs next() calls on the paths {}'.format(k_const, sorted(counts)),
              key='PROV-molecules|count')
    ck.ob('PROV-molecules', top.loc(cnt_fmt[0]), not cgen.generators[0].ifs and u(kwarg(cnt_fmt[0], 'num')) == u(cgen.generators[0].target.elts[1])
          and u(kwarg(cnt_fmt[0], 'mtype')) == u(cgen.generators[0].target.elts[0]),
          'the [ molecules ] lines print every entry, in order', key='PROV-molecules|lines')
    # the representative written is a molecule of that group
    rep = calls_with_env(wt, lambda c: call_name(c) in ('vermouth.gmx.itp.write_molecule_itp', 'write_molecule_itp'))
    ok = len(rep) == 1
    if ok:
        a0 = rep[0][0].args[0]
        d = [v for v in assignments_to(wt, u(a0))]
        ok = len(d) == 1 and u(d[0]) == 'next({})'.format(gvar)
    ck.ob('PROV-molecules', top.loc(lp), ok, 'the ITP written for a type describes the first molecule of the group that introduces the type', key='PROV-molecules|representative')

    # ------------------------------------------------------------ what "same molecule type" means
    sm = mol.func('Molecule.share_moltype_with')
    ck.analysed(mol, sm)
    ret = [s for s in sm.body if isinstance(s, ast.Return)]
    ck.need(len(ret) == 1, 'share_moltype_with: single return not found')
    f = flow.to_formula(ret[0].value, {k: v for s, c, e in stmts_with_env(sm, lambda s: s is ret[0]) for k, v in e.items()})
    names = {}
    ign = None
    for k in flow.atoms_of(f):
        t = ' '.join(map(str, k))
        if k[0] == 'Eq' and 'nrexcl' in t and 'self.' in t and 'other.' in t:
            names[k] = 'NREXCL'
        elif k[0] == 'Eq' and '_force_field' in t and 'self.' in t and 'other.' in t:
            names[k] = 'FF'
        elif k[0] == 'truth' and k[1].startswith('self.same_nodes(other'):
            names[k] = 'NODES'
            call = ast.parse(k[1], mode='eval').body
            ign = try_fold(kwarg(call, 'ignore_attr'), default=None) if kwarg(call, 'ignore_attr') is not None else ()
        elif k[0] == 'truth' and k[1] == 'self.same_edges(other)':
            names[k] = 'EDGES'
        elif k[0] == 'truth' and k[1] == 'self.same_interactions(other)':
            names[k] = 'INTER'
    g = flow.rename(f, names)
    eq, cex, rows = flow.equivalent(g, flow.parse_formula('NREXCL and FF and NODES and EDGES and INTER'))
    ck.ob('DT-same-moltype', mol.loc(ret[0]), eq and len(names) == 5 == len(flow.atoms_of(f)),
          'two molecules share a type exactly when nrexcl, force field, nodes, edges and interactions all agree ({} rows)'.format(rows), key='DT-same-moltype|conjunction')
    # attributes the ITP prints / orders by are compared
    aw = [s for s in ast.walk(iw) if isinstance(s, ast.Expr) and call_attr(s.value) == 'write' and '{atype' in u(s)]
    fmt = try_fold(aw[0].value.args[0].func.value) if aw else None
    printed = {f_.split('.')[0].split('[')[0] for _l, f_, _s, _c in string.Formatter().parse(fmt) if f_} - {'idx', 'max_length'} if isinstance(fmt, str) else set()
    sn = mol.func('Molecule.sorted_nodes')
    order_keys = {c.args[0].value for c in ast.walk(sn) if isinstance(c, ast.Call) and call_attr(c) == 'get' and c.args and isinstance(c.args[0], ast.Constant)}
    ck.need(len(printed) >= 7 and order_keys, 'could not read the attributes printed by the ITP writer / ordering key of sorted_nodes')
    ck.ob('TAB-dedup-compares', mol.loc(sm), ign is not None and not (set(ign) & (printed | order_keys)),
          'attributes ignored when comparing molecule types {} are disjoint from what the ITP prints {} and from the atom ordering key {}'.format(
              sorted(ign or []), sorted(printed), sorted(order_keys)), key='TAB-dedup-compares|ignore')
    n_zip = shared.zip_prefix(ck, 'vermouth/molecule.py', ['Molecule.same_nodes', 'Molecule.same_edges', 'Molecule.same_interactions', 'Molecule.share_moltype_with',
                                                          'Molecule.__eq__', 'Interaction.__eq__', 'interaction_match', 'attributes_match'])
    ck.extra['zip_sites_in_equality_predicates'] = n_zip
    si = mol.func('Molecule.same_interactions')
    ck.analysed(mol, si)
    rets = [r for r in walk_local(si) if isinstance(r, ast.Return)]
    whole = [c for c in walk_local(si) if isinstance(c, ast.Compare) and len(c.ops) == 1 and isinstance(c.ops[0], (ast.Eq, ast.NotEq)) and
             sorted(u(x) for x in (c.left, c.comparators[0])) == ['other.interactions[interaction_type]', 'self.interactions[interaction_type]']]
    keyeq = [c for c in walk_local(si) if isinstance(c, ast.Compare) and sorted(u(x) for x in (c.left, c.comparators[0])) == ['keys_other', 'keys_self']]
    zips = [c for c in walk_local(si) if isinstance(c, ast.Call) and call_name(c) == 'zip']
    ck.ob('TAB-dedup-compares', mol.loc(si), len(keyeq) == 1 and (len(whole) == 1 or bool(zips)),
          'same_interactions compares the sets of non-empty categories and then the complete interaction list of every category '
          '(whole-list comparison, or a length-guarded walk: see ZIP-prefix)', key='TAB-dedup-compares|same_interactions')
    same_nodes = mol.func('Molecule.same_nodes')
    ck.analysed(mol, same_nodes)
    src_sn = u(same_nodes)
    ck.ob('TAB-dedup-compares', mol.loc(same_nodes), ('list(self.nodes.keys()) != list(other.nodes.keys())' in src_sn or 'list(other.nodes.keys()) != list(self.nodes.keys())' in src_sn) and 'are_different' in src_sn
          and 'if key not in ignore_attr' in src_sn, 'same_nodes compares node keys in order and every non-ignored attribute', key='TAB-dedup-compares|same_nodes')
    # NameMolType
    nd = nm.func('NameMolType._name_with_deduplication')
    ck.analysed(nm, nd)
    outer = [n for n in nd.body if isinstance(n, ast.For)]
    ok = len(outer) == 1 and u(outer[0].iter) == 'system.molecules'
    if ok:
        inner = [n for n in outer[0].body if isinstance(n, ast.For)]
        ok = len(inner) == 1 and inner[0].orelse
        if ok:
            il = inner[0]
            mid = u(il.target.elts[0])
            brks = stmts_with_env(nd, lambda s_: isinstance(s_, ast.Break), stmts=il.body)
            want_atom = ('atom', ('truth', '{}.share_moltype_with({})'.format(u(outer[0].target), u(il.target.elts[1]))))
            effects = [n for st_ in il.body for n in ast.walk(st_) if isinstance(n, ast.stmt) and not isinstance(n, (ast.If, ast.Continue, ast.Break, ast.Pass))
                       and not interp._is_log_stmt(n)]
            ok = len(brks) == 1 and flow.equivalent(brks[0][1], want_atom)[0] and not effects and u(il.iter) == 'representatives'
            new = u(ast.Module(body=il.orelse, type_ignores=[]))
            ok = ok and 'group_id += 1' in new and 'representatives.append((group_id, {}))'.format(u(outer[0].target)) in new and '{} = group_id'.format(mid) in new
            store = [s for s in outer[0].body if isinstance(s, ast.Assign) and 'meta[' in u(s.targets[0])]
            # the name is *assigned* (an earlier value is replaced): the stored value is built from the id alone, it does not read what was there
            ok = ok and len(store) == 1 and mid in u(store[0].value) and 'meta' not in u(store[0].value) and unconditional_in(nd, outer[0].body, store[0])
    ck.ob('DT-same-moltype', nm.loc(nd), ok, 'a molecule takes the name of the first representative it shares its type with, otherwise a new name (decision = share_moltype_with only)',
          key='DT-same-moltype|naming')
    # ---- atoms are not reordered, after molecule types were assigned, by an attribute the type comparison ignores
    cli = idx.mod('bin/martinize2')
    ent = cli.func('entry')
    name_calls = [c for c in walk_local(ent) if isinstance(c, ast.Call) and (call_name(c) or '').endswith('NameMolType')]
    sort_calls = [c for c in walk_local(ent) if isinstance(c, ast.Call) and (call_name(c) or '').endswith('SortMoleculeAtoms')]
    sm_mod = idx.mod('vermouth/processors/sort_molecule_atoms.py')
    sinit = sm_mod.func('SortMoleculeAtoms.__init__')
    from ..util import param_defaults
    sortby = try_fold(param_defaults(sinit).get('sortby_attrs'), default=())
    if name_calls and sort_calls and ign is not None:
        after = [c for c in sort_calls if c.lineno > min(n.lineno for n in name_calls)]
        for c in after:
            keys = try_fold(c.args[0], default=None) if c.args else (try_fold(kwarg(c, 'sortby_attrs'), default=None) if kwarg(c, 'sortby_attrs') is not None else sortby)
            clash = sorted(set(keys or ()) & set(ign))
            ck.ob('SIB-sort-after-naming', cli.loc(c), not clash,
                  'atoms are re-sorted (by {}) after the molecule types were assigned; the type comparison ignores {}: two molecules sharing a type can end up '
                  'in different atom orders while only one ITP is written'.format(list(keys or ()), clash), key='SIB-sort-after-naming|' + ','.join(clash))
    # ---- "same name only if identical topologies" must still hold when the files are written: what runs between the naming and the writers
    AFTER_NAMING = {
        'SortMoleculeAtoms': (True, 'reorders atoms only (which attributes it may sort by is the rule above)'),
        'MergeAllMolecules': (True, 'leaves one molecule: nothing left to share a name with'),
        'VirtualSiteCreator': (True, 'adds one site per backbone particle: a function of the molecule\'s own atoms, the same for identical molecules'),
        'ComputeWaterBias': (True, 'adds site--water interactions from secondary structure and residue numbers, both compared by the naming'),
        'Quoter': (True, 'changes nothing'),
        'ApplyRubberBand': (False, 'adds bonds computed from the *coordinates*: two molecules that were identical when they were named (and share a name) get different '
                                   'elastic networks, while one ITP -- the first molecule\'s -- is written for that name'),
    }
    if name_calls:
        from ..util import runs_after
        runs = [c for c in walk_local(ent) if isinstance(c, ast.Call) and call_attr(c) == 'run_system' and c not in name_calls and
                not any(c is n.func.value or any(x is n for x in ast.walk(c)) for n in name_calls) and
                any(runs_after(ent, cli.stmt_of(n), cli.stmt_of(c)) for n in name_calls)]
        for c in runs:
            recv = c.func.value
            cls_ = recv
            if isinstance(recv, ast.Name):
                cls_ = single_def(ent, recv.id)
            cname = (call_name(cls_) or '').split('.')[-1] if isinstance(cls_, ast.Call) else u(recv).split('.')[-1]
            okp, why = AFTER_NAMING.get(cname, (False, 'not triaged: a step that can change a molecule after the molecule types were named'))
            ck.ob('SIB-edit-after-naming', cli.loc(c), okp, '{} runs after NameMolType: {}'.format(cname, why), key='SIB-edit-after-naming|' + cname)
    # -resid input: the one ITP of a molecule type is printed from its first molecule, the coordinate file from every molecule -- the input numbers are put back
    # on every molecule alike (no molecule skipped, whatever it shares with an earlier one)
    restores = stmts_with_env(ent, lambda s_: isinstance(s_, ast.Expr) and isinstance(s_.value, ast.Call) and call_name(s_.value) in ('nx.set_node_attributes', 'networkx.set_node_attributes')
                              and len(s_.value.args) >= 3 and try_fold(s_.value.args[2], default=None) == 'resid')
    if restores:
        okr = len(restores) == 1
        if okr:
            st_ = restores[0][0]
            loop_ = cli.enclosing(st_, ast.For)
            okr = loop_ is not None and u(loop_.iter) == 'system.molecules' and isinstance(loop_.target, ast.Name) and u(st_.value.args[0]) == loop_.target.id
            if okr:
                rel_ = stmts_with_env(ent, lambda s_: s_ is st_, stmts=loop_.body)
                okr = len(rel_) == 1 and flow.valid(rel_[0][1]) and not any(isinstance(x, (ast.Break, ast.Continue, ast.Return)) for x in ast.walk(loop_))
        ck.ob('SIB-resid-restore', cli.loc(restores[0][0]), okr, 'with -resid input the input residue numbers are put back on every molecule of the system, unconditionally inside '
              'the loop over system.molecules (the ITP comes from the first molecule of a type, the coordinates from all)', key='SIB-resid-restore|every-molecule')
    ck.note('molecule-level meta keys printed by the ITP writer (define, pre/post_section_lines) are not compared by share_moltype_with (outside what C03 states)')
    shared.pure_writer(ck, pdb, pw, [pw.args.args[0].arg])
    shared.pure_writer(ck, itp, iw, [iw.args.args[0].arg])
    shared.pure_writer(ck, top, wt, [wt.args.args[0].arg])
    shared.truthy_zero(ck, ['vermouth/molecule.py', 'vermouth/gmx/itp.py', 'vermouth/gmx/topology.py', 'vermouth/pdb/pdb.py', 'vermouth/processors/name_moltype.py',
                           'vermouth/processors/sort_molecule_atoms.py'])
    # the coordinate record prints the atom's own name / residue name / residue number: every value handed to the record formatter is a plain local read from the
    # node (an over-wide number is cut by the formatter's `t` flag, which keeps the sign and the leading digits consistent with the ITP's number up to the column
    # width -- arithmetic on the number, e.g. a modulo, prints a different number for negative residues)
    fcalls = [c for c in walk_local(pw) if isinstance(c, ast.Call) and call_attr(c) == 'format' and isinstance(c.func.value, ast.Name) and c.func.value.id == 'formatter']
    arith = [u(a) for c in fcalls for a in c.args[1:] if not isinstance(a, (ast.Name, ast.Starred, ast.Constant, ast.Subscript))
             or any(isinstance(x, (ast.BinOp, ast.Call)) for x in ast.walk(a))]
    ck.ob('SIB-atom-order', pdb.loc(pw), bool(fcalls) and not arith, 'the values written into the PDB records are the node\'s own values, unmodified ({} record formatter call(s); '
          'computed arguments: {})'.format(len(fcalls), arith[:3]), key='SIB-atom-order|pdb-values-verbatim')
    printed_copy_columns(ck, 'SIB-atom-order')
    # the coordinate record shows the ITP's residue number only as long as an over-wide number is cut to its columns and does not shift the others (C16's rule on
    # the formatter's spec parser, evaluated here too)
    from .c16 import spec_parse_obligation
    spec_parse_obligation(ck)
    shared.sorted_nodes_rule(ck, 'SIB-atom-order')
    shared.runs_every_molecule(ck, 'vermouth/processors/sort_molecule_atoms.py', 'SortMoleculeAtoms', 'MPT-every-molecule')
    # both output files are written from the same state of the system: every step that changes molecules comes before the first writer
    cli_ = ck.index.mod('bin/martinize2')
    ent_ = cli_.func('entry')
    ck.analysed(cli_, ent_)
    writers = [c for c in walk_local(ent_) if isinstance(c, ast.Call) and call_name(c) in ('write_gmx_topology', 'vermouth.pdb.write_pdb', 'write_pdb', 'vermouth.gmx.gro.write_gro', 'write_gro')]
    changers = [c for c in walk_local(ent_) if isinstance(c, ast.Call) and (call_attr(c) == 'run_system' or call_name(c) in ('nx.set_node_attributes', 'martinize', 'pdb_to_universal') or
                                                                          call_attr(c) in ('add_node', 'remove_node', 'add_interaction', 'remove_nodes_from', 'merge_molecule'))]
    stores = [n for n in walk_local(ent_) if isinstance(n, (ast.Subscript, ast.Attribute)) and isinstance(n.ctx, ast.Store) and ('molecule' in u(n) or 'system' in u(n))]
    first = min((c.lineno for c in writers), default=None)
    late = [u(c)[:60] for c in changers if first is not None and c.lineno > first and not (call_attr(c) == 'run_system' and 'Quoter' in u(c))] + \
        [u(n)[:60] for n in stores if first is not None and n.lineno > first]
    ck.ob('SIB-atom-order', cli_.loc(ent_), len(writers) >= 2 and not late, 'topology and coordinates are written from the same state: no processor run, attribute assignment or edit of the '
          'system happens after the first output writer ({} writer call(s); late: {})'.format(len(writers), late), key='SIB-atom-order|writers-same-state')
    # the value comparison behind same_nodes: whole numbers (atom / residue numbers, charge groups) are compared exactly, reals up to rounding
    ut = ck.index.mod('vermouth/utils.py')
    ad = ut.func('are_different')
    ck.analysed(ut, ad)
    import math
    import numbers as _numbers

    def _isclose(a, b, equal_nan=False, rtol=1e-05, atol=1e-08):
        if isinstance(a, float) and isinstance(b, float) and math.isnan(a) and math.isnan(b):
            return bool(equal_nan)
        return abs(a - b) <= atol + rtol * abs(b)
    class _NpInt:
        """Stand-in for a numpy integer: a whole number (numbers.Integral) that is not a Python int -- what a residue number read through numpy is."""
        def __init__(self, v):
            self.v = v

        def __eq__(self, other):
            return isinstance(other, _NpInt) and self.v == other.v

        def __ne__(self, other):
            return not self.__eq__(other)

        def __hash__(self):
            return hash(self.v)

        def __sub__(self, other):
            return self.v - (other.v if isinstance(other, _NpInt) else other)

        def __rsub__(self, other):
            return other - self.v

        def __abs__(self):
            return abs(self.v)

        def __mul__(self, other):
            return self.v * other

        __rmul__ = __mul__

        def __repr__(self):
            return 'np.int64({})'.format(self.v)
    _numbers.Integral.register(_NpInt)
    cases = [(_NpInt(200000), _NpInt(200001), True), (_NpInt(12), _NpInt(12), False), (7, 7, False), (7, 8, True), (200000, 200001, True), (1000000, 1000001, True), (0, 0, False), (-3, -3, False), (1.0, 1.0 + 1e-9, False), (0.5, 0.6, True),
             (float('nan'), float('nan'), False), (1, 1.0, True), (None, None, False), ('a', 'a', False), ('a', 'b', True), (True, False, True)]
    bad = []
    try:
        for left, right, want in cases:
            env = {'left': left, 'right': right, 'left.__class__': left.__class__, 'right.__class__': right.__class__, 'numbers.Integral': _numbers.Integral,
                   'numbers.Number': _numbers.Number, 'np.isclose': _isclose, 'numpy.isclose': _isclose, 'str': str, 'bytes': bytes}
            got = interp.call(ad.body, env)
            if bool(got) != want or isinstance(got, tuple):
                bad.append('are_different({!r}, {!r}) = {!r}, expected {}'.format(left, right, got, want))
    except interp.Unsupported as err:
        bad = ['outside the interpretable fragment: {}'.format(err)]
    ck.ob('DT-same-moltype', ut.loc(ad), not bad, 'are_different, interpreted on {} value pairs: whole numbers (Python or numpy integers) differ whenever they are not equal (200000 vs 200001 included -- the ITP prints '
          'these numbers), reals are compared up to rounding, nan equals nan, different types differ{}'.format(len(cases), '' if not bad else ' -- ' + '; '.join(bad[:3])),
          key='DT-same-moltype|are_different')
    ck.assume('file contents are not decided; equal topologies are assumed to print equal text')
