"""C04 -- atoms are identified by connectivity, not by the names in the input (narrow)."""
import ast

from ..index import u, call_name, call_attr, walk_local, base_name
from .. import flow
from ..fold import try_fold
from ..util import stmts_with_env, calls_with_env, assignments_to, single_def, kwarg, param_names
from . import shared
from . import c19
from .common import method, unconditional_in

RG = 'vermouth/processors/repair_graph.py'
IS = 'vermouth/ismags.py'


def run(ck):
    idx = ck.index
    mod = idx.mod(RG)
    ism = idx.mod(IS)
    mr = mod.func('make_reference')
    rr = mod.func('repair_residue')
    rg = mod.func('repair_graph')
    for f in (mr, rr, rg):
        ck.analysed(mod, f)

    # ------------------------------------------------------------ PROV: the matcher predicate is blind to names
    calls = [c for c in walk_local(mr) if isinstance(c, ast.Call) and call_name(c) == 'ISMAGS']
    ck.need(len(calls) == 1, 'make_reference: ISMAGS construction not found')
    c = calls[0]
    nmatch = kwarg(c, 'node_match')
    ok = isinstance(nmatch, ast.Call) and (call_name(nmatch) or '').endswith('categorical_node_match') and \
        [try_fold(a, default='?') for a in nmatch.args] == ['element', None]
    ck.ob('PROV-name-blind', mod.loc(c), ok, 'the node predicate handed to the matcher compares the element only (`{}`); atom names never decide a match'.format(u(nmatch)),
          key='PROV-name-blind|node_match')
    ck.ob('PROV-name-blind', mod.loc(c), kwarg(c, 'edge_match') is None, 'no edge predicate: every bond counts the same', key='PROV-name-blind|edge_match')
    a0, a1 = [u(single_def(mr, u(a))) if isinstance(a, ast.Name) else u(a) for a in c.args[:2]]
    ck.ob('PROV-name-blind', mod.loc(c), a0 == 'nx.relabel_nodes(reference, new_reference_names, copy=True)' and a1 == 'nx.relabel_nodes(residue, new_residue_names, copy=True)',
          'the matcher sees the reference block and the input residue, each relabelled by its sorting rank', key='PROV-name-blind|graphs')
    lcs = [x for x in walk_local(mr) if isinstance(x, ast.Call) and call_attr(x) == 'largest_common_subgraph']
    nx_ = [s for s in ast.walk(mr) if isinstance(s, ast.Assign) and u(s.value) == 'next(match_iter)']
    ck.ob('PROV-name-blind', mod.loc(mr), len(lcs) == 1 and len(nx_) == 1, 'the match used is the first largest common subgraph the search returns', key='PROV-name-blind|largest')

    # ------------------------------------------------------------ SIB: names only bias the node order, the same way on both sides
    keys = {}
    for name in ('new_residue_names', 'new_reference_names'):
        d = single_def(mr, name)
        lam = None
        src = None
        if d is not None:
            for n in ast.walk(d):
                if isinstance(n, ast.Call) and call_name(n) == 'sorted':
                    src = u(n.args[0])
                    lam = kwarg(n, 'key')
        keys[name] = (src, lam)
    want = {'new_residue_names': ('residue', 'res_names', 'ref_names'), 'new_reference_names': ('reference', 'ref_names', 'res_names')}
    for name, (graph, own, other) in want.items():
        src, lam = keys[name]
        ok = src == graph and isinstance(lam, ast.Lambda) and len(lam.args.args) == 1
        if ok:
            v = lam.args.args[0].arg
            body = lam.body
            ok = isinstance(body, ast.Tuple) and len(body.elts) == 2 and u(body.elts[1]) == '{}[{}]'.format(own, v) and \
                isinstance(body.elts[0], ast.Compare) and isinstance(body.elts[0].ops[0], ast.NotIn) and u(body.elts[0].left) == '{}[{}]'.format(own, v)
        ck.ob('SIB-sort-key', mod.loc(mr), ok,
              '{} are ranked by (name not shared with the other graph, atom name) -- by the name, never by the input position (`{}`)'.format(graph, u(lam) if lam is not None else '?'),
              key='SIB-sort-key|' + graph)
    for name, tbl, graph in (('res_names', 'residue', 'residue'), ('ref_names', 'reference', 'reference')):
        d = single_def(mr, name)
        ok = d is not None and u(d) == "{{idx: get_default({g}.nodes[idx], 'atomname', '\\uffff') for idx in {g}}}".format(g=graph)
        ck.ob('SIB-sort-key', mod.loc(mr), ok, 'the name used for ranking the {} is the atom name (missing names last)'.format(graph), key='SIB-sort-key|names|' + graph)
    inv = {n: single_def(mr, n) for n in ('old_res_names', 'old_ref_names')}
    ok = u(inv['old_res_names']) == '{v: k for k, v in new_residue_names.items()}' and u(inv['old_ref_names']) == '{v: k for k, v in new_reference_names.items()}'
    un = [s for s in ast.walk(mr) if isinstance(s, ast.Assign) and u(s.targets[0]) == 'match' and isinstance(s.value, ast.DictComp)]
    ok = ok and len(un) == 1 and u(un[0].value) == '{old_ref_names[ref]: old_res_names[res] for ref, res in match.items()}'
    ck.ob('SIB-sort-key', mod.loc(mr), ok, 'the match is translated back through the inverse of exactly those rankings (reference rank -> block atom, residue rank -> input atom)',
          key='SIB-sort-key|unsort')

    # ------------------------------------------------------------ CACHE: the symmetry cache key covers every input
    an = ism.func('ISMAGS.analyze_symmetry')
    ck.analysed(ism, an)
    params = [p for p in param_names(an) if p != 'self']
    kd = [s for s in ast.walk(an) if isinstance(s, ast.Assign) and u(s.targets[0]) == 'key']
    ok = len(kd) == 1
    used = set()
    if ok:
        used = {n.id for n in ast.walk(kd[0].value) if isinstance(n, ast.Name)}
    compute_reads = set()
    for s in an.body:
        if isinstance(s, ast.If):
            continue
        for n in ast.walk(s):
            if isinstance(n, ast.Name) and n.id in params and isinstance(n.ctx, ast.Load):
                compute_reads.add(n.id)
    ck.ob('CACHE-key', ism.loc(an), ok and compute_reads <= used and set(params) <= used,
          'the memo key of the symmetry analysis mentions every input the result is computed from: key uses {}, computation reads {}'.format(sorted(used & set(params)), sorted(compute_reads)),
          key='CACHE-key|analyze_symmetry')
    ck.ob('CACHE-key', mod.loc(mr), u(kwarg(c, 'cache')) == 'symmetry_cache' and u(single_def(mr, 'symmetry_cache')) == '{}',
          'the cache shared between the residues of one molecule starts empty', key='CACHE-key|fresh')

    # symmetry constraints: only "representative before each other member of its coset", nothing among the other members
    mkc = ism.func('ISMAGS._make_constraints')
    ck.analysed(ism, mkc)
    adds = stmts_with_env(mkc, lambda s_: isinstance(s_, ast.Expr) and isinstance(s_.value, ast.Call) and call_attr(s_.value) in ('add', 'update') and u(s_.value.func.value) == 'constraints')
    ok = len(adds) == 1 and call_attr(adds[0][0].value) == 'add'
    if ok:
        st, cnd, e = adds[0]
        lps = [l for l in ism.ancestors(st) if isinstance(l, ast.For)]
        ok = len(lps) == 2 and u(lps[1].iter) == 'cosets.items()' and u(lps[0].iter) == u(lps[1].target.elts[1]) and \
            u(st.value.args[0]) == '({}, {})'.format(u(lps[1].target.elts[0]), u(lps[0].target))
        atoms = flow.atoms_of(cnd)
        ok = ok and len(atoms) == 1 and list(atoms)[0][0] == 'Eq' and set(list(atoms)[0][1:]) == {u(lps[1].target.elts[0]), u(lps[0].target)} and \
            flow.equivalent(cnd, flow.NOT(('atom', list(atoms)[0])))[0]
    ck.ob('PROV-symmetry-constraints', ism.loc(mkc), ok, 'a coset {i: members} yields exactly the constraints (i, t) for every other member t -- the members are not ordered among themselves '
          '(they need not stay interchangeable once i is fixed)', key='PROV-symmetry-constraints')
    # both search entry points derive their symmetry constraints from the *pattern* graph (the subgraph), with that graph's own partitions and colours
    triples = {}
    for name in ('find_isomorphisms', 'largest_common_subgraph'):
        m_ = ck.need(method(ism.cls('ISMAGS'), name), 'ISMAGS.{} vanished'.format(name))
        ck.analysed(ism, m_)
        triples[name] = [[u(a) for a in c.args] for c in walk_local(m_) if isinstance(c, ast.Call) and call_attr(c) == 'analyze_symmetry']
    want = [['self.subgraph', 'self._sgn_partitions', 'self._sge_colors']]
    ck.ob('PROV-symmetry-constraints', IS, all(v == want for v in triples.values()),
          'the constraints that break symmetry are computed on the pattern graph with its own node partitions and edge colours, in both search entry points ({}); constraints taken from the '
          'other graph would apply to atoms that are not equivalent'.format(triples), key='PROV-symmetry-constraints|source')
    # _patch_modification: the new indices are assigned in the order the added atoms are united
    pmf = mod.func('_patch_modification')
    ck.analysed(mod, pmf)
    na = single_def(pmf, 'non_anchor')
    ok = na is not None and isinstance(na, ast.Call) and call_name(na) in ('nx.subgraph', 'networkx.subgraph') and len(na.args) == 2 and 'nx.disjoint_union(block, non_anchor)' in u(pmf)
    if ok:
        # the numbering statements (between the inverse table and the union) are interpreted on a sample: added atom k gets index len(block) + k
        from .. import interp
        coll = u(na.args[1])
        i0 = next((i for i, s_ in enumerate(pmf.body) if isinstance(s_, ast.Assign) and u(s_.targets[0]) == 'mod_to_block'), None)
        i1 = next((i for i, s_ in enumerate(pmf.body) if 'disjoint_union' in u(s_)), None)
        ok = i0 is not None and i1 is not None and i0 < i1
        if ok:
            env_ = {coll: ['x', 'y', 'z'], 'block': ['a', 'b', 'c', 'd'], 'block_to_mod': {0: 'p', 2: 'q'}}
            try:
                interp.run_stmts(pmf.body[i0:i1], env_)
                ok = env_.get('mod_to_block') == {'p': 0, 'q': 2, 'x': 4, 'y': 5, 'z': 6}
            except (interp.Unsupported, interp.Returned):
                ok = False
    ck.ob('SIB-index-space', mod.loc(pmf), ok, 'the atoms a modification adds are numbered by zipping the very collection `{}` whose subgraph view is united with the block '
          '(both enumerate the same object, so added atom k gets index len(block)+k on both sides)'.format(u(na.args[1]) if ok else '?'), key='SIB-index-space|patch_modification')
    eb = [l for l in pmf.body if isinstance(l, ast.For) and call_attr(l.iter) == 'edges_between']
    ok = len(eb) == 1 and [u(a) for a in eb[0].iter.args] == ['anchor_idxs', 'non_anchor_idxs'] and u(eb[0].iter.func.value) == 'modification'
    if ok:
        ae = [c for c in ast.walk(eb[0]) if isinstance(c, ast.Call) and call_attr(c) == 'add_edge']
        env_ = {u(s_.targets[0]): u(s_.value) for s_ in eb[0].body if isinstance(s_, ast.Assign)}
        ends = [env_.get(u(a), u(a)) for a in ae[0].args[:2]] if len(ae) == 1 else []
        ok = ends == ['mod_to_block[{}]'.format(u(e)) for e in eb[0].target.elts] and all(unconditional_in(pmf, eb[0].body, s_) for s_ in eb[0].body)
    ck.ob('PROV-patch-bonds', mod.loc(pmf), ok, 'every bond of the modification between an anchor atom and an added atom (whichever way round it is stored: `edges_between`) '
          'is added to the patched block, unconditionally', key='PROV-patch-bonds|attach')
    # ------------------------------------------------------------ canonical attributes onto matched atoms
    upd = stmts_with_env(rr, lambda s: isinstance(s, ast.Expr) and call_attr(s.value) == 'update' and u(s.value.func.value) == 'node' and u(s.value.args[0]) == 'ref_node')
    ok = len(upd) >= 1
    first = [x for x in upd if any(k[0] == 'In' and k[1] == 'ref_idx' and k[2] == 'match' for k in flow.atoms_of(x[1]))]
    ok = ok and len(first) == 1
    if ok:
        st, cnd, e = first[0]
        arm = mod.enclosing(st, ast.If).body
        nd = [x for x in arm if isinstance(x, ast.Assign) and u(x.targets[0]) == 'node']
        ri = [x for x in arm if isinstance(x, ast.Assign) and u(x.targets[0]) == 'res_idx']
        ok = len(nd) == 1 and u(nd[0].value) == 'molecule.nodes[res_idx]' and len(ri) == 1 and u(ri[0].value) == 'match[ref_idx]' and \
            flow.implies(cnd, ('atom', ('In', 'ref_idx', 'match')))[0] and any(x is st for x in arm)
        rn = [x for x in ast.walk(mod.enclosing(st, ast.For)) if isinstance(x, ast.Assign) and u(x.targets[0]) == 'ref_node']
        ok = ok and len(rn) == 1 and u(rn[0].value) == 'reference.nodes[ref_idx].copy()'
    ck.ob('PROV-canonical', mod.loc(rr), ok, 'every matched atom receives the attributes (canonical name included) of the block atom it is matched to', key='PROV-canonical|matched')
    lp = [n for n in rr.body if isinstance(n, ast.For) and u(n.iter) == 'reference']
    ok = len(lp) == 1
    if ok:
        miss = stmts_with_env(rr, lambda s: isinstance(s, ast.Expr) and call_attr(s.value) == 'append' and u(s.value.func.value) == 'missing', stmts=lp[0].body)
        ok = len(miss) == 1 and flow.equivalent(miss[0][1], flow.NOT(('atom', ('In', 'ref_idx', 'match'))))[0] and u(miss[0][0].value.args[0]) == 'ref_idx'
    ck.ob('PROV-canonical', mod.loc(rr), ok, 'every block atom without a match is recorded as missing', key='PROV-canonical|missing')
    # rebuilt atoms are bonded to every neighbour that is present at that moment
    wl = [n for n in rr.body if isinstance(n, ast.While)]
    ck.need(len(wl) == 1, 'repair_residue: rebuilding loop not found')
    fl = [n for n in wl[0].body if isinstance(n, ast.For) and u(n.iter) in ('missing', 'list(missing)', 'tuple(missing)', 'missing[:]', 'missing.copy()')]
    ck.need(len(fl) == 1, 'repair_residue: loop over the missing atoms not found')
    body = fl[0].body
    mstore = [s for s in body if isinstance(s, ast.Assign) and u(s.targets[0]) == 'match[ref_idx]' and u(s.value) == 'res_idx']
    nloop = [n for n in body if isinstance(n, ast.For) and u(n.iter) == 'reference[ref_idx]']
    ok = len(mstore) == 1 and len(nloop) == 1 and body.index(mstore[0]) < body.index(nloop[0])
    detail = ''
    if ok:
        nl = nloop[0]
        nv = u(nl.target)
        adds = stmts_with_env(rr, lambda s: isinstance(s, ast.Expr) and call_attr(s.value) == 'add_edge', stmts=nl.body)
        ok = len(adds) == 1
        if ok:
            st, cnd, e = adds[0]
            # the only ways to skip a neighbour: it has no entry in the live match table / the edge exists already
            tries = [t for t in nl.body if isinstance(t, ast.Try)]
            by_try = len(tries) == 1 and any('match[{}]'.format(nv) in u(s) for s in tries[0].body) and \
                all('KeyError' in u(h.type) and isinstance(h.body[-1], ast.Continue) for h in tries[0].handlers)
            atoms = flow.atoms_of(cnd)
            by_test = any(k[0] == 'In' and k[1] == nv and k[2] == 'match' for k in atoms)
            others = [k for k in atoms if not (k[0] == 'truth' and 'has_edge(' in k[1]) and not (k[0] == 'In' and k[2] == 'match')]
            ok = (by_try or by_test) and not others
            detail = '' if ok else ' (skip conditions: {})'.format([' '.join(map(str, k))[:60] for k in atoms])
            ends = sorted(u(flow.subst(a, e)) for a in st.value.args[:2])
            ok = ok and ends == sorted(['match[{}]'.format(nv), 'res_idx'])
    ck.ob('PROV-rebuild', mod.loc(fl[0]), ok, 'a rebuilt atom is bonded to every block neighbour that has an atom in the residue at that moment (the live match table decides), '
          'including atoms rebuilt earlier in the same pass' + detail, key='PROV-rebuild|bonds')
    pops = [s for s in body if isinstance(s, ast.Expr) and call_attr(s.value) == 'pop' and 'missing' in u(s)]
    ck.ob('PROV-rebuild', mod.loc(fl[0]), len(pops) == 1 and body.index(pops[0]) < body.index(mstore[0]) if mstore else False,
          'a rebuilt atom stops counting as missing at once', key='PROV-rebuild|missing-updated')
    ri = [s for s in body if isinstance(s, ast.Assign) and u(s.targets[0]) == 'res_idx']
    ck.ob('PROV-rebuild', mod.loc(fl[0]), len(ri) == 1 and u(ri[0].value) == 'max(molecule) + 1', 'rebuilt atoms get fresh keys above all existing ones', key='PROV-rebuild|keys')

    # a rebuilt atom is the block atom: the block atom's attributes win over the attributes common to the residue
    # (the statements from the new atom's attribute dictionary up to its insertion are interpreted on a sample: spelling-independent)
    from .. import interp
    addn = [s_ for s_ in body if isinstance(s_, ast.Expr) and call_attr(s_.value) == 'add_node' and u(s_.value.func.value) == 'molecule']
    nodedefs = [s_ for s_ in body if isinstance(s_, ast.Assign) and u(s_.targets[0]) == 'node']
    ok = len(addn) == 1 and len(nodedefs) >= 1 and u(addn[0].value) == 'molecule.add_node(res_idx, **node)' and body.index(nodedefs[0]) < body.index(addn[0])
    if ok:
        env_ = {'ref_residue': {'chain': 'Q', 'resid': 17, 'resname': 'XYZ', 'insertion_code': 'C', 'match': {1: 2}, 'found': 'F', 'reference': 'R', 'nnodes': 3, 'nedges': 2, 'density': 0.5},
                'reference.nodes': {5: {'atomname': 'CB', 'element': 'C', 'resid': 99, 'resname': 'BLOCK', 'charge': 0.1}}, 'ref_idx': 5, 'res_idx': 40, 'match': {}}
        try:
            interp.run_stmts(body[body.index(nodedefs[0]):body.index(addn[0])], env_)
            got = env_.get('node')
            ok = isinstance(got, dict) and got.get('atomname') == 'CB' and got.get('element') == 'C' and got.get('resname') == 'BLOCK' and got.get('charge') == 0.1 and \
                got.get('resid') == 17 and got.get('chain') == 'Q' and got.get('insertion_code') == 'C' and got.get('atomid') == 41 and \
                env_['reference.nodes'][5].get('resid') == 99
        except (interp.Unsupported, interp.Returned, KeyError, TypeError):
            ok = False
    ck.ob('PROV-rebuild', mod.loc(fl[0]), ok, 'a rebuilt atom starts from the attributes shared by the residue and is then overwritten with the block atom\'s own attributes '
          '(name, element, ...; the block\'s resid excepted), so the block atom wins', key='PROV-rebuild|attributes')
    unrecognised_rules(ck, 'PROV-unrecognised')
    # an unrecognised atom stays in the molecule (marked) unless its own residue carries a request: it is the molecule's atom that is asked,
    # not the residue graph, whose attributes repair_residue has just overwritten with the (shared, possibly annotated) reference block's
    c19.surplus_rule(ck, 'PROV-unrecognised-kept')
    shared.reference_residue_rules(ck, 'PROV-reference')
    shared.rebuilt_atom_identity(ck, 'PROV-rebuilt')
    shared.truthy_zero(ck, [RG])
    shared.runs_every_molecule(ck, 'vermouth/processors/repair_graph.py', 'RepairGraph', 'MPT-every-molecule')
    ck.assume('that the search returns a largest match and that the result is invariant under renaming/permutation depend on the ISMAGS search outcome (C06, not applicable)')


def unrecognised_rules(ck, rule):
    """repair_graph(): which atoms are labelled unrecognised (PTM_atom) -- shared by C04 and C14."""
    mod = ck.index.mod(RG)
    rg = mod.func('repair_graph')
    ck.analysed(mod, rg)
    # ------------------------------------------------------------ PROV: unrecognised = complement of the match
    ex = single_def(rg, 'extra')
    ok = ex is not None and u(ex) == 'set(found.nodes) - set(match.values())'
    lps = [n for n in ast.walk(rg) if isinstance(n, ast.For) and u(n.iter) == 'extra']
    ok = ok and len(lps) == 1
    if ok:
        marks = [s for s in lps[0].body if isinstance(s, ast.Assign) and "['PTM_atom']" in u(s.targets[0]) and try_fold(s.value) is True]
        ok = len(marks) == 2 and all(unconditional_in(rg, lps[0].body, s) for s in marks)
    other_marks = [s for s in ast.walk(rg) if isinstance(s, ast.Assign) and "['PTM_atom']" in u(s.targets[0]) and not (lps and any(s is n for n in ast.walk(lps[0])))]
    ck.ob(rule, mod.loc(rg), ok and not other_marks, 'exactly the atoms of the residue outside the match are marked unrecognised', key=rule + '|complement')
    rloop = [l for l in rg.body if isinstance(l, ast.For) and u(l.iter) == 'reference_graph']
    ok_all = len(rloop) == 1 and bool(lps) and unconditional_in(rg, rloop[0].body, lps[0]) and \
        not any(isinstance(n, (ast.Break, ast.Return)) for n in ast.walk(rloop[0]))
    ck.ob(rule, mod.loc(rg), ok_all, 'the marking runs for every residue of the reference graph, unconditionally (no residue is skipped on a count or a shortcut)',
          key=rule + '|every-residue')
    fd_env = stmts_with_env(rg, lambda s: isinstance(s, ast.Assign) and u(s.targets[0]) in ('found', 'match'))
    fd = [s for s, _c, _e in fd_env]
    # read through the residue's node, spelled out or through the local that already names it
    alias = {k: v for k, v in (('residue', single_def(rg, 'residue')),) if v is not None and u(v) == 'reference_graph.nodes[residx]'}
    ok = {u(s.targets[0]): u(flow.subst(s.value, alias)) for s in fd} == {'found': "reference_graph.nodes[residx]['found']", 'match': "reference_graph.nodes[residx]['match']"}
    call_rr = [s for s in ast.walk(rg) if isinstance(s, ast.Expr) and call_name(s.value) == 'repair_residue']
    ok = ok and len(call_rr) == 1 and all(call_rr[0].lineno < s.lineno for s in fd)
    ck.ob(rule, mod.loc(rg), ok, 'the complement is taken after the residue was repaired (rebuilt atoms are in the match)', key=rule + '|after-repair')
