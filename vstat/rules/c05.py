"""C05 -- links are applied at exactly the places where they fit."""
import ast
import itertools

from ..index import u, call_name, call_attr, walk_local, base_name
from .. import flow, interp
from ..fold import try_fold
from ..util import stmts_with_env, calls_with_env, assignments_to, single_def, kwarg, param_names
from .common import method, unconditional_in, atom_text
from . import shared

DL = 'vermouth/processors/do_links.py'
MOL = 'vermouth/molecule.py'
FF = 'vermouth/ffinput.py'


def documented_order_relation(t1, v1, t2, v2, r1, r2):
    """The comparison matrix of the match_order docstring / file-format documentation."""
    sg = interp.sign
    if t1 == 'number' and t2 == 'number':
        return (v2 - v1) == (r2 - r1)
    if t1 == 'number' and v1 == 0:
        if t2 == '><':
            return sg(r2 - r1) == sg(v2)
        if t2 == '*':
            return r1 != r2
    if t1 == '><':
        if t2 == 'number' and v2 == 0:
            return sg(r1 - r2) == sg(v1)
        if t2 == '><':
            return sg(r2 - r1) == sg(v2 - v1)
    if t1 == '*':
        if t2 == 'number' and v2 == 0:
            return r1 != r2
        if t2 == '*':
            return (v1 == v2) == (r1 == r2)
    return True


def breaks_of(module, fn, loop):
    """[(break stmt, condition relative to the loop body)]"""
    out = []
    for st, c, e in stmts_with_env(fn, lambda s: isinstance(s, ast.Break), stmts=loop.body):
        # only breaks that belong to this loop
        owner = module.enclosing(st, (ast.For, ast.While))
        if owner is loop:
            out.append((st, c, e))
    return out


def run(ck):
    idx = ck.index
    mod = idx.mod(DL)
    ml = mod.func('match_link')
    nv = mod.func('_is_valid_non_edges')
    mo = mod.func('match_order')
    io = mod.func('_interpret_order')
    bl = mod.func('_build_link_interaction_from')
    apm = mod.func('_any_pattern_match')
    pm = mod.func('_pattern_match')
    dl = mod.cls('DoLinks')
    rm = ck.need(method(dl, 'run_molecule'), 'DoLinks.run_molecule vanished')
    for f in (ml, nv, mo, io, bl, apm, pm, rm):
        ck.analysed(mod, f)

    # ------------------------------------------------------------ REL: every condition controls the yield
    ys = [n for n in walk_local(ml) if isinstance(n, (ast.Yield, ast.YieldFrom))]
    ck.ob('REL-yield', mod.loc(ml), len(ys) == 1, 'match_link has one yield site ({} found)'.format(len(ys)), key='REL-yield|single')
    if len(ys) != 1:
        return
    yst = mod.stmt_of(ys[0])
    found = stmts_with_env(ml, lambda s: s is yst)
    cond, env = found[0][1], found[0][2]
    atoms = {k: ' '.join(map(str, k)) for k in flow.atoms_of(cond)}
    # 1. molecule-level conditions
    meta = [k for k, t in atoms.items() if k[0] == 'truth' and k[1] == 'attributes_match(molecule.meta, link.molecule_meta)']
    ck.ob('REL-yield', mod.loc(yst), len(meta) == 1 and flow.implies(cond, ('atom', meta[0]))[0],
          'a placement is yielded only when the molecule-level conditions of the link hold (attributes_match(molecule.meta, link.molecule_meta))', key='REL-yield|molecule_meta')
    # 2. non-edges
    ne = [k for k, t in atoms.items() if k[0] == 'truth' and k[1].startswith('_is_valid_non_edges(molecule, link, ')]
    ck.ob('REL-yield', mod.loc(yst), len(ne) == 1 and flow.implies(cond, ('atom', ne[0]))[0] and '{value: key for key, value in raw_match.items()}' in ne[0][1],
          'a placement is yielded only when none of the link\'s non-edges is present (checked on the link -> molecule correspondence of this placement)', key='REL-yield|non_edges')
    # 3. patterns
    pa = [k for k, t in atoms.items() if k[0] == 'truth' and k[1] == 'link.patterns']
    pb = [k for k, t in atoms.items() if k[0] == 'truth' and k[1].startswith('_any_pattern_match(molecule, link.patterns, ')]
    ok = len(pa) == 1 and len(pb) == 1 and flow.implies(cond, flow.OR(flow.NOT(('atom', pa[0])), ('atom', pb[0])))[0]
    ck.ob('REL-yield', mod.loc(yst), ok, 'when the link has patterns, a placement is yielded only if one of them matches', key='REL-yield|patterns')
    # 4. order: the yield sits in the for-else chain of the two order loops
    chain = [a for a in mod.ancestors(yst) if isinstance(a, ast.For) and any(yst is n for s in a.orelse for n in ast.walk(s))]
    ck.ob('REL-yield', mod.loc(yst), len(chain) == 2, 'the yield is reached only when neither order loop was left by a break ({} enclosing for-else)'.format(len(chain)),
          key='REL-yield|for-else')
    if len(chain) == 2:
        pair_loop, atom_loop = chain[0], chain[1]
        b1 = breaks_of(mod, ml, atom_loop)
        ok = len(b1) == 1 and u(atom_loop.iter) == 'raw_match.items()'
        if ok:
            c = b1[0][1]
            names = {}
            for k in flow.atoms_of(c):
                t = ' '.join(map(str, k))
                if k[0] == 'In' and k[1] == "'order'":
                    names[k] = 'HASORDER'
                elif k[0] == 'In' and k[2] == 'order_match':
                    names[k] = 'SEEN'
                elif k[0] == 'Eq' and 'order_match[' in t and "['resid']" in t and 'molecule.nodes[' in t:
                    names[k] = 'SAMERESID'
            ok = flow.equivalent(flow.rename(c, names), flow.parse_formula('HASORDER and SEEN and not SAMERESID'))[0]
            stores = [s for s in ast.walk(atom_loop) if isinstance(s, ast.Assign) and u(s.targets[0]) == 'order_match[order]']
            ok = ok and len(stores) == 1 and u(stores[0].value) == 'resid'
        ck.ob('REL-yield', mod.loc(atom_loop), ok, 'atoms that share an order must sit in the same residue: a second atom with a known order and a different resid rejects the placement',
              key='REL-yield|order-same-residue')
        b2 = breaks_of(mod, ml, pair_loop)
        ok = len(b2) == 1 and u(pair_loop.iter) == 'combinations(order_match.items(), 2)'
        if ok:
            c = b2[0][1]
            tgt = u(pair_loop.target)
            want = 'match_order(order1, resid1, order2, resid2)'
            ok = flow.equivalent(c, flow.NOT(('atom', ('truth', want))))[0] and tgt.replace(' ', '') == '((order1,resid1),(order2,resid2))'
        ck.ob('REL-yield', mod.loc(pair_loop), ok, 'every pair of (order, resid) of the placement must satisfy the order relation', key='REL-yield|order-relation')
    # the yielded correspondence is link -> molecule of this raw match
    ck.ob('REL-yield', mod.loc(yst), u(ys[0].value) == '{v: k for k, v in raw_match.items()}', 'the placement yielded maps link atoms to molecule atoms', key='REL-yield|value')
    gm = [c for c in walk_local(ml) if isinstance(c, ast.Call) and (call_name(c) or '').endswith('GraphMatcher')]
    ok = len(gm) == 1 and [u(a) for a in gm[0].args] == ['molecule', 'link'] and u(kwarg(gm[0], 'node_match')) == '_atoms_match'
    it = single_def(ml, 'raw_matches')
    ok = ok and it is not None and call_attr(it) == 'subgraph_isomorphisms_iter'
    ck.ob('REL-yield', mod.loc(ml), ok, 'candidate placements are all induced subgraph isomorphisms of the link in the molecule under the atom predicate', key='REL-yield|candidates')

    # ------------------------------------------------------------ non-edge filter examines all non-edges
    rets = stmts_with_env(nv, lambda s: isinstance(s, ast.Return))
    loop = [n for n in nv.body if isinstance(n, ast.For) and u(n.iter) == 'link.non_edges']
    inside = [r for r in rets if loop and any(r[0] is n for n in ast.walk(loop[0]))]
    outside = [r for r in rets if r not in inside]
    ok = len(loop) == 1 and all(try_fold(r[0].value, default=1) is False for r in inside) and len(outside) == 1 and try_fold(outside[0][0].value, default=0) is True \
        and nv.body[-1] is outside[0][0] and len(inside) >= 1
    ck.ob('MPT-non-edges', mod.loc(nv), ok, 'the filter leaves the loop over the non-edges early only to reject; acceptance needs all non-edges examined ({} return(s) inside the loop)'.format(len(inside)),
          key='MPT-non-edges|all-examined')
    if inside:
        rel = stmts_with_env(nv, lambda s: s is inside[0][0], stmts=loop[0].body)
        c = rel[0][1]
        names = {}
        for k in flow.atoms_of(c):
            t = ' '.join(map(str, k))
            if k[0] == 'In' and k[2] == 'link':
                names[k] = 'ANCHORED'
            elif k[0] == 'Eq' and "['resid']" in t and "get('order', 0)" in t and ' + ' in t:
                names[k] = 'RESID'
            elif k[0] == 'truth' and k[1].startswith('_atoms_match('):
                names[k] = 'ATTRS'
        ok = flow.equivalent(flow.rename(c, names), flow.parse_formula('ANCHORED and RESID and ATTRS'))[0]
        nb = [l for l in ast.walk(loop[0]) if isinstance(l, ast.For) and 'neighbors(' in u(l.iter)]
        ok = ok and len(nb) == 1 and 'rev_raw_match[' in u(flow.subst(nb[0].iter, rel[0][2]))
        ck.ob('MPT-non-edges', mod.loc(inside[0][0]), ok, 'a placement is rejected when a neighbour of the anchor atom sits in the residue the non-edge names and matches its attributes',
              key='MPT-non-edges|criterion')
    # patterns helpers
    ok = u(apm.body[-1].value) == 'any((_pattern_match(molecule, atoms, rev_raw_match) for atoms in patterns))'
    # _pattern_match interpreted: a pattern of three atoms against every combination of "this atom fits" (8 cases): it holds exactly when all three fit,
    # each link atom being compared with the molecule atom the placement gives it
    pm_ok = len(pm.args.args) == 3
    if pm_ok:
        mp_, ap_, rp_ = [a.arg for a in pm.args.args]
        try:
            for bits in range(8):
                fits = {('mol-%d' % i, 'tmpl-%d' % i): bool(bits >> i & 1) for i in range(3)}
                seen = []
                env_ = {mp_ + '.nodes': {10 + i: 'mol-%d' % i for i in range(3)}, ap_: [('l%d' % i, 'tmpl-%d' % i) for i in range(3)], rp_: {'l%d' % i: 10 + i for i in range(3)},
                        '_atoms_match': lambda a, b, fits=fits, seen=seen: (seen.append((a, b)) or fits[(a, b)])}
                got = interp.call(pm.body, env_)
                if got is not all(fits.values()) or any(pair not in fits for pair in seen):
                    pm_ok = False
        except (interp.Unsupported, KeyError, TypeError):
            pm_ok = False
    ok = ok and pm_ok
    ck.ob('MPT-non-edges', mod.loc(pm), ok, 'a pattern matches when all its atoms match; any matching pattern suffices', key='MPT-patterns')

    # ------------------------------------------------------------ order relation table (small-domain interpretation)
    tree = [s for s in mo.body if isinstance(s, ast.If)]
    tail = mo.body[mo.body.index(tree[0]):] if tree else []
    # the part before the decision tree, interpreted: both orders are classified by _interpret_order, in argument order
    head = [s for s in mo.body[:mo.body.index(tree[0])] if not (isinstance(s, ast.Expr) and isinstance(s.value, ast.Constant))] if tree else []
    ok_pre = bool(head)
    calls_seen = []
    try:
        env_ = {'order1': 'A', 'order2': 'B', 'resid1': 1, 'resid2': 2, '_interpret_order': lambda o: (calls_seen.append(o) or ('type-' + o, 'value-' + o))}
        interp.run_stmts(head, env_)
        ok_pre = ok_pre and list(env_.get('order_types', ())) == ['type-A', 'type-B'] and list(env_.get('orders', ())) == ['value-A', 'value-B'] and calls_seen == ['A', 'B']
    except (interp.Unsupported, interp.Returned, TypeError, ValueError, KeyError):
        ok_pre = False
    ck.ob('DT-order-relation', mod.loc(mo), ok_pre, 'match_order classifies both orders with _interpret_order, in argument order', key='DT-order-relation|classify')
    doms = [('number', v) for v in (-2, -1, 0, 1, 2)] + [('><', v) for v in (-2, -1, 1, 2)] + [('*', v) for v in (1, 2)]
    bad = None
    n = 0
    try:
        for (t1, v1), (t2, v2) in itertools.product(doms, doms):
            for r1, r2 in itertools.product(range(1, 6), range(1, 6)):
                n += 1
                got = interp.call(tail, {'order_types': [t1, t2], 'orders': [v1, v2], 'resid1': r1, 'resid2': r2, 'order1': None, 'order2': None})
                want = documented_order_relation(t1, v1, t2, v2, r1, r2)
                if bool(got) != want or got is None:
                    bad = 'orders ({} {}, {} {}), resids ({}, {}): code says {}, the documented matrix says {}'.format(t1, v1, t2, v2, r1, r2, got, want)
                    raise StopIteration
    except StopIteration:
        pass
    except interp.Unsupported as err:
        bad = 'decision code outside the interpretable fragment: {}'.format(err)
    ck.ob('DT-order-relation', mod.loc(mo), bad is None, 'match_order agrees with the documented comparison matrix on all {} valuations of the grid{}'.format(
        n, '' if bad is None else ' -- ' + bad), key='DT-order-relation|matrix')
    # _interpret_order: types and values
    sg = single_def(io, 'signs')
    ck.ob('DT-order-relation', mod.loc(io), try_fold(sg) == {'>': 1, '<': -1} and "order_value = signs[first_character] * len(order)" in u(io) and
          "order_type = '*'" in u(io) and 'order_value = len(order)' in u(io) and "order_type = 'number'" in u(io),
          'orders are read as a number, a signed count of > / <, or a count of *', key='DT-order-relation|interpret')

    # ------------------------------------------------------------ apply discipline
    inserts = calls_with_env(rm, lambda c: call_attr(c) in ('add_interaction', 'add_or_replace_interaction'))
    ck.ob('WMC-apply', mod.loc(rm), len(inserts) == 1 and call_attr(inserts[0][0]) == 'add_or_replace_interaction',
          'link interactions are inserted through add_or_replace_interaction only (later links override earlier ones) ({} insertion site(s))'.format(len(inserts)),
          key='WMC-apply|add-or-replace')
    mloops = [l for l in ast.walk(rm) if isinstance(l, ast.For) and u(l.iter) == 'matches']
    ck.need(len(mloops) == 1, 'DoLinks.run_molecule: loop over the matches not found')
    mloop = mloops[0]
    order = []
    for st in mloop.body:
        t = u(st)
        if 'remove_matching_interaction' in t:
            order.append('remove')
        elif 'add_or_replace_interaction' in t:
            order.append('add')
        elif "'replace'" in t:
            order.append('replace')
    ck.ob('WMC-apply', mod.loc(mloop), order == ['replace', 'remove', 'add'], 'within one placement: attribute replacements, then removals, then insertions ({})'.format(order),
          key='WMC-apply|order')
    # node-side effects of a placement act on the molecule atom the link atom is matched to (the link's own keys mean nothing in the molecule)
    def recv_text(expr, scope):
        if isinstance(expr, ast.Name):
            defs = [s_.value for s_ in ast.walk(scope) if isinstance(s_, ast.Assign) and u(s_.targets[0]) == expr.id]
            return u(defs[0]) if len(defs) == 1 else u(expr)
        return u(expr)
    nl = [l for l in mloop.body if isinstance(l, ast.For) and u(l.iter) == 'link.nodes.items()']
    ok = len(nl) == 1
    if ok:
        nv = u(nl[0].target.elts[0])
        apps = calls_with_env(rm, lambda c: call_attr(c) == 'append' and u(c.func.value) == '_nodes_to_remove', stmts=nl[0].body)
        upds = calls_with_env(rm, lambda c: call_attr(c) == 'update', stmts=nl[0].body)
        ok = len(apps) == 1 and u(apps[0][0].args[0]) == 'match[{}]'.format(nv) and len(upds) == 1 and \
            recv_text(upds[0][0].func.value, nl[0]) == 'molecule.nodes[match[{}]]'.format(nv) and u(upds[0][0].args[0]) == "node_attrs['replace']" and \
            len(rmn_ := calls_with_env(rm, lambda c: call_attr(c) == 'remove_nodes_from')) == 1 and u(rmn_[0][0].args[0]) == '_nodes_to_remove'
    ck.ob('WMC-apply', mod.loc(mloop), ok, 'an atom a link deletes or re-attributes is addressed as match[<link atom>] -- the molecule atom of this placement -- both when it is '
          'queued for deletion and when its attributes are replaced', key='WMC-apply|through-match')
    rmn = calls_with_env(rm, lambda c: call_attr(c) == 'remove_nodes_from')
    lloop = [l for l in rm.body if isinstance(l, ast.For) and u(l.iter) == 'links']
    ok = len(rmn) == 1 and len(lloop) == 1 and any(rmn[0][1] is s for s in lloop[0].body) and lloop[0].body.index(rmn[0][1]) > lloop[0].body.index(mloop) \
        if (lloop and any(mloop is s for s in lloop[0].body)) else False
    ck.ob('WMC-apply', mod.loc(rm), ok, 'atoms a link deletes are removed after all placements of that link were applied', key='WMC-apply|delete-last')
    for kind, lname in (('remove', 'link.removed_interactions.items()'), ('add', 'link.interactions.items()')):
        ls = [l for l in mloop.body if isinstance(l, ast.For) and u(l.iter) == lname]
        ok = len(ls) == 1
        if ok:
            inner = [l for l in ls[0].body if isinstance(l, ast.For)]
            ok = len(inner) == 1 and u(inner[0].iter) == u(ls[0].target.elts[1]) and len(ls[0].body) == 1
            if ok:
                b = [s for s in inner[0].body if isinstance(s, ast.Assign) and u(s.value) == '_build_link_interaction_from(molecule, interaction, match)']
                ok = len(b) == 1 and unconditional_in(rm, inner[0].body, b[0])
                act = [s for s in ast.walk(inner[0]) if isinstance(s, ast.Expr) and call_attr(s.value) in ('remove_matching_interaction', 'add_or_replace_interaction')]
                ok = ok and len(act) == 1
        ck.ob('PROV-apply', mod.loc(mloop), ok, 'every {} interaction of the link is instantiated on this placement (all types, all entries)'.format('removal' if kind == 'remove' else 'new'),
              key='PROV-apply|all|' + kind)
    # the override compares atoms + version
    aor = idx.mod(MOL).func('Molecule.add_or_replace_interaction')
    cond_rep = [c for s, c, e in stmts_with_env(aor, lambda s: isinstance(s, ast.Assign) and isinstance(s.targets[0], ast.Subscript) and 'interactions' in u(s.targets[0]))]
    ok = len(cond_rep) == 1
    if ok:
        names = {}
        for k in flow.atoms_of(cond_rep[0]):
            t = ' '.join(map(str, k))
            if k[0] == 'Eq' and 'interaction.atoms' in t and 'tuple(atoms)' in t:
                names[k] = 'ATOMS'
            elif k[0] == 'Eq' and t.count("get('version', 0)") == 2:
                names[k] = 'VERSION'
        ok = flow.equivalent(flow.rename(cond_rep[0], {k: v for k, v in names.items()}), flow.parse_formula('ATOMS and VERSION'), )[0] if len(names) == 2 and \
            len(flow.atoms_of(cond_rep[0])) == 2 else False
    ck.ob('WMC-apply', idx.mod(MOL).loc(aor), ok, 'an interaction replaces an existing one exactly when atoms and version are the same', key='WMC-apply|replace-criterion')

    # ------------------------------------------------------------ atoms and parameters from this placement
    a = single_def(bl, 'atoms')
    p = single_def(bl, 'parameters')
    ok = a is not None and u(a) == 'tuple((match[idx] for idx in interaction.atoms))' and p is not None and \
        u(p) == '[param(molecule, match) if callable(param) else param for param in interaction.parameters]'
    r = [s for s in bl.body if isinstance(s, ast.Return)]
    nd = single_def(bl, 'new_interaction')
    ok = ok and len(r) == 1 and u(r[0].value) == 'new_interaction' and nd is not None and u(nd) == 'interaction._replace(atoms=atoms, parameters=parameters)'
    ck.ob('PROV-apply', mod.loc(bl), ok, 'interaction atoms are the placement\'s atoms for the link\'s atoms, and geometry-derived parameters are computed with this molecule and this placement',
          key='PROV-apply|atoms-parameters')

    # ------------------------------------------------------------ TAB: what a link declares is consumed
    molm = idx.mod(MOL)
    link_cls = molm.cls('Link')
    init = method(link_cls, '__init__')
    declared = set()
    if init is not None:
        for n in ast.walk(init):
            if isinstance(n, ast.Dict):
                for k in n.keys:
                    kv = try_fold(k, default=None)
                    if isinstance(kv, str):
                        declared.add(kv)
    cond_fields = {'non_edges', 'molecule_meta', 'patterns', 'removed_interactions', 'features'} & declared
    ck.ob('TAB-declared-consumed', molm.loc(link_cls), {'non_edges', 'molecule_meta', 'patterns', 'removed_interactions'} <= declared,
          'Link declares the condition-bearing fields {}'.format(sorted(cond_fields)), key='TAB-declared-consumed|declared')
    read_attrs = {n.attr for n in ast.walk(mod.tree) if isinstance(n, ast.Attribute) and isinstance(n.ctx, ast.Load)}
    for fld in sorted({'non_edges', 'molecule_meta', 'patterns', 'removed_interactions'}):
        ck.ob('TAB-declared-consumed', DL, fld in read_attrs, 'do_links.py reads the link field .{}'.format(fld), key='TAB-declared-consumed|' + fld)
    # ------------------------------------------------------------ helpers the matching and the removals rely on
    molmod = idx.mod(MOL)
    im = molmod.func('interaction_match')
    am = molmod.func('attributes_match')
    rmi = molmod.func('Molecule.remove_matching_interaction')
    for f in (im, am, rmi):
        ck.analysed(molmod, f)
    pmd = single_def(im, 'parameters_match')
    amd = single_def(im, 'atoms_match')
    ok = False
    if pmd is not None:
        f = flow.to_formula(pmd)
        names = {}
        for k in flow.atoms_of(f):
            if k[0] == 'truth' and k[1] == 'template_interaction.parameters':
                names[k] = 'GIVEN'
            elif k[0] == 'Eq' and set(k[1:]) == {'tuple(template_interaction.parameters)', 'tuple(interaction.parameters)'}:
                names[k] = 'EQUAL'
        ok = len(names) == len(flow.atoms_of(f)) == 2 and flow.equivalent(flow.rename(f, names), flow.parse_formula('not GIVEN or EQUAL'))[0]
    ck.ob('DT-interaction-match', molmod.loc(im), ok, 'an interaction matches a template on its parameters when the template gives none or the full parameter tuples are equal (`{}`)'.format(
        u(pmd)[:120] if pmd is not None else '?'), key='DT-interaction-match|parameters')
    ck.ob('DT-interaction-match', molmod.loc(im), amd is not None and isinstance(amd, ast.Compare) and len(amd.ops) == 1 and isinstance(amd.ops[0], ast.Eq) and
          {u(amd.left), u(amd.comparators[0])} == {'tuple(template_interaction.atoms)', 'tuple(interaction.atoms)'},
          'and on its atoms when the atom tuples are equal, in order', key='DT-interaction-match|atoms')
    rets = stmts_with_env(im, lambda s_: isinstance(s_, ast.Return))
    attr_false = [r for r in rets if try_fold(r[0].value, default=1) is False and any('attributes_match(' in atom_text(k) for k in flow.atoms_of(r[1]))]
    meta_ret = [r for r in rets if u(r[0].value) == 'attributes_match(interaction.meta, template_interaction.meta)']
    last_false = [r for r in rets if try_fold(r[0].value, default=1) is False and r not in attr_false]
    ok = len(attr_false) == 1 and len(meta_ret) == 1 and len(last_false) == 1 and len(rets) == 3
    if ok:
        both = flow.AND(('atom', ('truth', u(amd))) if False else flow.to_formula(amd), flow.to_formula(pmd)) if amd is not None and pmd is not None else False
        ok = flow.equivalent(last_false[0][1], flow.NOT(both))[0] and flow.implies(meta_ret[0][1], both)[0]
        lp = [l for l in walk_local(im) if isinstance(l, ast.For) and u(l.iter) == 'zip(nodes, atom_attrs)']
        nd = single_def(im, 'nodes')
        ok = ok and len(lp) == 1 and nd is not None and u(nd) == '[molecule.nodes[atom] for atom in interaction.atoms]' and any(attr_false[0][0] is n for n in ast.walk(lp[0]))
    ck.ob('DT-interaction-match', molmod.loc(im), ok, 'atoms and parameters must both match; then, for a removal template, every atom must match the attributes written for it, and the metadata must match', key='DT-interaction-match|atom-attrs')
    amc = [c for c in walk_local(im) if isinstance(c, ast.Call) and call_name(c) == 'attributes_match' and [u(a) for a in c.args[:2]] == ['atom', 'template_atom']]
    ign = try_fold(kwarg(amc[0], 'ignore_keys'), default=None) if len(amc) == 1 and kwarg(amc[0], 'ignore_keys') is not None else ()
    ck.ob('DT-interaction-match', molmod.loc(im), len(amc) == 1 and ign is not None and set(ign) == {'order'},
          'the attributes written for an atom of a removal line are compared with the molecule atom, except `order`: the order is honoured through the atom keys and no atom of a '
          'molecule carries it (so "BB +BB" and "BB BB" with an order attribute of 1 remove the same thing) -- ignored keys: {}'.format(ign), key='DT-interaction-match|order-not-an-attribute')
    # attributes_match: every template attribute must match (equal, or accepted by its predicate); ignored keys skipped
    rets = stmts_with_env(am, lambda s_: isinstance(s_, ast.Return))
    fl = [r for r in rets if try_fold(r[0].value, default=1) is False]
    loops_fl = {id(molmod.enclosing(r[0], ast.For)) for r in fl}
    ok = len(fl) >= 1 and len(loops_fl) == 1 and None not in loops_fl and try_fold(am.body[-1].value, default=0) is True
    if ok:
        lp = mod_enclosing = molmod.enclosing(fl[0][0], ast.For)
        # one `return False` or several (guard clauses): the template is rejected when any of them is reached
        rels = stmts_with_env(am, lambda s_: any(s_ is r[0] for r in fl), stmts=lp.body)
        rel = [(None, flow.OR(*[r_[1] for r_ in rels]))]
        names = {}
        for k in flow.atoms_of(rel[0][1]):
            t = atom_text(k)
            if k[0] == 'In' and k[1] == 'attr' and k[2] == 'ignore_keys':
                names[k] = 'IGNORED'
            elif k[0] == 'Eq' and set(k[1:]) == {'attributes.get(attr)', 'value'}:
                names[k] = 'EQUAL'
            elif k[0] == 'truth' and k[1] == 'isinstance(value, LinkPredicate)':
                names[k] = 'ISPRED'
            elif k[0] == 'truth' and k[1] == 'value.match(attributes, attr)':
                names[k] = 'PREDOK'
        ok = len(names) == len(flow.atoms_of(rel[0][1])) and \
            flow.equivalent(flow.rename(rel[0][1], names), flow.parse_formula('not IGNORED and not EQUAL and not (ISPRED and PREDOK)'))[0] and \
            u(lp.iter) == 'template_attributes.items()'
    ck.ob('DT-attributes-match', molmod.loc(am), ok, 'an atom matches a template when every non-ignored template attribute is equal to the atom\'s, or is a predicate that accepts it',
          key='DT-attributes-match')
    dl_ = [s_ for s_ in walk_local(rmi) if isinstance(s_, ast.Delete)]
    ok = False
    loops_ = [s_ for s_ in rmi.body if isinstance(s_, ast.For)]
    if len(dl_) == 1 and len(loops_) == 1 and 'interaction_match(self, interaction, template_interaction)' in u(rmi):
        lp_ = loops_[0]
        after = rmi.body[[k for k, s_ in enumerate(rmi.body) if s_ is lp_][0] + 1:]
        block_ = next((blk for n_ in [lp_] + [x for x in ast.walk(lp_) if isinstance(x, ast.If)] for blk in (n_.body, n_.orelse) if any(s_ is dl_[0] for s_ in blk)), [])
        pos_ = [k for k, s_ in enumerate(block_) if s_ is dl_[0]]
        leaves = block_[pos_[0] + 1] if pos_ and pos_[0] + 1 < len(block_) else None
        # either spelling of "stop at the first match, complain when the loop finds none": for/else with break, or return from the loop and raise after it
        if lp_.orelse:
            ok = isinstance(leaves, ast.Break) and isinstance(lp_.orelse[-1], ast.Raise) and not after
        else:
            ok = isinstance(leaves, ast.Return) and leaves.value is None and len(after) == 1 and isinstance(after[0], ast.Raise)
        # the deletion happens exactly for a matching interaction (nested test, or `if not match: continue` before it)
        reach_ = stmts_with_env(rmi, lambda s_: s_ is dl_[0], stmts=lp_.body)
        ok = ok and len(reach_) == 1 and flow.equivalent(reach_[0][1], ('atom', ('truth', 'interaction_match(self, interaction, template_interaction)')))[0]
    ck.ob('DT-interaction-match', molmod.loc(rmi), ok, 'remove_matching_interaction deletes the first interaction that matches the template and raises when none does', key='DT-interaction-match|remove')
    amc = [c for c in walk_local(mod.func('_atoms_match')) if isinstance(c, ast.Call) and call_name(c) == 'attributes_match']
    ok = any(try_fold(kwarg(c, 'ignore_keys'), default=()) == ('order', 'replace', 'modifications') and [u(a) for a in c.args[:2]] == ['node1', 'node2'] for c in amc)
    ck.ob('DT-attributes-match', mod.loc(mod.func('_atoms_match')), ok, 'link atoms are compared on every attribute except order, replace and modifications (handled separately)',
          key='DT-attributes-match|atoms_match')
    # predicates usable as attribute values in links
    ch = molmod.func('Choice.match')
    nd = molmod.func('NotDefinedOrNot.match')
    ck.ob('DT-attributes-match', molmod.loc(ch), u(ch.body[-1].value) == 'node.get(key) in self.value', 'Choice: the attribute is defined and among the listed values', key='DT-attributes-match|Choice')
    f = flow.to_formula(nd.body[-1].value)
    names = {}
    for k in flow.atoms_of(f):
        if k[0] == 'In' and k[1] == 'key' and k[2] == 'node':
            names[k] = 'DEFINED'
        elif k[0] == 'Eq' and set(k[1:]) == {'node[key]', 'self.value'}:
            names[k] = 'SAME'
    ck.ob('DT-attributes-match', molmod.loc(nd), len(names) == 2 and flow.equivalent(flow.rename(f, names), flow.parse_formula('not DEFINED or not SAME'))[0],
          'NotDefinedOrNot: the attribute is absent or differs from the reference', key='DT-attributes-match|NotDefinedOrNot')
    # _atoms_match: the modification condition of a link atom
    atm = mod.func('_atoms_match')
    ck.analysed(mod, atm)
    mm = single_def(atm, 'mods_match')
    ok = mm is not None
    if ok:
        f = flow.to_formula(mm)
        names = {}
        for k in flow.atoms_of(f):
            t = atom_text(k)
            if k[0] == 'In' and k[1] == "'modifications'" and k[2] == 'node2':
                names[k] = 'LINKHAS'
            elif k[0] == 'truth' and k[1] == "node2['modifications']":
                names[k] = 'LINKMODS'
            elif k[0] == 'truth' and k[1] == 'mods':
                names[k] = 'MOLMODS'
            elif k[0] == 'truth' and k[1] == "isinstance(node2['modifications'], list)":
                names[k] = 'ISLIST'
            elif k[0] == 'Eq' and set(k[1:]) == {'sorted(mods)', "sorted(node2['modifications'])"}:
                names[k] = 'SAMESET'
            elif k[0] == 'truth' and k[1].startswith('all((attributes_match(') and 'for modname in mods' in k[1]:
                names[k] = 'EACHOK'
        ok = len(names) == len(flow.atoms_of(f)) == 6 and flow.equivalent(
            flow.rename(f, names), flow.parse_formula('not LINKHAS or (not LINKMODS and not MOLMODS) or (LINKMODS and MOLMODS and ((ISLIST and SAMESET) or EACHOK))'))[0]
    ck.ob('DT-attributes-match', mod.loc(atm), ok, 'modifications of a link atom: no condition, or both empty, or both non-empty and (a list that equals the atom\'s modification names '
          'as a set of names, or a value/choice that accepts every one of them)', key='DT-attributes-match|modifications')
    rt = [s_ for s_ in atm.body if isinstance(s_, ast.Return)]
    ck.ob('DT-attributes-match', mod.loc(atm), len(rt) == 1 and u(rt[0].value) in ("bool(mods_match and attributes_match(node1, node2, ignore_keys=('order', 'replace', 'modifications')))",
                                                                                "bool(mods_match and attributes_match(node1, node2, ('order', 'replace', 'modifications')))"),
          'an atom fits a link atom when the modification condition and all its other attributes match', key='DT-attributes-match|atoms_match-result')
    mods = [l for l in atm.body if isinstance(l, ast.For)]
    md_ = single_def(atm, 'mods')
    comp_ok = isinstance(md_, ast.ListComp) and len(md_.generators) == 2 and not any(g.ifs for g in md_.generators) and u(md_.generators[0].iter) == "node1.get('modifications', [])" and \
        u(md_.generators[1].iter) == u(md_.generators[0].target) + '.name' and u(md_.elt) == u(md_.generators[1].target)
    ck.ob('DT-attributes-match', mod.loc(atm), comp_ok or (len(mods) == 1 and u(mods[0].iter) == "node1.get('modifications', [])" and 'mods.extend(mod.name)' in u(mods[0])),
          'the names of all modifications of the atom are collected', key='DT-attributes-match|collect-mods')
    # ------------------------------------------------------------ how the parser builds the conditions a link carries
    ffm = idx.mod(FF)
    pe = ffm.func('_parse_edges')
    shared.precedence(ck, ffm, pe, 'full_attributes', 'attributes', 'apply_to_all_nodes', 'non-edge / edge atom attributes: what the line writes overrides the link-wide attributes',
                      'PREC-specific-wins|_parse_edges')
    ne = [s_ for s_ in walk_local(pe) if isinstance(s_, ast.Expr) and call_attr(s_.value) == 'append' and 'non_edges' in u(s_)]
    ck.ob('PREC-specific-wins', ffm.loc(pe), len(ne) == 1 and u(ne[0].value.args[0]) == '[prefixed_atoms[0][0], prefixed_atoms[1][1]]',
          'a non-edge is stored as (anchor atom key, attributes of the forbidden partner)', key='PREC-specific-wins|non-edge-shape')
    pla = ffm.func('_parse_link_atom')
    ok = any(isinstance(s_, ast.Assign) and u(s_.targets[0]) == 'attributes' and shared.merge_winner(s_.value) is not None and
             shared.merge_winner(s_.value)[0] == 'attributes' and '_apply_to_all_nodes' in shared.merge_winner(s_.value)[1] for s_ in walk_local(pla))
    ck.ob('PREC-specific-wins', ffm.loc(pla), ok, 'link atom attributes: what the line writes overrides the link-wide attributes', key='PREC-specific-wins|_parse_link_atom')
    tla = ffm.func('_treat_link_interaction_atoms')
    shared.precedence(ck, ffm, tla, 'intermediate', 'attributes', 'context._apply_to_all_nodes', 'atoms of link interactions: what the line writes overrides the link-wide attributes',
                      'PREC-specific-wins|_treat_link_interaction_atoms')
    shared.no_monomorphism(ck, [DL, MOL])
    # measured parameters (angle(...) in a link): the arc cosine is taken of a value clipped to [-1, 1] -- rounding puts the cosine of an exactly straight
    # or folded-back triplet just outside, and the parameter written would be NaN
    geo = idx.mod('vermouth/geometry.py')
    for gname, gfn in sorted(geo.functions.items()):
        acs = calls_with_env(gfn, lambda c: call_name(c) in ('np.arccos', 'numpy.arccos', 'math.acos'))
        if not acs:
            continue
        ck.analysed(geo, gfn)
        for c_, st_, cond_, env_ in acs:
            arg = flow.subst(c_.args[0], env_) if c_.args else None
            okc = isinstance(arg, ast.Call) and call_name(arg) in ('np.clip', 'numpy.clip') and len(arg.args) == 3 and try_fold(arg.args[1], default=None) == -1 and try_fold(arg.args[2], default=None) == 1
            ck.ob('BND-cosine', geo.loc(c_), okc, '{}: the argument of the arc cosine is clipped to [-1, 1] (`{}`)'.format(gname, u(arg)[:80] if arg is not None else '?'),
                  key='BND-cosine|' + gname)
    from .c13 import section_key_rule, prefix_order_table
    section_key_rule(ck)
    # which atom a link line names (key prefix, order, atom name) decides where the link fits: C13's interpreted table of _treat_atom_prefix / _split_node_key
    prefix_order_table(ck, ck.index.mod('vermouth/ffinput.py'))
    shared.truthy_zero(ck, [DL])
    shared.runs_every_molecule(ck, 'vermouth/processors/do_links.py', 'DoLinks', 'MPT-every-molecule')
    ck.assume('induced-ness and completeness of the networkx matcher, and "no unjustified interaction", are not decided')
