"""C07 -- no output from a run with unwaived warnings; existing files are never lost."""
import ast

from ..index import u, dotted, call_name, call_attr, walk_local, base_name, FUNC_TYPES
from .. import flow
from ..fold import try_fold
from ..util import stmts_with_env, calls_with_env, param_defaults, assignments_to, kwarg, arg_or_kw
from .common import method, unconditional_in
from . import c08

FW = 'vermouth/file_writer.py'
CLI = 'bin/martinize2'

WRITE_CHARS = set('wax+')

# effects on the file system other than open(): callee -> what it does
EFFECT_CALLS = {
    'os.fdopen': 'fdopen', 'tempfile.mkstemp': 'mkstemp', 'tempfile.mkdtemp': 'mkstemp', 'tempfile.NamedTemporaryFile': 'mkstemp',
    'tempfile.TemporaryFile': 'mkstemp',
    'shutil.move': 'move', 'shutil.copy': 'copy', 'shutil.copy2': 'copy', 'shutil.copyfile': 'copy', 'shutil.copytree': 'copy',
    'shutil.rmtree': 'remove', 'os.remove': 'remove', 'os.unlink': 'remove', 'os.rmdir': 'remove', 'os.removedirs': 'remove',
    'os.rename': 'move', 'os.replace': 'move', 'os.renames': 'move', 'os.truncate': 'write', 'os.open': 'write',
    'os.makedirs': 'mkdir', 'os.mkdir': 'mkdir',
    'np.savetxt': 'write', 'numpy.savetxt': 'write', 'np.save': 'write', 'numpy.save': 'write', 'np.savez': 'write',
    'pickle.dump': 'write', 'json.dump': 'write',
}
EFFECT_METHODS = {'write_text': 'write', 'write_bytes': 'write', 'touch': 'write', 'unlink': 'remove', 'rename': 'move', 'replace_file': 'move',
                  'tofile': 'write', 'rmdir': 'remove'}

# confirmed by reading; one line of reason each
NAMED_SITES = {
    ('vermouth/dssp/dssp.py', 'run_mdtraj', 'mkstemp'): 'temporary DSSP input dssp_in_*.pdb: a fresh name from mkstemp, never an existing file',
    ('vermouth/dssp/dssp.py', 'run_mdtraj', 'fdopen'): 'handle of that temporary file',
    ('vermouth/dssp/dssp.py', 'run_mdtraj', 'remove'): 'removes that temporary file only',
    ('vermouth/dssp/dssp.py', 'run_dssp', 'mkstemp'): 'temporary DSSP input dssp_in_*.pdb: a fresh name from mkstemp, never an existing file',
    ('vermouth/dssp/dssp.py', 'run_dssp', 'fdopen'): 'handle of that temporary file',
    ('vermouth/dssp/dssp.py', 'run_dssp', 'remove'): 'removes that temporary file only',
}


def mode_of(call, pos=1):
    node = arg_or_kw(call, pos, 'mode')
    if node is None:
        return 'r'
    val = try_fold(node)
    return val if isinstance(val, str) else None


def open_binding(module, fn, name):
    """How is the callee name of an open-like call bound?  Returns one of
    'builtin', 'deferred', 'rebound' (local rebinding between deferred and
    builtin), 'other:<text>'."""
    local_assign = assignments_to(fn, name) if fn is not None else []
    local_import = [n for n in (walk_local(fn) if fn is not None else []) if isinstance(n, ast.ImportFrom)
                    and any((a.asname or a.name) == name for a in n.names)]
    if local_assign or local_import:
        return 'rebound'
    if name in module.imports:
        src, orig = module.imports[name]
        if orig == 'deferred_open':
            return 'deferred'
        if src == 'builtins' and orig == 'open':
            return 'builtin'
        return 'other:{}.{}'.format(src, orig)
    if name in module.constants:
        val = u(module.constants[name])
        if val == 'DeferredFileWriter().open':
            return 'deferred'
        return 'other:' + val
    if name in module.functions:
        return 'other:function'
    return 'builtin' if name == 'open' else 'unknown'


def check_rebinding(ck, module, fn, qual):
    """`open` locally rebound: deferred under defer_writing, builtin only on
    the other arm, and the parameter defaults to True."""
    dflt = param_defaults(fn).get('defer_writing')
    ck.ob('WMC-defer-default', module.loc(fn), dflt is not None and try_fold(dflt) is True,
          '{}: parameter defer_writing defaults to True'.format(qual), key='WMC-defer-default|' + qual)
    binds = stmts_with_env(fn, lambda s: (isinstance(s, ast.Assign) and any(isinstance(t, ast.Name) and t.id == 'open' for t in s.targets))
                           or (isinstance(s, ast.ImportFrom) and any((a.asname or a.name) == 'open' for a in s.names)))
    for st, cond, env in binds:
        if isinstance(st, ast.Assign):
            target_ok = open_binding(module, None, u(st.value)) == 'deferred'
            good = target_ok and flow.implies(cond, ('atom', ('truth', 'defer_writing')))[0]
            ck.ob('WMC-rebinding', module.loc(st), good, '{}: `{}` binds the deferred open, under `defer_writing`'.format(qual, u(st)),
                  key='WMC-rebinding|{}|deferred'.format(qual))
        else:
            good = st.module == 'builtins' and flow.implies(cond, flow.NOT(('atom', ('truth', 'defer_writing'))))[0]
            ck.ob('WMC-rebinding', module.loc(st), good, '{}: the builtin open is bound only when defer_writing is false'.format(qual),
                  key='WMC-rebinding|{}|builtin'.format(qual))
    ck.ob('WMC-rebinding', module.loc(fn), any(isinstance(b[0], ast.Assign) for b in binds),
          '{}: has a deferred binding of `open`'.format(qual), key='WMC-rebinding|{}|present'.format(qual))


def sweep(ck):
    """WMC: who may open a path for writing / move / remove in the package."""
    idx = ck.index
    nsites = 0
    ndeferred = 0
    rebound_fns = set()
    for rel, module in idx.modules.items():
        if rel == FW:
            continue
        # module-level code + functions
        scopes = [(None, '<module>')] + [(fn, qual) for qual, fn in module.functions.items()]
        for fn, qual in scopes:
            nodes = walk_local(fn) if fn is not None else _module_level(module)
            for node in nodes:
                if not isinstance(node, ast.Call):
                    continue
                name = call_name(node)
                kind = None
                if isinstance(node.func, ast.Name) and node.func.id in ('open', '_open', 'deferred_open') or \
                        (isinstance(node.func, ast.Name) and module.imports.get(node.func.id, (None, None))[1] in ('deferred_open',)):
                    binding = open_binding(module, fn, node.func.id)
                    mode = mode_of(node)
                    writes = mode is None or bool(set(mode) & WRITE_CHARS)
                    if binding == 'deferred':
                        ndeferred += 1
                        continue
                    if not writes:
                        continue
                    nsites += 1
                    if binding == 'rebound':
                        rebound_fns.add((module, fn, qual))
                        ck.ob('WMC-open-for-writing', module.loc(node), True,
                              '{}: `{}` goes through the locally rebound open (checked separately)'.format(qual, u(node)[:50]),
                              key='WMC-open-for-writing|{}|{}|rebound'.format(rel, qual))
                    else:
                        ck.ob('WMC-open-for-writing', module.loc(node), False,
                              '{}: `{}` opens a path for writing (mode {!r}) with {} -- only the deferred writer may'.format(qual, u(node)[:60], mode, binding),
                              key='WMC-open-for-writing|{}|{}|{}'.format(rel, qual, binding))
                    continue
                if name in ('io.open', 'builtins.open', 'codecs.open', 'gzip.open', 'bz2.open', 'lzma.open'):
                    mode = mode_of(node)
                    if mode is None or set(mode) & WRITE_CHARS:
                        nsites += 1
                        ck.ob('WMC-open-for-writing', module.loc(node), False, '{}: `{}` opens a path for writing'.format(qual, u(node)[:60]),
                              key='WMC-open-for-writing|{}|{}|{}'.format(rel, qual, name))
                    continue
                if name in EFFECT_CALLS:
                    kind = EFFECT_CALLS[name]
                    if kind == 'fdopen':
                        mode = mode_of(node)
                        if mode is not None and not set(mode) & WRITE_CHARS:
                            continue
                elif isinstance(node.func, ast.Attribute) and node.func.attr in EFFECT_METHODS and not isinstance(node.func.value, ast.Constant):
                    recv = dotted(node.func.value) or ''
                    if node.func.attr in ('rename', 'unlink', 'touch', 'rmdir') and not ('path' in recv.lower() or 'file' in recv.lower()):
                        continue
                    kind = EFFECT_METHODS[node.func.attr]
                elif isinstance(node.func, ast.Attribute) and node.func.attr == 'open' and not isinstance(node.func.value, ast.Call) \
                        and (dotted(node.func.value) or '').split('.')[-1] not in ('self', 'writer', 'DeferredFileWriter'):
                    mode = mode_of(node, pos=0)
                    if mode is not None and not set(mode) & WRITE_CHARS:
                        continue
                    kind = 'write'
                if kind is None:
                    continue
                nsites += 1
                reason = NAMED_SITES.get((rel, qual, kind))
                ck.ob('WMC-file-effect', module.loc(node), reason is not None,
                      '{}: `{}` ({}) outside the deferred writer{}'.format(qual, u(node)[:60], kind, ' -- named exception: ' + reason if reason else ''),
                      key='WMC-file-effect|{}|{}|{}'.format(rel, qual, kind))
    for module, fn, qual in sorted(rebound_fns, key=lambda t: (t[0].rel, t[2])):
        ck.analysed(module, fn)
        check_rebinding(ck, module, fn, qual)
    ck.expect_count('WMC write/effect sites outside the deferred writer', nsites, 8)
    ck.expect_count('WMC deferred_open call sites', ndeferred, 5)
    ck.extra['sweep'] = {'write_or_effect_sites_outside_writer': nsites, 'deferred_open_sites': ndeferred,
                         'functions_rebinding_open': sorted(q for _m, _f, q in rebound_fns)}
    return rebound_fns


def _module_level(module):
    stack = [s for s in module.tree.body if not isinstance(s, FUNC_TYPES + (ast.ClassDef,))]
    while stack:
        node = stack.pop()
        yield node
        for child in ast.iter_child_nodes(node):
            if isinstance(child, FUNC_TYPES + (ast.ClassDef,)):
                continue
            stack.append(child)


def bypass_sites(ck):
    """Calls passing defer_writing=<not True>: only the -write-* debug dumps."""
    idx = ck.index
    n = 0
    for module, qual, fn in idx.all_functions():
        for call, st, cond, env in calls_with_env(fn, lambda c: kwarg(c, 'defer_writing') is not None):
            val = kwarg(call, 'defer_writing')
            if try_fold(val, default='?') is True:
                continue
            if isinstance(val, ast.Name) and val.id == 'defer_writing' and 'defer_writing' in [a.arg for a in fn.args.args + fn.args.kwonlyargs]:
                # passing the own parameter on: covered at the caller
                continue
            n += 1
            guards = [k for k in flow.atoms_of(cond) if k[0] == 'Is' and 'None' in k and any(str(x).startswith('write_') for x in k)]
            ok = False
            detail = 'not under a `write_* is not None` test'
            for g in guards:
                var = [x for x in g[1:] if x != 'None'][0]
                if flow.implies(cond, flow.NOT(('atom', g)))[0] and any(var in u(a) for a in call.args):
                    ok = module.rel == CLI and qual == 'pdb_to_universal'
                    detail = 'guarded by `{} is not None`, path from the same option'.format(var)
            ck.ob('WMC-bypass', module.loc(call), ok, '{}: `{}` writes without deferral: {}'.format(qual, u(call)[:50], detail),
                  key='WMC-bypass|{}|{}'.format(module.rel, qual))
    ck.expect_count('WMC-bypass sites', n, 3)
    # the options feeding them
    cli = idx.mod(CLI)
    ent = cli.func('entry')
    for opt in ('write_graph', 'write_repair', 'write_canon'):
        passed = any(isinstance(c, ast.Call) and call_name(c) == 'pdb_to_universal' and u(kwarg(c, opt)) == 'args.' + opt for c in ast.walk(ent))
        declared = any(isinstance(c, ast.Call) and call_attr(c) == 'add_argument' and c.args and try_fold(c.args[0]) == '-' + opt.replace('_', '-')
                       for c in ast.walk(ent))
        ck.ob('WMC-bypass', cli.loc(ent), passed and declared, 'option -{} (default None) is what enables that dump'.format(opt.replace('_', '-')),
              key='WMC-bypass|option|' + opt)


def writer_rules(ck):
    idx = ck.index
    fw = idx.mod(FW)
    cls = fw.cls('DeferredFileWriter')
    opn = ck.need(method(cls, 'open'), 'DeferredFileWriter.open vanished')
    tmpf = ck.need(method(cls, '_open_tmp_file'), 'DeferredFileWriter._open_tmp_file vanished')
    free = ck.need(method(cls, '_find_free_path'), 'DeferredFileWriter._find_free_path vanished')
    wr = ck.need(method(cls, 'write'), 'DeferredFileWriter.write vanished')
    wf = ck.need(method(cls, '_write_file'), 'DeferredFileWriter._write_file vanished')
    af = ck.need(method(cls, '_append_file'), 'DeferredFileWriter._append_file vanished')
    cl = ck.need(method(cls, 'close'), 'DeferredFileWriter.close vanished')
    for m in (opn, tmpf, free, wr, wf, af, cl):
        ck.analysed(fw, m)
    ck.ob('WMC-writer', fw.loc(cls), fw.imports.get('_open') == ('builtins', 'open') and u(fw.constants.get('deferred_open')) == 'DeferredFileWriter().open',
          '_open is the builtin open and deferred_open is DeferredFileWriter().open', key='WMC-writer|bindings')

    # ---- open(): the destination itself is opened only for reading
    filename = opn.args.args[1].arg
    names = {}

    def classify(cond):
        for k in flow.atoms_of(cond):
            if k[0] == 'In' and k[2] == 'mode' and isinstance(k[1], str) and len(k[1]) == 3 and k[1][0] in '\'"':
                names[k] = {'w': 'W', 'a': 'A', '+': 'P', 'r': 'R', 'x': 'X'}.get(k[1][1], k)
    opens = calls_with_env(opn, lambda c: isinstance(c.func, ast.Name) and c.func.id == '_open')
    nd = 0
    for call, st, cond, env in opens:
        path = flow.subst(call.args[0], env) if call.args else None
        origin = {n.id for n in ast.walk(path) if isinstance(n, ast.Name)} if path is not None else set()
        if filename in origin or 'path' in origin:
            nd += 1
            classify(cond)
            f = flow.rename(cond, names)
            ok, cex, rows = flow.implies(f, flow.parse_formula('not W and not A and not P'))
            ck.ob('DT-open-destination', fw.loc(call), ok and {'W', 'A', 'P'} <= set(names.values()),
                  'the destination path itself is opened (`{}`) only when the mode has none of w, a, +  ({} rows; condition {})'.format(
                      u(call)[:50], rows, flow.show(f)[:120]), key='DT-open-destination')
        else:
            ck.ob('PROV-open-tmp', fw.loc(call), origin <= {'tmp_path', 'mode', 'args', 'kwargs'} and 'tmp_path' in origin,
                  're-opening an already deferred path opens its temporary file (`{}`)'.format(u(call)[:50]), key='PROV-open-tmp')
            # ... and "already deferred" means the very same destination path (two names that merely look alike -- case, normalisation -- are two files)
            lp_ = next((l for l in fw.ancestors(call) if isinstance(l, ast.For)), None)
            same = False
            if lp_ is not None and 'open_files' in u(lp_.iter) and isinstance(lp_.target, (ast.Tuple, ast.List)) and len(lp_.target.elts) == 3:
                rel_ = stmts_with_env(opn, lambda s_: s_ is st, stmts=lp_.body)
                recorded = u(lp_.target.elts[1])
                same = len(rel_) == 1 and flow.atoms_of(rel_[0][1]) == {('Eq', *sorted([recorded, 'path']))}
                same = same or (len(rel_) == 1 and flow.atoms_of(rel_[0][1]) in ({('Eq', recorded, 'path')}, {('Eq', 'path', recorded)}))
                same = same and flow.equivalent(rel_[0][1], ('atom', next(iter(flow.atoms_of(rel_[0][1])))))[0]
            ck.ob('PROV-open-tmp', fw.loc(call), same, 'a destination counts as already deferred exactly when its recorded path equals the path asked for', key='PROV-open-tmp|same-path')
    ck.ob('DT-open-destination', fw.loc(opn), nd == 1, 'exactly one site opens the destination path itself ({} found)'.format(nd), key='DT-open-destination|count')
    # destination identity: the path as named, made absolute without following a symlink in its last component
    pdefs = assignments_to(opn, 'path')
    res = [c for c in walk_local(opn) if isinstance(c, ast.Call) and (call_attr(c) in ('resolve', 'absolute') or call_name(c) in ('os.path.realpath', 'os.path.abspath'))]
    ok = len(pdefs) == 2 and u(pdefs[0]) == 'pathlib.Path({})'.format(filename) and u(pdefs[1]) == 'path.parent.resolve() / path.name' and \
        all(u(c) == 'path.parent.resolve()' for c in res if call_attr(c) == 'resolve') and not [c for c in res if call_name(c) == 'os.path.realpath']
    ck.ob('PROV-destination-identity', fw.loc(opn), ok,
          'a destination is identified by its own name in its (resolved) directory: only the parent is resolved, so a symlinked destination is not replaced by its target '
          '({})'.format([u(d) for d in pdefs]), key='PROV-destination-identity')
    tcalls = calls_with_env(opn, lambda c: call_attr(c) == '_open_tmp_file')
    ok = len(tcalls) == 1
    if ok:
        classify(tcalls[0][2])
        f = flow.rename(tcalls[0][2], names)
        # every write-ish mode that is not already open goes to a temporary file
        reach_tmp = flow.rename(f, {k: False for k in flow.atoms_of(f) if k[0] == 'Eq'})
        ok = flow.implies(flow.parse_formula('W or A or P'), flow.OR(reach_tmp, ('atom', 'REOPENED')),
                          )[0] or flow.equivalent(reach_tmp, flow.parse_formula('P or A or W'))[0]
    ck.ob('DT-open-destination', fw.loc(opn), ok, 'every mode with w, a or + is redirected to a temporary file', key='DT-open-destination|redirect')
    last = opn.body[-1]
    ck.ob('DT-open-destination', fw.loc(opn), isinstance(last, ast.Raise), 'any other mode (e.g. x) is refused', key='DT-open-destination|refuse')
    # the temporary file starts from the destination's content for r+ only: append modes are finalised by appending the temporary file to the destination,
    # so pre-filling them would write the old content twice; w modes truncate
    otf = tmpf
    cps = calls_with_env(otf, lambda c: call_name(c) in ('shutil.copy', 'shutil.copy2', 'shutil.copyfile'))
    ok = len(cps) == 1
    detail = '{} copy site(s)'.format(len(cps))
    if ok:
        names = {}
        for k in flow.atoms_of(cps[0][2]):
            if k[0] == 'In' and k[2] == 'mode' and k[1] in ("'+'", "'r'", "'a'", "'w'"):
                names[k] = {"'+'": 'PLUS', "'r'": 'R', "'a'": 'A', "'w'": 'W'}[k[1]]
        f = flow.rename(cps[0][2], names)
        ok = len(names) == len(flow.atoms_of(cps[0][2])) and flow.equivalent(f, flow.parse_formula('PLUS and R'), flow.parse_formula('(R or A or W) and not (R and A) and not (R and W) and not (A and W)'))[0] \
            and [u(a) for a in cps[0][0].args] == ['str(filename)', 'tmp_path']
        detail = flow.show(cps[0][2])[:100]
    ck.ob('DT-open-destination', fw.loc(otf), ok, 'the temporary file is pre-filled with the destination exactly for r+ (never for append modes, whose finalisation appends; never for w): ' + detail,
          key='DT-open-destination|prefill')

    # ---- _open_tmp_file
    mk = [c for c in walk_local(tmpf) if isinstance(c, ast.Call) and call_name(c) == 'tempfile.mkstemp']
    app = stmts_with_env(tmpf, lambda s: isinstance(s, ast.Expr) and call_attr(s.value) == 'append' and 'open_files' in u(s))
    ok = len(mk) == 1 and len(app) == 1 and flow.valid(app[0][1])
    entry_ok = False
    if ok:
        ent = app[0][0].value.args[0]
        entry_ok = isinstance(ent, (ast.List, ast.Tuple)) and [u(e) for e in ent.elts] == ['tmp_path', tmpf.args.args[1].arg, 'mode']
    ck.ob('PROV-pending', fw.loc(tmpf), ok and entry_ok, 'every temporary file is recorded as [temporary, destination, mode], unconditionally',
          key='PROV-pending|record')
    # a record is written once: the mode a destination is finalised with is the mode of its *first* opening (a later re-opening reads or extends the
    # same temporary file; it must not turn a replacement into an append or the reverse)
    edits = []
    wcls = fw.enclosing(tmpf, ast.ClassDef)
    for meth in [m_ for m_ in (wcls.body if wcls is not None else []) if isinstance(m_, ast.FunctionDef)]:
        record_vars = set()
        for l_ in walk_local(meth):
            if isinstance(l_, (ast.For, ast.comprehension)) and 'open_files' in u(l_.iter):
                record_vars |= {n_.id for n_ in ast.walk(l_.target) if isinstance(n_, ast.Name)} if isinstance(l_.target, ast.Name) else set()
            if isinstance(l_, ast.Assign) and 'open_files' in u(l_.value) and isinstance(l_.value, ast.Subscript) and isinstance(l_.targets[0], ast.Name):
                record_vars.add(l_.targets[0].id)
        for n_ in walk_local(meth):
            if isinstance(n_, ast.Subscript) and isinstance(n_.ctx, (ast.Store, ast.Del)):
                root = base_name(n_)
                if 'open_files' in u(n_.value) or (root in record_vars and isinstance(n_.value, ast.Name)):
                    edits.append('{}: {}'.format(meth.name, u(n_)))
    ck.ob('PROV-pending', fw.loc(tmpf), not edits, 'a recorded [temporary, destination, mode] entry is never edited afterwards ({})'.format(edits or 'no store into an entry'),
          key='PROV-pending|record-immutable')
    fd = [c for c in walk_local(tmpf) if isinstance(c, ast.Call) and call_name(c) == 'os.fdopen']
    ck.ob('PROV-pending', fw.loc(tmpf), len(fd) == 1 and u(fd[0].args[0]) == 'handle' and isinstance(tmpf.body[-1], ast.Return) and fd[0] is tmpf.body[-1].value,
          'the handle returned is the mkstemp handle', key='PROV-pending|handle')
    for c in walk_local(tmpf):
        if isinstance(c, ast.Call) and (call_name(c) or '').startswith('shutil.'):
            ck.ob('PROV-pending', fw.loc(c), len(c.args) == 2 and u(c.args[1]) == 'tmp_path' and 'tmp_path' not in u(c.args[0]),
                  '`{}` copies the destination into the temporary file, never the reverse'.format(u(c)), key='PROV-pending|copy-direction')

    # ---- _find_free_path
    whiles = [n for n in free.body if isinstance(n, ast.While)]
    rets = [n for n in free.body if isinstance(n, ast.Return)]
    ok = len(whiles) == 1 and len(rets) == 1 and free.body[-1] is rets[0]
    detail = 'no `while <candidate>.exists()` loop followed by `return <candidate>`'
    if ok:
        w = whiles[0]
        t = w.test
        cand = u(rets[0].value)
        tested = isinstance(t, ast.Call) and call_attr(t) == 'exists' and u(t.func.value) == cand
        tested = tested or (isinstance(t, ast.Call) and call_name(t) in ('os.path.exists', 'os.path.lexists') and u(t.args[0]) in (cand, 'str({})'.format(cand)))
        pat = [try_fold(c.func.value) for c in ast.walk(w) if isinstance(c, ast.Call) and call_attr(c) == 'format']
        assigns = [s for s in w.body if isinstance(s, ast.Assign) and u(s.targets[0]) == cand]
        idx_inc = [s for s in w.body if isinstance(s, ast.AugAssign) and isinstance(s.op, ast.Add) and try_fold(s.value) == 1]
        idx_init = [try_fold(v) for s in idx_inc for v in assignments_to(free, u(s.target))]
        init = [v for v in assignments_to(free, cand) if not any(v is n for n in ast.walk(w))]
        param = free.args.args[0].arg
        ok = (tested and pat == ['#{name}.{idx}#'] and len(assigns) == 1 and 'with_name' in u(assigns[0].value) and len(idx_inc) == 1
              and idx_init == [1] and len(init) == 1 and param in u(init[0]) and not any(isinstance(n, (ast.Break, ast.Return)) for n in ast.walk(w)))
        detail = 'candidate `{}` starts as the path itself, is renamed #name.N# with N = 1, 2, ... while it exists'.format(cand)
    if not ok:
        # any other spelling of the search: interpreted against a stand-in file system
        from .. import interp

        class FakePath(interp.Model):
            def __init__(self, name, existing):
                self.name, self._existing = name, existing

            def exists(self):
                return self.name in self._existing

            def with_name(self, name):
                return FakePath(name, self._existing)
        good = True
        for existing in (set(), {'f'}, {'f', '#f.1#'}, {'f', '#f.1#', '#f.2#', '#f.3#'}, {'#f.1#'}, {'f', '#f.2#'}):
            want = next(n for n in ['f'] + ['#f.{}#'.format(k) for k in range(1, 9)] if n not in existing)
            env_ = {free.args.args[-1].arg: FakePath('f', existing), 'pathlib.Path': lambda p_: p_, 'Path': lambda p_: p_, 'str': lambda p_: p_,
                    'itertools.count': lambda start=0: list(range(start, start + 40)), 'count': lambda start=0: list(range(start, start + 40))}
            try:
                got = interp.call(free.body, env_)
            except (interp.Unsupported, AttributeError, TypeError) as err:
                good, detail = False, 'code outside the interpretable fragment: {}'.format(err)
                break
            if not isinstance(got, FakePath) or got.name != want:
                good, detail = False, 'with existing files {} the search returns {!r}, the first free name is {!r}'.format(sorted(existing), getattr(got, 'name', got), want)
                break
        if good:
            ok, detail = True, 'interpreted against 6 stand-in directories: the first name of f, #f.1#, #f.2#, ... that does not exist is returned'
    ck.ob('PROV-free-path', fw.loc(free), ok, 'the backup name returned did not exist when tested: ' + detail, key='PROV-free-path')

    # ---- write(): dispatch on the recorded mode
    disp = {}
    names.clear()
    for call, st, cond, env in calls_with_env(wr, lambda c: call_attr(c) in ('_write_file', '_append_file')):
        classify(cond)
        disp.setdefault(call_attr(call), []).append((call, cond))
    ok = set(disp) == {'_write_file', '_append_file'} and all(len(v) == 1 for v in disp.values())
    ck.ob('DT-finalise-dispatch', fw.loc(wr), ok, 'write() finalises each pending entry by replacing or by appending', key='DT-finalise-dispatch|sites')
    if ok:
        fa = flow.rename(disp['_append_file'][0][1], names)
        fwr = flow.rename(disp['_write_file'][0][1], names)
        # (the loop's own test -- "entries are left" -- is not part of the decision; any *other* test on the way to the finalisation is)
        wl_tests = {u(l.test) for l in walk_local(wr) if isinstance(l, ast.While)} | {u(l.iter) for l in walk_local(wr) if isinstance(l, ast.For)}
        loopc = [k for k in flow.atoms_of(fa) | flow.atoms_of(fwr) if k[0] == 'truth' and k[1] in wl_tests]
        fa = flow.rename(fa, {k: True for k in loopc})
        fwr = flow.rename(fwr, {k: True for k in loopc})
        e1, c1, r1 = flow.equivalent(fa, flow.parse_formula('A'))
        e2, c2, r2 = flow.equivalent(fwr, flow.parse_formula('not A and (W or P)'))
        ck.ob('DT-finalise-dispatch', fw.loc(disp['_append_file'][0][0]), e1,
              'an entry is appended to its destination exactly when its mode contains a ({} rows; condition {})'.format(r1, flow.show(fa)[:100]),
              key='DT-finalise-dispatch|append')
        ck.ob('DT-finalise-dispatch', fw.loc(disp['_write_file'][0][0]), e2,
              'an entry replaces its destination exactly when its mode has w or + and no a ({} rows; condition {})'.format(r2, flow.show(fwr)[:100]),
              key='DT-finalise-dispatch|replace')
        args_ok = [u(a) for a in disp['_write_file'][0][0].args] == ['tmp_path', 'final_path'] and \
            [u(a) for a in disp['_append_file'][0][0].args][:2] == ['tmp_path', 'final_path']
        pops = [s for s in walk_local(wr) if isinstance(s, ast.Assign) and 'popleft' in u(s.value)]
        ck.ob('DT-finalise-dispatch', fw.loc(wr), args_ok and len(pops) == 1 and [u(e) for e in pops[0].targets[0].elts] == ['tmp_path', 'final_path', 'mode'],
              'temporary, destination and mode are taken from one pending entry, in recording order', key='DT-finalise-dispatch|entry')

    # ---- _write_file: backup before move, under the lock
    moves = [c for c in walk_local(wf) if isinstance(c, ast.Call) and call_name(c) in ('shutil.move', 'os.replace', 'os.rename', 'shutil.copy', 'shutil.copy2', 'shutil.copyfile')]
    final = wf.args.args[2].arg
    tmp = wf.args.args[1].arg
    withs = [n for n in wf.body if isinstance(n, ast.With) and any('lock' in u(i.context_expr) for i in n.items)]
    ok_lock = len(withs) == 1 and all(any(m is n for n in ast.walk(withs[0])) for m in moves)
    ck.ob('MPT-backup', fw.loc(wf), ok_lock and len(moves) == 2, 'both moves of _write_file happen inside `with lock` ({} move(s))'.format(len(moves)),
          key='MPT-backup|lock')
    ok = False
    detail = 'structure not recognised'
    if ok_lock and len(moves) == 2:
        body = withs[0].body
        found = stmts_with_env(wf, lambda s: any(isinstance(n, ast.Call) and n in moves for n in ast.walk(s)) and isinstance(s, ast.Expr), stmts=body)
        into_final = [(s, c, e) for s, c, e in found if final in u(s.value.args[1])]
        backup = [(s, c, e) for s, c, e in found if final in u(s.value.args[0]) and final not in u(s.value.args[1])]
        if len(into_final) == 1 and len(backup) == 1:
            s_f, c_f, e_f = into_final[0]
            s_b, c_b, e_b = backup[0]
            dest_b = u(flow.subst(s_b.value.args[1], e_b))
            free_ok = '_find_free_path({})'.format(final) in dest_b
            guard = [k for k in flow.atoms_of(c_b) if k[0] == 'Eq' and '_find_free_path' in ' '.join(map(str, k)) and final in k]
            guard_ok = bool(guard) and flow.equivalent(c_b, flow.NOT(('atom', guard[0])))[0]
            order_ok = s_b.lineno < s_f.lineno and flow.valid(c_f) and u(s_f.value.args[0]) in (tmp, 'str({})'.format(tmp))
            ok = free_ok and guard_ok and order_ok
            detail = 'backup `{}` (to the free path computed from the destination, exactly when that differs from the destination) precedes `{}`'.format(
                u(s_b.value), u(s_f.value))
    ck.ob('MPT-backup', fw.loc(wf), ok, 'an existing destination is moved to its backup name before the temporary file is moved onto it: ' + detail,
          key='MPT-backup|order')
    # ---- removals in the module touch temporaries only
    nrem = 0
    for m in (wr, wf, af, cl, opn, tmpf, free):
        for c in walk_local(m):
            if isinstance(c, ast.Call) and (call_name(c) in ('os.remove', 'os.unlink', 'shutil.rmtree') or call_attr(c) == 'unlink'):
                nrem += 1
                ck.ob('PROV-remove-tmp', fw.loc(c), c.args and u(c.args[0]) == 'tmp_path', '`{}` in {} removes a temporary file only'.format(u(c), m.name),
                      key='PROV-remove-tmp|' + m.name)
    ck.expect_count('PROV-remove-tmp sites', nrem, 2)
    pops = [s for s in walk_local(cl) if isinstance(s, ast.Assign) and 'popleft' in u(s.value)]
    ck.ob('PROV-remove-tmp', fw.loc(cl), len(pops) == 1 and isinstance(pops[0].targets[0], ast.Tuple) and u(pops[0].targets[0].elts[0]) == 'tmp_path',
          'close() takes the temporary (first component) of each pending entry', key='PROV-remove-tmp|close-entry')
    # append: destination opened with the recorded (append) mode, temporary read
    oa = [c for c in walk_local(af) if isinstance(c, ast.Call) and isinstance(c.func, ast.Name) and c.func.id == '_open']
    ok = len(oa) == 2
    if ok:
        dst = [c for c in oa if 'final_path' in u(c.args[0])]
        src = [c for c in oa if 'tmp_path' in u(c.args[0])]
        ok = len(dst) == 1 and len(src) == 1 and u(kwarg(dst[0], 'mode') or dst[0].args[1]) == 'mode' and \
            all(try_fold(v) in ('r', 'rb') for v in assignments_to(af, u(kwarg(src[0], 'mode') or src[0].args[1])))
    ck.ob('PROV-append', fw.loc(af), ok, '_append_file opens the destination in the recorded append mode and only reads the temporary file', key='PROV-append')


def cli_gate(ck):
    idx = ck.index
    cli = idx.mod(CLI)
    ent = cli.func('entry')
    ck.analysed(cli, ent)
    # the force field's own messages (`[ warning ]` / `[ error ]` on blocks, links, modifications) are replayed from molecule.log_entries just before the
    # count, once per place where the link / modification was applied: every writer *adds* its formatting map to the entry's list, none replaces the list
    nsites = 0
    for module, qual, fn in idx.all_functions():
        if module.rel in (CLI, 'vermouth/ffinput.py') or qual.endswith('__init__') or qual.endswith('.copy') or qual.endswith('to_molecule'):
            continue
        for n in walk_local(fn):
            plain = isinstance(n, ast.Assign) and any(isinstance(t, ast.Subscript) and '.log_entries[' in u(t) for t in n.targets)
            upd = isinstance(n, ast.Call) and call_attr(n) in ('update', 'setdefault', 'pop', 'clear') and '.log_entries' in u(n.func.value)
            aug = isinstance(n, ast.AugAssign) and '.log_entries[' in u(n.target)
            if plain or upd:
                nsites += 1
                ck.ob('PROV-model-messages', module.loc(n), False, '{}: `{}` replaces what earlier applications of the same link / modification recorded for that message '
                      '(each application adds one formatting map, so that each is logged and counted)'.format(qual, u(n)[:80]), key='PROV-model-messages|{}|{}'.format(module.rel, qual))
            elif aug:
                nsites += 1
                ck.ob('PROV-model-messages', module.loc(n), isinstance(n.op, ast.Add), '{}: the formatting map of this application is added to the entry (`{}`)'.format(qual, u(n)[:70]),
                      key='PROV-model-messages|{}|{}'.format(module.rel, qual))
                # .. and what is added contains this application's own map: a list display (`[match]`, `[correspondence]`) in the added value, or in the
                # value of the local that is added (`fmt_args = fmt_args + [match]`), or an append to that local.  A block-level message is stored with an
                # empty list: the map of the application is what makes it replayed at all
                loop = module.enclosing(n, ast.For)
                scope = list(ast.walk(loop)) if loop is not None else list(walk_local(fn))
                names = {x.id for x in ast.walk(n.value) if isinstance(x, ast.Name)}
                own = any(isinstance(x, ast.List) and x.elts for x in ast.walk(n.value)) or \
                    any(isinstance(a_, ast.Assign) and len(a_.targets) == 1 and isinstance(a_.targets[0], ast.Name) and a_.targets[0].id in names and
                        any(isinstance(x, ast.List) and x.elts for x in ast.walk(a_.value)) for a_ in scope) or \
                    any(isinstance(c_, ast.Call) and call_attr(c_) == 'append' and isinstance(c_.func.value, ast.Name) and c_.func.value.id in names for c_ in scope)
                ck.ob('PROV-model-messages', module.loc(n), own, '{}: what is added for a message includes the map of this very application (a message stored without maps is '
                      'replayed once per application only because of it)'.format(qual), key='PROV-model-messages|{}|{}|own-map'.format(module.rel, qual))
        # the stored lists are not edited through another name either (`for entries in x.log_entries.values(): entries[e] = ..`)
        level1, level2 = set(), set()
        for l_ in [x for x in walk_local(fn) if isinstance(x, ast.For)]:
            it = u(l_.iter)
            tnames = [t.id for t in ast.walk(l_.target) if isinstance(t, ast.Name)]
            if '.log_entries.values()' in it and tnames:
                level1.add(tnames[-1])
            elif '.log_entries.items()' in it and len(tnames) == 2:
                level1.add(tnames[1])
        for l_ in [x for x in walk_local(fn) if isinstance(x, ast.For)]:
            it = u(l_.iter)
            tnames = [t.id for t in ast.walk(l_.target) if isinstance(t, ast.Name)]
            for a_ in level1:
                if it == a_ + '.values()' and tnames:
                    level2.add(tnames[-1])
                elif it == a_ + '.items()' and len(tnames) == 2:
                    level2.add(tnames[1])
        # a name that is rebound inside the function (`fmt_args = fmt_args + [match]`) no longer names the stored list
        level2 = {a_ for a_ in level2 if not any(isinstance(x, ast.Assign) and any(u(t) == a_ for t in x.targets) for x in walk_local(fn))}
        for n in walk_local(fn):
            edit = None
            if isinstance(n, (ast.Assign, ast.AugAssign, ast.Delete)):
                tg = n.targets if not isinstance(n, ast.AugAssign) else [n.target]
                for t in tg:
                    if isinstance(t, ast.Subscript) and isinstance(t.value, ast.Name) and t.value.id in level1 | level2:
                        edit = u(n)[:70]
            elif isinstance(n, ast.Call) and isinstance(n.func, ast.Attribute) and isinstance(n.func.value, ast.Name) and \
                    ((n.func.value.id in level1 and n.func.attr in ('pop', 'popitem', 'clear', 'update', 'setdefault')) or
                     (n.func.value.id in level2 and n.func.attr in ('pop', 'remove', 'clear', 'sort', 'reverse', 'insert'))):
                edit = u(n)[:70]
            if edit is not None and module.rel not in (CLI, 'vermouth/ffinput.py'):
                ck.ob('PROV-model-messages', module.loc(n), False, '{}: `{}` edits the stored messages of a molecule through another name: the maps recorded by earlier applications '
                      'are what gets logged and counted before the gate'.format(qual, edit), key='PROV-model-messages|{}|{}|edit'.format(module.rel, qual))
    ck.expect_count('PROV-model-messages sites', nsites, 3)
    # who finalises
    sites = []
    for module, qual, fn in idx.all_functions():
        if module.rel == FW:
            continue
        for c in walk_local(fn):
            if isinstance(c, ast.Call) and isinstance(c.func, ast.Attribute) and c.func.attr == 'write' and \
                    isinstance(c.func.value, ast.Call) and (call_name(c.func.value) or '').endswith('DeferredFileWriter'):
                sites.append((module, qual, fn, c))
            elif isinstance(c, ast.Call) and isinstance(c.func, ast.Attribute) and c.func.attr == 'write' and isinstance(c.func.value, ast.Name):
                defs = assignments_to(fn, c.func.value.id)
                if any(isinstance(d, ast.Call) and (call_name(d) or '').endswith('DeferredFileWriter') for d in defs):
                    sites.append((module, qual, fn, c))
    lib = [s for s in sites if s[0].rel != CLI]
    ck.ob('WMC-finalise', 'vermouth/', not lib, 'no library code finalises the deferred writer ({} site(s) in the package)'.format(len(lib)),
          key='WMC-finalise|library')
    mine = [s for s in sites if s[0].rel == CLI]
    ck.ob('WMC-finalise', CLI, len(mine) == 1 and mine[0][1] == 'entry', 'the CLI finalises at exactly one site, in entry() ({} found)'.format(len(mine)),
          key='WMC-finalise|single')
    if len(mine) != 1:
        return
    call = mine[0][3]
    # reaching condition relative to the statement that computes the leftover count (the tail of entry())
    start = None
    for i, st in enumerate(ent.body):
        if 'ignore_warnings_and_count' in u(st):
            start = i
            break
    ck.ob('MPT-gate', cli.loc(ent), start is not None and isinstance(ent.body[start], ast.Assign) and
          u(ent.body[start].value) == 'ignore_warnings_and_count(COUNTER, args.maxwarn)' if start is not None else False,
          'entry() computes the leftover warnings as ignore_warnings_and_count(COUNTER, args.maxwarn)', key='MPT-gate|count')
    if start is None:
        return
    tail = ent.body[start:]
    left_txt = u(ent.body[start].value)

    def norm(cond):
        """all ways of asking 'are there leftover warnings' become one atom LEFT"""
        m = {}
        for k in flow.atoms_of(cond):
            if k[0] == 'truth' and k[1] == left_txt:
                m[k] = 'LEFT'
            elif k[0] == 'Gt' and k[1] == left_txt and k[2] == '0':
                m[k] = 'LEFT'
            elif k[0] == 'Eq' and set(k[1:]) == {left_txt, '0'}:
                m[k] = flow.NOT(('atom', 'LEFT'))
        return flow.rename(cond, m)
    found = calls_with_env(ent, lambda c: c is call, stmts=tail)
    cond = norm(found[0][2])
    ok, _c, _r = flow.implies(cond, flow.parse_formula('not LEFT'))
    ck.ob('MPT-gate', cli.loc(call), ok and flow.atoms_of(cond) == {'LEFT'}, 'finalisation is reachable only when the leftover count is zero (condition {})'.format(flow.show(cond)[:80]),
          key='MPT-gate|dominated')
    exits = calls_with_env(ent, lambda c: call_name(c) == 'sys.exit', stmts=tail)
    good = [e for e in exits if flow.equivalent(norm(e[2]), flow.parse_formula('LEFT'))[0] and e[0].args and isinstance(try_fold(e[0].args[0]), int)
            and try_fold(e[0].args[0]) != 0]
    ck.ob('MPT-gate', cli.loc(ent), bool(good) and ok, 'with leftover warnings the run ends in sys.exit(<non-zero>) before the finalisation could be reached', key='MPT-gate|exit')
    # after the count, entry() only branches on it: nothing that can still log a warning runs between the count and the decision
    rest = tail[1:]
    def is_gate(s_):
        return isinstance(s_, ast.If) and flow.atoms_of(norm(flow.to_formula(s_.test, {u(ent.body[start].targets[0]): ent.body[start].value}))) == {'LEFT'}
    # (either `if left: complain; exit  else: write` or the guard-clause form `if left: complain; exit` followed by the write at the top level)
    before_write = []
    for s_ in rest:
        if any(n_ is call for n_ in ast.walk(s_)) and not is_gate(s_):
            break
        before_write.append(s_)
    only_gate = bool(rest) and all(is_gate(s_) for s_ in before_write)
    ck.ob('MPT-gate', cli.loc(ent), only_gate, 'the leftover warnings are counted last: after the count entry() only branches on it, so nothing that can still log runs in between',
          key='MPT-gate|count-last')
    # COUNTER wiring
    consts = cli.constants
    ok = 'COUNTER' in consts and call_name(consts['COUNTER']) == 'CountingHandler'
    lvl = [c for c in _module_level(cli) if isinstance(c, ast.Call) and call_name(c) == 'COUNTER.setLevel']
    add = [c for c in _module_level(cli) if isinstance(c, ast.Call) and call_attr(c) == 'addHandler' and c.args and u(c.args[0]) == 'COUNTER']
    logger_ok = False
    if add:
        recv = u(add[0].func.value)
        # the first module-level binding of that name before the call
        first = None
        for st in cli.tree.body:
            if isinstance(st, ast.Assign) and u(st.targets[0]) == recv and st.lineno < add[0].lineno:
                first = st.value if first is None else first
        logger_ok = first is not None and "getLogger('vermouth')" in u(first).replace('"', "'")
    ck.ob('PROV-counter', CLI, ok and len(lvl) == 1 and try_fold(lvl[0].args[0]) == 30 and logger_ok,
          'COUNTER is a CountingHandler at level WARNING attached to the logger named vermouth', key='PROV-counter|wiring')
    opt = [c for c in ast.walk(ent) if isinstance(c, ast.Call) and call_attr(c) == 'add_argument' and c.args and try_fold(c.args[0]) == '-maxwarn']
    ck.ob('PROV-counter', cli.loc(ent), len(opt) == 1 and u(kwarg(opt[0], 'type')) == 'maxwarn' and try_fold(kwarg(opt[0], 'dest')) == 'maxwarn'
          and try_fold(kwarg(opt[0], 'default')) == [], '-maxwarn is parsed by maxwarn() into args.maxwarn (default: no allowance)', key='PROV-counter|option')


def run(ck):
    sweep(ck)
    bypass_sites(ck)
    writer_rules(ck)
    cli_gate(ck)
    # the gate's count is sound (shared with C08): an allowance can never waive more than was logged
    c08.deduction_obligations(ck)
    ck.assume('crash-atomicity of shutil.move across file systems and content equality of what was written are not decided')
    ck.assume('receivers named like paths/files identify Path methods in the sweep; unresolved attribute calls are not effects')
