"""C08 -- warning allowances are accounted exactly; errors are never waived.

Bounds abstract interpretation of ignore_warnings_and_count: every deduction
from the total lies in [0, count of that type], happens only for types that
occurred (inside the loop over the WARNING-level table), errors are untouched.
"""
import ast

from ..index import u, call_name, call_attr, walk_local, base_name
from .. import flow
from ..fold import try_fold
from ..util import stmts_with_env, param_defaults, assignments_to, kwarg
from .common import guarded_by_raise, has_atom, unconditional_in

LH = 'vermouth/log_helpers.py'
CLI = 'bin/martinize2'

TOP = (True, True)      # (>= 0, <= C)
BOT = (False, False)


def join(a, b):
    return (a[0] and b[0], a[1] and b[1])


class Bounds:
    """Abstract values (ge0, leC): e >= 0 known / e <= C known, where C is the
    number of records of the type currently iterated (C >= 0)."""

    def __init__(self, fn, loop, count_exprs):
        self.fn = fn
        self.loop = loop
        self.count_exprs = set(count_exprs)
        self.env = {}
        self.dict_inv = {}   # dict name -> invariant of stored values
        self.inside = True   # evaluating an expression located inside the loop over the types?

    def val(self, e):
        if self.inside and u(e) in self.count_exprs:
            return (True, True)
        if not self.inside and isinstance(e, ast.Name) and e.id in self.count_exprs:
            return BOT
        if isinstance(e, ast.Constant) and isinstance(e.value, (int, float)) and not isinstance(e.value, bool):
            return (e.value >= 0, e.value <= 0)
        if isinstance(e, ast.UnaryOp) and isinstance(e.op, ast.USub) and isinstance(e.operand, ast.Constant):
            return (e.operand.value <= 0, e.operand.value >= 0)
        if isinstance(e, ast.Name):
            return self.env.get(e.id, BOT)
        if isinstance(e, ast.Call) and isinstance(e.func, ast.Name) and e.func.id in ('max', 'min') and not e.keywords and len(e.args) >= 2:
            vals = [self.val(a) for a in e.args]
            if e.func.id == 'max':
                return (any(v[0] for v in vals), all(v[1] for v in vals))
            return (all(v[0] for v in vals), any(v[1] for v in vals))
        if isinstance(e, ast.Subscript) and isinstance(e.value, ast.Name) and e.value.id in self.dict_inv:
            return self.dict_inv[e.value.id]
        if isinstance(e, ast.Call) and isinstance(e.func, ast.Attribute) and e.func.attr == 'get' and isinstance(e.func.value, ast.Name) \
                and e.func.value.id in self.dict_inv and len(e.args) == 2:
            return join(self.dict_inv[e.func.value.id], self.val(e.args[1]))
        if isinstance(e, ast.BinOp) and isinstance(e.op, ast.Sub):
            a, b = self.val(e.left), self.val(e.right)
            return (False, a[1] and b[0])
        if isinstance(e, ast.BinOp) and isinstance(e.op, ast.Add):
            a, b = self.val(e.left), self.val(e.right)
            return (a[0] and b[0], False)
        if isinstance(e, ast.Call) and isinstance(e.func, ast.Name) and e.func.id in ('int', 'abs') and len(e.args) == 1:
            if e.func.id == 'abs':
                return (True, False)
            return self.val(e.args[0])
        return BOT


def dict_invariants(fn, bounds, names):
    """Greatest fixpoint of 'every value stored in dict <name> satisfies inv'."""
    for name in names:
        bounds.dict_inv[name] = TOP
    for _ in range(6):
        changed = False
        for name in names:
            inv = TOP
            for node in walk_local(fn):
                if isinstance(node, ast.Assign) and isinstance(node.targets[0], ast.Subscript) and base_name(node.targets[0]) == name:
                    bounds.inside = any(n is node for n in ast.walk(bounds.loop))
                    inv = join(inv, bounds.val(node.value))
                    bounds.inside = True
                elif isinstance(node, ast.AugAssign) and base_name(node.target) == name:
                    inv = BOT
                elif isinstance(node, ast.Call) and isinstance(node.func, ast.Attribute) and base_name(node.func.value) == name \
                        and node.func.attr in ('update', 'setdefault'):
                    inv = BOT
            if inv != bounds.dict_inv[name]:
                bounds.dict_inv[name] = inv
                changed = True
        if not changed:
            break


class Unknown(Exception):
    pass


def interp(e, env, count_exprs):
    """Value of a min/max/+/- expression under a small-integer valuation."""
    t = u(e)
    if t in count_exprs:
        return env['C']
    if t in env:
        return env[t]
    if isinstance(e, ast.Constant) and isinstance(e.value, (int, float)) and not isinstance(e.value, bool):
        return e.value
    if isinstance(e, ast.UnaryOp) and isinstance(e.op, ast.USub):
        return -interp(e.operand, env, count_exprs)
    if isinstance(e, ast.Call) and isinstance(e.func, ast.Name) and e.func.id in ('min', 'max') and not e.keywords and e.args:
        vals = [interp(a, env, count_exprs) for a in e.args]
        return min(vals) if e.func.id == 'min' else max(vals)
    if isinstance(e, ast.BinOp) and isinstance(e.op, (ast.Sub, ast.Add)):
        l, r = interp(e.left, env, count_exprs), interp(e.right, env, count_exprs)
        return l - r if isinstance(e.op, ast.Sub) else l + r
    if isinstance(e, ast.Call) and isinstance(e.func, ast.Attribute) and e.func.attr == 'get' and len(e.args) >= 1:
        key = '{}[{}]'.format(u(e.func.value), u(e.args[0]))
        if key in env:
            return env[key]
    raise Unknown(t)


def exact_deductions(ck, mod, fn, loop, bounds, total, key_var, count_exprs):
    """Small-domain interpretation (all orderings of the operands on a grid of
    small integers): each arm deducts exactly min(count, allowance)."""
    arms = stmts_with_env(fn, lambda s: isinstance(s, ast.AugAssign) and u(s.target) == total and isinstance(s.op, ast.Sub), stmts=loop.body)
    kinds = []
    for st, cond, env in arms:
        member = [k for k in flow.atoms_of(cond) if k[0] == 'In' and k[1] == key_var and flow.implies(cond, ('atom', k))[0]]
        block = mod.enclosing(st, (ast.If, ast.For)).body if any(st is x for x in mod.enclosing(st, (ast.If, ast.For)).body) else mod.enclosing(st, (ast.If, ast.For)).orelse
        if member and member[0][2] in bounds.dict_inv:
            kind = 'typed'
            dname = member[0][2]
            sym = '{}[{}]'.format(dname, key_var)
            lo = 0 if bounds.dict_inv[dname][0] else -2
            grid = [{'C': c, sym: l} for c in range(0, 4) for l in range(lo, 5)]
            want = lambda v, sym=sym: min(v['C'], max(v[sym], 0))
            carried = None
        elif member:
            kind = 'waived'
            grid = [{'C': c} for c in range(0, 4)]
            want = lambda v: v['C']
            carried = None
        else:
            kind = 'blanket'
            names = sorted({n.id for n in ast.walk(st.value) if isinstance(n, ast.Name)} - set(count_exprs) - {'min', 'max'})
            carried = names[0] if len(names) == 1 else None
            lo = 0 if carried and bounds.env.get(carried, BOT)[0] else -2
            grid = [{'C': c, carried: bb} for c in range(0, 5) for bb in range(lo, 7)] if carried else []
            want = lambda v, carried=carried: min(v['C'], max(v[carried], 0))
        kinds.append(kind)
        bad = None
        if not grid:
            bad = 'cannot identify the allowance operand of `{}`'.format(u(st))
        for v in grid:
            env_v = dict(v)
            ded = None
            try:
                for s2 in block:
                    if s2 is st:
                        ded = interp(st.value, env_v, count_exprs)
                    elif isinstance(s2, ast.Assign) and isinstance(s2.targets[0], ast.Name):
                        env_v[s2.targets[0].id] = interp(s2.value, env_v, count_exprs)
            except Unknown as err:
                bad = 'expression `{}` is outside the min/max/+/- class'.format(err)
                break
            if ded != want(v):
                bad = 'with {} the deduction is {} but min(count, allowance) is {}'.format(v, ded, want(v))
                break
            if kind == 'blanket' and carried and env_v[carried] != max(0, max(v[carried], 0) - v['C']):
                bad = 'with {} the remaining blanket allowance becomes {} instead of {}'.format(v, env_v[carried], max(0, max(v[carried], 0) - v['C']))
                break
        ck.ob('DT-deduction-exact', mod.loc(st), bad is None,
              '{} arm: `{}` equals min(count, allowance){} on all {} valuations of the grid{}'.format(
                  kind, u(st), ' and the blanket allowance is consumed by that amount' if kind == 'blanket' else '', len(grid),
                  '' if bad is None else ' -- ' + bad),
              key='DT-deduction-exact|' + kind)
    ck.ob('DT-deduction-exact', mod.loc(loop), sorted(kinds) == ['blanket', 'typed', 'waived'],
          'the loop has one arm per specification kind (numeric limit, waived by name, blanket): {}'.format(kinds), key='DT-deduction-exact|arms')
    # largest limit wins for repeated entries
    stores = [n for n in walk_local(fn) if isinstance(n, ast.Assign) and isinstance(n.targets[0], ast.Subscript)
              and base_name(n.targets[0]) in bounds.dict_inv and not any(x is n for x in ast.walk(loop))]
    ok = False
    for n in stores:
        v = n.value
        if isinstance(v, ast.Call) and call_name(v) == 'max' and len(v.args) == 2:
            key = u(n.targets[0].slice)
            texts = {u(a) for a in v.args}
            ok = ok or any(t.startswith('{}.get({}, 0)'.format(base_name(n.targets[0]), key)) for t in texts)
    ck.ob('DT-deduction-exact', mod.loc(fn), ok and len(stores) == 1, 'repeated numeric limits for one type keep the largest (max with the stored value, default 0)',
          key='DT-deduction-exact|largest-limit')


def deduction_obligations(ck, rule_prefix=''):
    """The allowance function never deducts more than what was logged."""
    mod = ck.index.mod(LH)
    fn = mod.func('ignore_warnings_and_count')
    ck.analysed(mod, fn)
    params = [a.arg for a in fn.args.args]
    ck.need(len(params) >= 3, 'ignore_warnings_and_count(counter, specifications, level) signature changed')
    counter, specs_param, level = params[0], params[1], params[2]
    dflt = param_defaults(fn).get(level)
    ck.ob('PROV-level', mod.loc(fn), try_fold(dflt) == 30, 'the level parameter defaults to logging.WARNING (found {})'.format(u(dflt)),
          key='PROV-level|default')
    # the table of per-type counts: a loop over <counter>.counts[<x>].items()
    table_of = {}
    for node in walk_local(fn):
        if isinstance(node, ast.Assign) and isinstance(node.targets[0], ast.Name) and isinstance(node.value, ast.Subscript) \
                and u(node.value.value) == counter + '.counts':
            table_of[node.targets[0].id] = node.value
    loops = []
    for n in fn.body:
        if isinstance(n, ast.For):
            # `for type, count in table.items()` or `for type in table` (the count is then read as table[type])
            recv = n.iter.func.value if isinstance(n.iter, ast.Call) and call_attr(n.iter) == 'items' and isinstance(n.iter.func, ast.Attribute) else n.iter
            sub = table_of.get(u(recv)) if isinstance(recv, ast.Name) else (recv if isinstance(recv, ast.Subscript) and u(recv.value) == counter + '.counts' else None)
            if sub is not None:
                loops.append((n, sub))
    if not loops:
        # the deduction loop walks something else than `<counter>.counts[<level>]`: that is the finding (what can be deducted are the records of exactly
        # that level; a table summed over several levels would let errors be waived)
        cands = [n for n in fn.body if isinstance(n, ast.For) and any(isinstance(x, ast.AugAssign) and isinstance(x.op, ast.Sub) for x in ast.walk(n))]
        ck.need(len(cands) == 1, 'loop over a per-type table of the counter not found in ignore_warnings_and_count')
        ck.ob('PROV-level', mod.loc(cands[0]), False, 'deductions iterate the per-type table of exactly the `{}` level (found `{}`, which is not `{}.counts[{}]`)'.format(
            level, u(cands[0].iter)[:60], counter, level), key='PROV-level|table')
        loops = [(cands[0], None)]
    else:
        ck.need(len(loops) == 1, 'loop over a per-type table of the counter not found in ignore_warnings_and_count')
        ck.ob('PROV-level', mod.loc(loops[0][0]), u(loops[0][1].slice) == level,
              'deductions iterate the per-type table of exactly the `{}` level (found {})'.format(level, u(loops[0][1])), key='PROV-level|table')
    loops = [loops[0][0]]
    loop = loops[0]
    with_items = isinstance(loop.iter, ast.Call)
    ck.need((isinstance(loop.target, ast.Tuple) and len(loop.target.elts) == 2) if with_items else isinstance(loop.target, ast.Name), 'loop target is not (type, count) / type')
    if with_items:
        key_var, cnt_var = [u(e) for e in loop.target.elts]
        table_txt = u(loop.iter.func.value)
        count_exprs = {cnt_var, '{}[{}]'.format(table_txt, key_var)}
    else:
        key_var, cnt_var = u(loop.target), None
        table_txt = u(loop.iter)
        count_exprs = {'{}[{}]'.format(table_txt, key_var)}
    # names bound to the count inside the loop
    for st in loop.body:
        if isinstance(st, ast.Assign) and isinstance(st.targets[0], ast.Name) and u(st.value) in count_exprs:
            count_exprs.add(st.targets[0].id)
    # total variable: initialised from number_of_counts_by(level=level)
    inits = [s for s in fn.body if isinstance(s, ast.Assign) and isinstance(s.targets[0], ast.Name)]
    env = {}
    total = None
    for st, cond, e in stmts_with_env(fn, lambda s: s is loop):
        env = e
    subs = [s for s in ast.walk(loop) if isinstance(s, ast.AugAssign) and isinstance(s.op, ast.Sub) and isinstance(s.target, ast.Name)]
    totals = {s.target.id for s in subs}
    rets = [s for s in walk_local(fn) if isinstance(s, ast.Return) and s.value is not None]
    ck.need(rets, 'ignore_warnings_and_count has no return value')
    ret_names = {n.id for r in rets for n in ast.walk(r.value) if isinstance(n, ast.Name)} - {'max', 'min', 'int'}
    cand = [t for t in totals if t in ret_names]
    ck.need(len(cand) == 1, 'the running total (deducted in the loop and returned) could not be identified: {}'.format(sorted(totals)))
    total = cand[0]
    init_txt = '?'
    for st, cond, e in stmts_with_env(fn, lambda s: isinstance(s, ast.Assign) and u(s.targets[0]) == total and not any(n is s for n in ast.walk(loop))):
        init_txt = u(flow.subst(st.value, e))
    ck.ob('PROV-level', mod.loc(fn), init_txt == '{}.number_of_counts_by(level={})'.format(counter, level),
          'the total starts from the number of records at or above `{}` ({})'.format(level, init_txt), key='PROV-level|total-init')
    for r in rets:
        ok = u(r.value) == total or (isinstance(r.value, ast.Call) and call_name(r.value) == 'max' and {u(a) for a in r.value.args} == {'0', total})
        ck.ob('PROV-level', mod.loc(r), ok, 'the function returns the running total (`{}`)'.format(u(r.value)), key='PROV-level|return')
    # every update of the total lies inside the loop over occurred types
    for node in walk_local(fn):
        targets = []
        if isinstance(node, ast.Assign):
            targets = node.targets
        elif isinstance(node, ast.AugAssign):
            targets = [node.target]
        if any(isinstance(t, ast.Name) and t.id == total for t in targets):
            inside = any(n is node for n in ast.walk(loop))
            is_init = isinstance(node, ast.Assign) and not inside
            ok = inside and isinstance(node, ast.AugAssign) and isinstance(node.op, ast.Sub) or is_init
            ck.ob('MPT-occurred', mod.loc(node), ok,
                  '`{}` updates the total {}'.format(u(node), 'inside the loop over the types that occurred' if inside else '(initialisation)'),
                  key='MPT-occurred|' + ('loop' if inside else 'init'))
    # no other level's table is read
    reads = [n for n in walk_local(fn) if isinstance(n, ast.Subscript) and u(n.value) == counter + '.counts']
    ck.ob('PROV-level', mod.loc(fn), all(u(r.slice) == level for r in reads) and bool(reads),
          'only the `{}` level table of the counter is read ({} read(s))'.format(level, len(reads)), key='PROV-level|reads')
    # bounds
    b = Bounds(fn, loop, count_exprs)
    dict_names = {base_name(n.targets[0]) for n in walk_local(fn) if isinstance(n, ast.Assign) and isinstance(n.targets[0], ast.Subscript)
                  and base_name(n.targets[0])}
    dict_names |= {n.targets[0].id for n in fn.body if isinstance(n, ast.Assign) and isinstance(n.targets[0], ast.Name)
                   and isinstance(n.value, ast.Dict) and not n.value.keys}
    dict_invariants(fn, b, sorted(dict_names))
    # loop-carried scalars: two-round fixpoint
    pre = {}
    for st in fn.body:
        if st is loop:
            break
        if isinstance(st, ast.Assign) and isinstance(st.targets[0], ast.Name):
            b.inside = False
            pre[st.targets[0].id] = b.val(st.value)
            b.inside = True
            b.env[st.targets[0].id] = pre[st.targets[0].id]
    carried = {}
    for _ in range(3):
        for name, v in carried.items():
            b.env[name] = join(pre.get(name, BOT), v) if name in pre else v

        def scan(stmts):
            for st in stmts:
                if isinstance(st, ast.Assign) and isinstance(st.targets[0], ast.Name):
                    v = b.val(st.value)
                    nm = st.targets[0].id
                    carried[nm] = join(carried[nm], v) if nm in carried else v
                elif isinstance(st, ast.If):
                    scan(st.body)
                    scan(st.orelse)
        scan(loop.body)
    for name, v in carried.items():
        b.env[name] = join(pre.get(name, v), v)
    ndeduct = 0
    for st, cond, e in stmts_with_env(fn, lambda s: isinstance(s, ast.AugAssign) and u(s.target) == total and isinstance(s.op, ast.Sub), stmts=loop.body):
        ndeduct += 1
        # flow-sensitive value of names assigned earlier in the same iteration is covered by the joined env (sound)
        ge0, lec = b.val(st.value)
        ck.ob('BND-deduction', mod.loc(st), ge0 and lec,
              'deduction `{}` under [{}]: >= 0 is {}, <= number of records of that type is {}'.format(
                  u(st), flow.show(cond)[:100], 'proved' if ge0 else 'NOT provable', 'proved' if lec else 'NOT provable'),
              key='BND-deduction|' + u(st.value))
    ck.expect_count('BND deductions', ndeduct, 3)
    exact_deductions(ck, mod, fn, loop, b, total, key_var, count_exprs)
    ck.extra['abstract_invariants'] = {'dict_value_invariants(ge0, leC)': {k: list(v) for k, v in b.dict_inv.items()},
                                       'count_expressions': sorted(count_exprs)}
    # the three arms: named waiver deducts the count itself
    arms = stmts_with_env(fn, lambda s: isinstance(s, ast.AugAssign) and u(s.target) == total, stmts=loop.body)
    waived = [a for a in arms if u(a[0].value) in count_exprs]
    ck.ob('BND-deduction', mod.loc(loop), len(waived) == 1 and any('deduct_all' in ' '.join(map(str, k)) or k[0] == 'In' for k in flow.atoms_of(waived[0][1])),
          'a type waived by name contributes nothing (its whole count is deducted under the membership test)', key='BND-deduction|waived')
    # counting at or above the level
    ch = mod.cls('CountingHandler')
    nb = next((f for f in ch.body if isinstance(f, ast.FunctionDef) and f.name == 'number_of_counts_by'), None)
    ck.need(nb is not None, 'CountingHandler.number_of_counts_by vanished')
    ck.analysed(mod, nb)
    # interpreted: a table of records at three levels, every requested level (also between and beyond them) and every requested type
    from .. import interp as _interp
    params_ = [a_.arg for a_ in nb.args.args[1:]] + [a_.arg for a_ in nb.args.kwonlyargs]
    table_ = {10: {'a': 1, 'b': 2}, 20: {'a': 4}, 30: {'b': 8, 'c': 16}}
    cases = 0
    okc = set(params_) >= {'level', 'type'}
    detail = ''
    if okc:
        try:
            for lvl_ in (None, 5, 10, 20, 25, 30, 40):
                for typ_ in (None, 'a', 'b', 'zz'):
                    got = _interp.call(nb.body, {'self.counts': {k_: dict(v_) for k_, v_ in table_.items()}, 'level': lvl_, 'type': typ_})
                    want_ = sum(n_ for l_, tc_ in table_.items() if lvl_ is None or l_ >= lvl_ for t_, n_ in tc_.items() if typ_ is None or t_ == typ_)
                    cases += 1
                    if got != want_:
                        okc, detail = False, ' -- level={} type={}: counted {}, should be {}'.format(lvl_, typ_, got, want_)
        except (_interp.Unsupported, KeyError, TypeError) as err:
            okc, detail = False, ' -- outside the interpretable fragment: {}'.format(err)
    ck.ob('DT-count-level', mod.loc(nb), okc,
          'a record is counted iff its level is not below the requested one (and its type matches when a type is given): {} (level, type) cases interpreted{}'.format(cases, detail),
          key='DT-count-level')
    hd = next((f_ for f_ in ch.body if isinstance(f_, ast.FunctionDef) and f_.name == 'handle'), None)
    ck.need(hd is not None, 'CountingHandler.handle vanished')
    incs = stmts_with_env(hd, lambda s: isinstance(s, ast.AugAssign))
    ck.ob('MPT-count', mod.loc(hd), len(incs) == 1 and flow.valid(incs[0][1]) and try_fold(incs[0][0].value) == 1
          and 'levelno' in u(flow.subst(incs[0][0].target, incs[0][2])),
          'every handled record increments counts[level][type] by one, unconditionally', key='MPT-count|handle')
    # .. filed under exactly the record's own level and its own type (an empty type is a type, an in-between level is a level: what is at WARNING is deductible,
    # what is above is not) -- the handler interpreted on records
    import collections

    class _Rec(_interp.Model):
        def __init__(self, levelno, **kw):
            self.levelno = levelno
            self.__dict__.update(kw)

    class _Self(_interp.Model):
        def __init__(self):
            self.type_attr = 'type'
            self.default_type = 'general'
            self.counts = collections.defaultdict(lambda: collections.defaultdict(int))
    bad_ = None
    recs = [(30, {'type': 'unmapped-atom'}, 'unmapped-atom'), (30, {'type': ''}, ''), (30, {}, 'general'), (35, {'type': 'general'}, 'general'), (39, {'type': 'x'}, 'x'),
            (40, {'type': 'general'}, 'general'), (5, {'type': 'step'}, 'step'), (20, {'type': 'general'}, 'general'), (30, {'type': 'general'}, 'general'), (31, {}, 'general')]
    try:
        me = _Self()
        params_ = [a.arg for a in hd.args.args]
        want = collections.Counter()
        for lvl_, kw_, typ_ in recs:
            _interp.call(hd.body, {params_[0]: me, params_[1]: _Rec(lvl_, **kw_)})
            want[(lvl_, typ_)] += 1
        got = collections.Counter({(l_, t_): n_ for l_, row in me.counts.items() for t_, n_ in row.items() if n_})
        if got != want:
            diff = sorted(set(got.items()) ^ set(want.items()), key=repr)
            bad_ = 'after {} records the table differs from one count per (level, type): {}'.format(len(recs), diff[:4])
    except (_interp.Unsupported, KeyError, TypeError, AttributeError) as err:
        bad_ = 'could not be interpreted: {}'.format(err)
    ck.ob('MPT-count', mod.loc(hd), bad_ is None, 'a handled record is filed under its own level and its own type, one count each ({} records interpreted, among them an empty type, '
          'a record without type and levels between WARNING and ERROR){}'.format(len(recs), '' if bad_ is None else ' -- ' + bad_), key='MPT-count|handle|table')
    return fn


def _spec_leftover(records, errors, specifications):
    """The statement of C08, written down independently of the code: records = {type: number of WARNING-level records}."""
    waived, limits, blanket = set(), {}, None
    for part in specifications:
        for wtype, count in part:
            if count is None:
                waived.add(wtype)
            elif wtype is None:
                blanket = count if blanket is None else max(blanket, count)
            else:
                limits[wtype] = count if wtype not in limits else max(limits[wtype], count)
    left = errors
    rest = 0
    for wtype, n in records.items():
        if wtype in limits:
            left += max(0, n - max(0, limits[wtype]))
        elif wtype in waived:
            continue
        else:
            rest += n
    left += max(0, rest - max(0, blanket or 0))
    return left


def whole_function_table(ck):
    """Interpret ignore_warnings_and_count as a whole (the checker's own evaluator; nothing of the repository runs) over a grid of record
    multisets and -maxwarn specifications and compare with the statement."""
    from .. import interp as ip
    mod = ck.index.mod(LH)
    fn = mod.func('ignore_warnings_and_count')
    params = [a.arg for a in fn.args.args]
    dflt = param_defaults(fn).get(params[2]) if len(params) > 2 else None
    a_opts = [(), (('a', None),), (('a', -1),), (('a', 0),), (('a', 1),), (('a', 3),), (('a', 1), ('a', 3)), (('a', 3), ('a', 1))]
    b_opts = [(), (('b', None),), (('b', 0),), (('b', 2),)]
    c_opts = [(), (('c', None),), (('c', 2),)]
    n_opts = [(), ((None, -2),), ((None, 0),), ((None, 1),), ((None, 4),), ((None, 1), (None, 4))]
    recs = [{}, {'a': 1}, {'a': 3}, {'b': 2}, {'a': 1, 'b': 2}, {'b': 2, 'a': 3}, {'a': 3, 'b': 2}] if ck.tier == 'thorough' else [{}, {'a': 3}, {'a': 1, 'b': 2}, {'b': 2, 'a': 3}]
    bad = []
    n = 0
    try:
        for ao in a_opts:
            for bo in b_opts:
                for co in c_opts:
                    for no in n_opts:
                        flat = ao + bo + co + no
                        # two shapes of the same specification: one list per entry (repeated -maxwarn) / all in one list
                        for specifications in ([[e] for e in flat], [list(flat)] if flat else [[]]):
                            for rec in recs:
                                for errors in (0, 2):
                                    n += 1
                                    total_above = sum(rec.values()) + errors
                                    counts = {30: dict(rec)}
                                    if errors:
                                        counts[40] = {'general': errors}
                                    env = {params[0] + '.counts': counts, params[0] + '.level': 30,
                                           params[0] + '.number_of_counts_by': (lambda level=None, ta=total_above: ta),
                                           params[1]: specifications, params[2]: 30, 'logging.WARNING': 30}
                                    got = ip.call(fn.body, env)
                                    want = _spec_leftover(rec, errors, specifications)
                                    if got != want and len(bad) < 4:
                                        bad.append('records {} + {} error(s), -maxwarn {}: {} left (statement: {})'.format(rec, errors, specifications, got, want))
    except ip.Unsupported as err:
        bad = ['outside the interpretable fragment: {}'.format(err)]
    except (TypeError, KeyError, AttributeError, ValueError) as err:
        bad = ['the interpreted function fails on a grid point: {}: {}'.format(type(err).__name__, err)]
    ck.extra['leftover_table_cases'] = n
    ck.ob('DT-leftover', mod.loc(fn), not bad, 'ignore_warnings_and_count, interpreted as a whole over {} (records, specifications) cases (named waivers, limits incl. 0 and negative, '
          'repeated limits, blanket, absent types, errors, both table orders), leaves exactly what the statement says{}'.format(n, '' if not bad else ' -- ' + ' || '.join(bad)),
          key='DT-leftover|whole-function')


def run(ck):
    deduction_obligations(ck)
    whole_function_table(ck)
    # what is accounted for is *every* warning of the run: the tally is taken after the last step that can still log (shared with C07)
    from .c07 import cli_gate
    cli_gate(ck)
    # the -maxwarn parser
    cli = ck.index.mod(CLI)
    mw = cli.func('maxwarn')
    ck.analysed(cli, mw)
    rets = stmts_with_env(mw, lambda s: isinstance(s, ast.Return))
    shapes = []
    for st, cond, env in rets:
        v = st.value
        if isinstance(v, ast.Tuple) and len(v.elts) == 2:
            a, b = v.elts
            shapes.append(('None' if u(a) == 'None' else 'str', 'None' if u(b) == 'None' else ('int' if any(call_name(d) == 'int' for d in assignments_to(mw, u(b)) if isinstance(d, ast.Call)) else '?')))
        else:
            shapes.append(('?', '?'))
    ck.ob('PROV-maxwarn', cli.loc(mw), sorted(shapes) == sorted([('None', 'int'), ('str', 'None'), ('str', 'int')]),
          'maxwarn returns (None, int), (type, None) or (type, int): {}'.format(shapes), key='PROV-maxwarn|shapes')
    # the type name is passed on exactly as typed (type matching is case-sensitive)
    vparam = mw.args.args[0].arg
    rebound = [n for n in walk_local(mw) if isinstance(n, ast.Name) and n.id == vparam and isinstance(n.ctx, ast.Store)]
    types = []
    for st, cond, env in rets:
        v = st.value
        if isinstance(v, ast.Tuple) and len(v.elts) == 2 and u(v.elts[0]) != 'None':
            types.append(u(flow.subst(v.elts[0], env)))
    ok = not rebound and all(t in (vparam, "{}.split(':')[0]".format(vparam)) for t in types) and len(types) == 2
    ck.ob('PROV-maxwarn', cli.loc(mw), ok, 'the warning type is handed on exactly as written on the command line ({}), no normalisation'.format(types), key='PROV-maxwarn|raw-type')
    ends = [s for s in mw.body if isinstance(s, ast.Raise)]
    ck.ob('PROV-maxwarn', cli.loc(mw), len(ends) == 1 and mw.body[-1] is ends[0], 'anything else is an argparse error', key='PROV-maxwarn|raise')
    # the CLI hands every specification that was typed to the allowance function, as parsed: nothing merged, keyed or re-ordered in between
    ent = cli.func('entry')
    ck.analysed(cli, ent)
    calls = [c for c in walk_local(ent) if isinstance(c, ast.Call) and call_name(c) == 'ignore_warnings_and_count']
    ok = len(calls) == 1 and [u(a) for a in calls[0].args] == ['COUNTER', 'args.maxwarn'] and not calls[0].keywords and \
        not [n for n in walk_local(ent) if isinstance(n, (ast.Assign, ast.AugAssign)) and any('args.maxwarn' in u(t) for t in (n.targets if isinstance(n, ast.Assign) else [n.target]))]
    adds = [c for c in ast.walk(cli.tree) if isinstance(c, ast.Call) and call_attr(c) == 'add_argument' and c.args and try_fold(c.args[0]) == '-maxwarn']
    ok_arg = len(adds) == 1 and u(kwarg(adds[0], 'type')) == 'maxwarn' and try_fold(kwarg(adds[0], 'dest')) == 'maxwarn' and try_fold(kwarg(adds[0], 'action'), default=None) == 'append' and \
        try_fold(kwarg(adds[0], 'nargs'), default=None) == '+' and try_fold(kwarg(adds[0], 'default'), default=None) in ([], ())
    ck.ob('PROV-maxwarn', cli.loc(calls[0]) if calls else CLI, ok and ok_arg, 'every -maxwarn entry typed on the command line (repeated options appended, several values per option) reaches '
          'ignore_warnings_and_count(COUNTER, args.maxwarn) as parsed by maxwarn(); nothing collapses repeated entries before the "largest limit" rule is applied', key='PROV-maxwarn|cli-raw')
    ck.assume('exact equality with the stated formula (largest limit, blanket consumption order) is not decided; '
              'counts are assumed non-negative (they are numbers of records)')
