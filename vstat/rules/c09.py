"""C09 -- a particle sits at the weighted mean of the atoms it represents."""
import ast
import re

from ..index import u, call_name, call_attr, walk_local, base_name
from .. import flow
from ..fold import try_fold
from ..util import stmts_with_env, calls_with_env, assignments_to, single_def, kwarg, param_names
from . import shared
from .common import method, unconditional_in

AB = 'vermouth/processors/average_beads.py'
DM = 'vermouth/processors/do_mapping.py'


def norm_source(text):
    text = text.replace('.nodes()', '.nodes')
    text = re.sub(r'\.(values|items|keys)\(\)$', '', text)
    return text


def constituents_rule(ck):
    """Writer side (do_mapping): the constituent graph of a particle and its
    weight table have the same key space."""
    dm = ck.index.mod(DM)
    fn = dm.func('do_mapping')
    ck.analysed(dm, fn)
    loops = [n for n in fn.body if isinstance(n, ast.For) and u(n.iter) == 'out_to_mol']
    ck.need(len(loops) == 1, 'do_mapping: loop over the particle -> atoms table not found')
    lp = loops[0]
    ov = u(lp.target)
    g = [s for s in lp.body if isinstance(s, ast.Assign) and u(s.targets[0]) == "graph_out.nodes[{}]['graph']".format(ov)]
    w = [s for s in lp.body if isinstance(s, ast.Assign) and u(s.targets[0]) == "graph_out.nodes[{}]['mapping_weights']".format(ov)]
    ok = len(g) == 1 and len(w) == 1 and unconditional_in(fn, lp.body, g[0]) and unconditional_in(fn, lp.body, w[0])
    if ok:
        found = stmts_with_env(fn, lambda s: s is g[0], stmts=lp.body)
        gv = u(flow.subst(g[0].value, found[0][2]))
        found = stmts_with_env(fn, lambda s: s is w[0], stmts=lp.body)
        wv = u(flow.subst(w[0].value, found[0][2]))
        ok = gv == 'molecule.subgraph(out_to_mol[{}].keys())'.format(ov) and wv == 'out_to_mol[{}]'.format(ov)
    ck.ob('PROV-constituents', dm.loc(lp), ok, 'every particle records as its constituents the subgraph over exactly the keys of its weight table, and that table as its weights',
          key='PROV-constituents|writer')


def run(ck):
    idx = ck.index
    mod = idx.mod(AB)
    fn = mod.func('do_average_bead')
    ck.analysed(mod, fn)
    avg = [c for c in walk_local(fn) if isinstance(c, ast.Call) and call_name(c) in ('np.average', 'numpy.average')]
    ck.ob('SIB-positions-weights', mod.loc(fn), len(avg) == 1, 'one weighted average per particle ({} np.average call(s))'.format(len(avg)), key='SIB-positions-weights|site')
    if len(avg) != 1:
        return
    call = avg[0]
    pos_n, w_n = u(call.args[0]), u(kwarg(call, 'weights'))
    loop = mod.enclosing(call, ast.For)
    nodev = u(loop.target)

    def comp_of(name):
        defs = [v for v in assignments_to(fn, name)]
        comps = [n for v in defs for n in ast.walk(v) if isinstance(n, (ast.ListComp, ast.GeneratorExp))]
        return comps[0] if len(defs) == 1 and len(comps) == 1 else None
    pc, wc = comp_of(pos_n), comp_of(w_n)
    ck.ob('SIB-positions-weights', mod.loc(call), pc is not None and wc is not None and len(pc.generators) == 1 and len(wc.generators) == 1,
          'positions (`{}`) and weights (`{}`) are each built by one comprehension'.format(pos_n, w_n), key='SIB-positions-weights|comprehensions')
    if pc is None or wc is None:
        return
    pg, wg = pc.generators[0], wc.generators[0]
    psrc, wsrc = norm_source(u(pg.iter)), norm_source(u(wg.iter))
    pvar = u(pg.target)
    if isinstance(wg.target, ast.Tuple) and len(wg.target.elts) == 2:
        wkey, wvar = u(wg.target.elts[0]), u(wg.target.elts[1])
    else:
        wkey, wvar = None, u(wg.target)

    def norm_filters(gen, var):
        return sorted(re.sub(r'\b{}\b'.format(re.escape(var)), '_', u(c)) for c in gen.ifs)
    pf, wf = norm_filters(pg, pvar), norm_filters(wg, wvar)
    ck.ob('SIB-positions-weights', mod.loc(call), psrc == wsrc == "{}['graph'].nodes".format(nodev) and pf == wf,
          'both run over the atoms of the particle\'s constituent graph (`{}` / `{}`) under the same filter ({} / {})'.format(psrc, wsrc, pf, wf),
          key='SIB-positions-weights|same-source-same-filter')
    ck.ob('SIB-positions-weights', mod.loc(call), pf == ["_.get('position') is not None"],
          'constituents without coordinates are left out of both ({})'.format(pf), key='SIB-positions-weights|filter')
    ck.ob('SIB-positions-weights', mod.loc(call), u(pc.elt) == "{}['position']".format(pvar) and '.values()' in u(pg.iter) and wkey is not None and '.items()' in u(wg.iter),
          'row k of the positions is the position of the k-th kept constituent; the weights iterate (key, atom) pairs of the same table', key='SIB-positions-weights|elements')
    # weight expression
    welt = wc.elt
    ok = isinstance(welt, ast.BinOp) and isinstance(welt.op, ast.Mult)
    mw = cw = None
    if ok:
        for side in (welt.left, welt.right):
            t = u(side)
            if 'mapping_weights' in t:
                mw = t
            else:
                cw = t
    ck.ob('PROV-weight-key', mod.loc(wc), mw == "{}.get('mapping_weights', {{}}).get({}, 1)".format(nodev, wkey),
          'the mapping weight is looked up with the key of the constituent being weighted, default 1 (`{}`)'.format(mw), key='PROV-weight-key|reader')
    wparam = param_names(fn)[2]
    ck.ob('PROV-centre-weight', mod.loc(wc), cw == '{}.get({}, 1)'.format(wvar, wparam),
          'the centre weight multiplies: attribute `{}` of that same constituent, default 1 (`{}`)'.format(wparam, cw), key='PROV-centre-weight|multiplies')
    # NaN rule
    nan = stmts_with_env(fn, lambda s: isinstance(s, ast.Assign) and 'nan' in u(s.value) and "['position']" in u(s.targets[0]), stmts=loop.body)
    good = stmts_with_env(fn, lambda s: isinstance(s, ast.Assign) and s.value is call, stmts=loop.body)
    ok = len(nan) == 1 and len(good) == 1
    if ok:
        names = {}
        for k in flow.atoms_of(nan[0][1]) | flow.atoms_of(good[0][1]):
            if k[0] == 'Gt' and k[2] in ('abs(sum({}))'.format(w_n), 'abs(sum({}))'.format(u(single_def(fn, w_n)))) and isinstance(try_fold(ast.parse(k[1], mode='eval').body, default=None), float) \
                    and try_fold(ast.parse(k[1], mode='eval').body) <= 1e-3:
                names[k] = 'ZERO'
            elif k[0] == 'In' and k[1] == "'graph'":
                names[k] = 'HASGRAPH'
        f_nan = flow.rename(nan[0][1], names)
        f_good = flow.rename(good[0][1], names)
        ok = flow.equivalent(f_nan, flow.parse_formula('HASGRAPH and ZERO'))[0] and flow.equivalent(f_good, flow.parse_formula('HASGRAPH and not ZERO'))[0]
        ok = ok and u(good[0][0].targets[0]) == "{}['position']".format(nodev) == u(nan[0][0].targets[0]) and try_fold(kwarg(call, 'axis')) == 0
    ck.ob('REL-nan', mod.loc(loop), ok, 'a particle with constituents gets NaN exactly when the weights of its positioned constituents sum to (numerically) zero, '
          'and the weighted average otherwise', key='REL-nan')
    # the processor: centre weight from the force field, no state carried over
    cls = mod.cls('DoAverageBead')
    rm = ck.need(method(cls, 'run_molecule'), 'DoAverageBead.run_molecule vanished')
    ck.analysed(mod, rm)
    self_stores = [n for n in ast.walk(rm) if isinstance(n, ast.Attribute) and isinstance(n.ctx, ast.Store) and isinstance(n.value, ast.Name) and n.value.id == 'self']
    ck.ob('PROV-centre-weight', mod.loc(rm), not self_stores, 'run_molecule keeps no state on the processor: the centre weight is decided per molecule ({} attribute store(s))'.format(len(self_stores)),
          key='PROV-centre-weight|stateless')
    call2 = [c for c in walk_local(rm) if isinstance(c, ast.Call) and call_name(c) == 'do_average_bead']
    table = flow.value_table(rm, 'weight', lambda s_: len(call2) == 1 and any(n is call2[0] for n in ast.walk(s_)) and not isinstance(s_, (ast.If, ast.For, ast.While, ast.With, ast.Try))) \
        if len(call2) == 1 and u(kwarg(call2[0], 'weight')) == 'weight' else None
    arms = {t: c for c, t in (table or [])}
    want = {"molecule.force_field.variables.get('center_weight', None)", 'None', 'self.weight'}
    ok = set(arms) == want
    if ok:
        names = {}
        for c in arms.values():
            for k in flow.atoms_of(c):
                if k[0] == 'Is' and set(k[1:]) == {'None', 'self.weight'}:
                    names[k] = 'UNSET'
                elif k[0] == 'Is' and set(k[1:]) == {'False', 'self.weight'}:
                    names[k] = 'OFF'
        # (the setting cannot be None and False at once: the order in which the two are asked does not matter)
        excl = flow.parse_formula('not (UNSET and OFF)')
        ok = flow.equivalent(flow.rename(arms["molecule.force_field.variables.get('center_weight', None)"], names), flow.parse_formula('UNSET'), excl)[0] and \
            flow.equivalent(flow.rename(arms['None'], names), flow.parse_formula('not UNSET and OFF'), excl)[0] and \
            flow.equivalent(flow.rename(arms['self.weight'], names), flow.parse_formula('not UNSET and not OFF'), excl)[0]
    ck.ob('PROV-centre-weight', mod.loc(rm), ok, 'centre weight: the force field\'s center_weight variable when none was configured, none when switched off, else the configured attribute',
          key='PROV-centre-weight|source')
    constituents_rule(ck)
    from .c01 import weight_rules
    weight_rules(ck)
    # the mapping object that supplies the weights (normalisation included) is read with the same lints
    shared.no_live_view_in_mutating_loop(ck, ['vermouth/map_parser.py'])
    shared.truthy_zero(ck, ['vermouth/processors/average_beads.py', 'vermouth/processors/do_mapping.py', 'vermouth/map_parser.py', 'vermouth/map_input.py'])
    shared.no_new_state(ck, ['vermouth/map_parser.py', 'vermouth/map_input.py'])
    # "constituents without coordinates never contribute": an atom the repair step adds has none, and is not handed any on the way (F27)
    shared.rebuilt_atom_no_coordinates(ck, 'PROV-no-coordinates')
    # .. nor by the intermediate structure files the command line may write before the mapping (-write-graph / -write-repair / -write-canon): the PDB writer
    # leaves the atoms it writes unchanged (a `setdefault('position', nan)` would turn "no coordinates" into "NaN coordinates" for everything downstream)
    pdbm = ck.index.mod('vermouth/pdb/pdb.py')
    pwf = pdbm.func('write_pdb_string')
    shared.pure_writer(ck, pdbm, pwf, [pwf.args.args[0].arg])
    # the weight table stored on the particle is the table itself (null weights included), not a filtered copy
    shared.runs_every_molecule(ck, 'vermouth/processors/average_beads.py', 'DoAverageBead', 'MPT-every-molecule')
    ck.assume('the arithmetic of numpy.average and rigid-motion equivariance are not decided')
