"""C10 -- guessed bonds obey the stated criteria and never split or lose residues."""
import ast
import random

from ..index import u, call_name, call_attr, walk_local, base_name
from .. import flow
from ..fold import try_fold
from ..util import stmts_with_env, calls_with_env, assignments_to, single_def, kwarg
from .common import method, unconditional_in
from . import shared

MB = 'vermouth/processors/make_bonds.py'

# A. Bondi, J. Phys. Chem. 68, 441 (1964), table I / XIV, in angstrom.
BONDI = {'H': 1.20, 'He': 1.40, 'C': 1.70, 'N': 1.55, 'O': 1.52, 'F': 1.47, 'Ne': 1.54, 'Si': 2.10, 'P': 1.80, 'S': 1.80,
         'Cl': 1.75, 'Ar': 1.88, 'As': 1.85, 'Se': 1.90, 'Br': 1.85, 'Kr': 2.02, 'Te': 2.06, 'I': 1.98, 'Xe': 2.16,
         'Li': 1.82, 'Na': 2.27, 'K': 2.75, 'Mg': 1.73, 'Zn': 1.39, 'Cu': 1.40, 'Ni': 1.63, 'Pd': 1.63, 'Pt': 1.72, 'Ag': 1.72,
         'Au': 1.66, 'Cd': 1.58, 'Hg': 1.55, 'Ga': 1.87, 'In': 1.93, 'Tl': 1.96, 'Sn': 2.17, 'Pb': 2.02, 'U': 1.86}
SAME_AS = {'D': 'H'}   # deuterium: the code documents using the hydrogen radius


def arith(node, env):
    """Evaluate an arithmetic expression AST under a valuation of its leaves (by text)."""
    t = u(node)
    if t in env:
        return env[t]
    if isinstance(node, ast.Constant) and isinstance(node.value, (int, float)):
        return node.value
    if isinstance(node, ast.BinOp):
        l, r = arith(node.left, env), arith(node.right, env)
        if isinstance(node.op, ast.Mult):
            return l * r
        if isinstance(node.op, ast.Add):
            return l + r
        if isinstance(node.op, ast.Sub):
            return l - r
        if isinstance(node.op, ast.Div):
            return l / r
    if isinstance(node, ast.UnaryOp) and isinstance(node.op, ast.USub):
        return -arith(node.operand, env)
    raise ValueError(t)


def run(ck):
    idx = ck.index
    mod = idx.mod(MB)
    # ------------------------------------------------------------ TAB: radii
    table_node = ck.need(mod.constants.get('VDW_RADII'), 'VDW_RADII table vanished')
    table = try_fold(table_node)
    ck.need(isinstance(table, dict) and len(table) >= 10, 'VDW_RADII does not fold to a literal table')
    for el, r in sorted(table.items()):
        ref = BONDI.get(SAME_AS.get(el, el))
        if ref is not None:
            ck.ob('TAB-radii', mod.loc(table_node), isinstance(r, (int, float)) and abs(r - ref / 10.0) < 1e-9,
                  'VDW_RADII[{!r}] = {} nm; Bondi (1964): {} nm'.format(el, r, round(ref / 10.0, 4)), key='TAB-radii|' + el)
        else:
            ck.ob('TAB-radii', mod.loc(table_node), isinstance(r, (int, float)) and 0.10 <= r <= 0.30,
                  'VDW_RADII[{!r}] = {} nm is not in the embedded Bondi table; must be a plausible radius in [0.10, 0.30] nm'.format(el, r),
                  key='TAB-radii|' + el)
    ck.expect_count('TAB-radii entries', len(table), 15)

    # ------------------------------------------------------------ DT: the distance-bond guard
    bd = mod.func('_bonds_from_distance')
    ck.analysed(mod, bd)
    loops = [n for n in bd.body if isinstance(n, ast.For) and 'pairs' in u(n.iter)]
    ck.need(len(loops) == 1, '_bonds_from_distance: loop over the candidate pairs not found')
    loop = loops[0]
    sinks = stmts_with_env(bd, lambda s: isinstance(s, ast.Expr) and call_attr(s.value) == 'add_edge', stmts=loop.body,
                           env={k: v for st, c, e in stmts_with_env(bd, lambda s: s is loop) for k, v in e.items()})
    ck.ob('DT-distance-bond', mod.loc(loop), len(sinks) == 1, 'exactly one edge-insertion site in the pair loop ({} found)'.format(len(sinks)),
          key='DT-distance-bond|single-site')
    adds_elsewhere = [c for c in walk_local(bd) if isinstance(c, ast.Call) and call_attr(c) in ('add_edge', 'add_edges_from') and not any(c is n for n in ast.walk(loop))]
    ck.ob('DT-distance-bond', mod.loc(bd), not adds_elsewhere, 'no edge is inserted outside the pair loop', key='DT-distance-bond|no-other-site')
    if len(sinks) == 1:
        st, cond, env = sinks[0]
        pair = [u(e) for e in loop.target.elts[0].elts] if isinstance(loop.target, ast.Tuple) and isinstance(loop.target.elts[0], ast.Tuple) else ['idx1', 'idx2']
        dist_var = u(loop.target.elts[1]) if isinstance(loop.target, ast.Tuple) else 'dist'
        i1, i2 = pair
        names = {}
        unknown = []
        dist_ok = None
        for k in flow.atoms_of(cond):
            t = ' '.join(map(str, k))
            if k[0] in ('GtE', 'Gt') and set(k[1:]) == {i1, i2}:
                names[k] = 'DUP' if (k[0] == 'GtE' and k[1] == i1) else ('DUPX', k)
            elif k[0] == 'In' and k[2] == 'non_edges':
                # the non-bonds are pairs of node keys: the tested pair must be the two *translated* indices (the tree's row numbers differ from the
                # node keys as soon as one atom was left out of the tree)
                keyed = ['idx_to_nodenum[{}]'.format(i1), 'idx_to_nodenum[{}]'.format(i2)]
                names[k] = 'NE' if k[1] in ('frozenset(({}, {}))'.format(*keyed), 'frozenset(({1}, {0}))'.format(*keyed),
                                            'frozenset([{}, {}])'.format(*keyed), 'frozenset([{1}, {0}])'.format(*keyed)) else ('NEX', k)
            elif k[0] == 'Eq' and "'H'" in k[1:] and "['element']" in t:
                other = [x for x in k[1:] if x != "'H'"][0]
                names[k] = 'H1' if i1 in other and i2 not in other else ('H2' if i2 in other and i1 not in other else None)
            elif k[0] == 'Eq' and t.count("['_res_serial']") == 2 and i1 in t and i2 in t:
                names[k] = 'SAMERES'
            elif k[0] == 'truth' and 'has_edge(' in k[1]:
                names[k] = 'HAS'
            elif k[0] in ('GtE', 'Gt') and k[2] == dist_var:
                # threshold >= dist : check the threshold expression
                expr = ast.parse(k[1], mode='eval').body
                leaves = {}
                rnd = random.Random(7)
                ok_expr = True
                subs = [n for n in ast.walk(expr) if isinstance(n, ast.Subscript) and u(n.value) == 'VDW_RADII']
                names_in = {n.id for n in ast.walk(expr) if isinstance(n, ast.Name)} - {'VDW_RADII', 'graph', 'idx_to_nodenum', i1, i2}
                els = [u(s) for s in subs]
                e1 = [s for s in els if i1 in s and i2 not in s and "['element']" in s]
                e2 = [s for s in els if i2 in s and i1 not in s and "['element']" in s]
                ok_expr = len(subs) == 2 and len(e1) == 1 and len(e2) == 1 and names_in == {'fudge'}
                if ok_expr:
                    for _ in range(5):
                        r1, r2, f = rnd.uniform(0.1, 0.3), rnd.uniform(0.1, 0.3), rnd.uniform(0.5, 2.0)
                        try:
                            got = arith(expr, {e1[0]: r1, e2[0]: r2, 'fudge': f})
                        except ValueError:
                            ok_expr = False
                            break
                        if abs(got - f * 0.5 * (r1 + r2)) > 1e-12:
                            ok_expr = False
                dist_ok = ok_expr and k[0] == 'GtE'
                names[k] = 'D' if dist_ok else ('DX', k)
            else:
                names[k] = None
        bad = [k for k, v in names.items() if v is None or isinstance(v, tuple)]
        f = flow.rename(cond, {k: v for k, v in names.items() if isinstance(v, str)})
        want = flow.parse_formula('not NE and not (H1 and H2) and not (not SAMERES and (H1 or H2)) and D')
        given = flow.parse_formula('not DUP and not HAS')
        eq, cex, rows = flow.equivalent(f, want, given)
        need = {'NE', 'H1', 'H2', 'SAMERES', 'D', 'DUP'}
        have = {v for v in names.values() if isinstance(v, str)}
        detail = ''
        if bad:
            detail = ' -- unrecognised condition(s): ' + '; '.join(' '.join(map(str, b))[:90] for b in bad)
        elif not eq:
            detail = ' -- differs for ' + str({(k if isinstance(k, str) else ' '.join(map(str, k))[:40]): v for k, v in cex.items()})
        ck.ob('DT-distance-bond', mod.loc(st), eq and not bad and need <= have,
              'the edge insertion is reached exactly when: pair not in the non-edges, not H-H, no hydrogen across residues, and '
              'dist <= fudge * 0.5 * (r1 + r2) with radii from VDW_RADII by the two elements ({} rows over atoms {}){}'.format(rows, sorted(have), detail),
              key='DT-distance-bond|guard')
        ck.ob('DT-distance-bond', mod.loc(st), [u(a) for a in st.value.args[:2]] == [u(flow.subst(ast.parse(x, mode='eval').body, {})) for x in
                                                                                   [u(a) for a in st.value.args[:2]]] and
              all(('idx_to_nodenum[' + i + ']') == u(flow.subst(a, env)) for a, i in zip(st.value.args[:2], (i1, i2))),
              'the edge joins the two nodes of the tested pair (`{}`)'.format(u(flow.subst(st.value, env))[:80]), key='DT-distance-bond|ends')
    # ---- eligible nodes and index space
    tab = single_def(bd, 'idx_to_nodenum')
    ok = isinstance(tab, ast.Call) and call_name(tab) == 'dict' and tab.args and isinstance(tab.args[0], ast.Call) and call_name(tab.args[0]) == 'enumerate'
    gen = tab.args[0].args[0] if ok else None
    ok = ok and isinstance(gen, ast.GeneratorExp) and u(gen.generators[0].iter) == 'graph'
    filt = ' and '.join(u(c) for c in gen.generators[0].ifs) if ok else ''
    var = u(gen.generators[0].target) if ok else '?'
    ck.ob('PROV-eligible', mod.loc(bd), ok and '{} in nodes'.format(var) in filt and "graph.nodes[{}].get('element') in VDW_RADII".format(var) in filt,
          'candidate atoms are the requested nodes whose element has a radius (`{}`)'.format(filt), key='PROV-eligible|filter')
    comp = [n for pos in assignments_to(bd, 'positions') for n in ast.walk(pos) if isinstance(n, (ast.ListComp, ast.GeneratorExp))]
    ok = False
    detail = 'positions comprehension not found'
    if comp:
        g = comp[0].generators[0]
        it = u(g.iter)
        v = u(g.target)
        ok = it == 'idx_to_nodenum.values()' and u(comp[0].elt) == "graph.nodes[{}]['position']".format(v) and not g.ifs
        detail = 'positions are taken for `{}` in `{}`'.format(u(comp[0].elt), it)
    ck.ob('SIB-index-space', mod.loc(bd), ok, 'row i of the position array belongs to node idx_to_nodenum[i]: ' + detail, key='SIB-index-space|positions')
    look = [s for s in loop.body if isinstance(s, ast.Assign) and 'idx_to_nodenum[' in u(s.value)]
    ck.ob('SIB-index-space', mod.loc(loop), len(look) == 2 and all(isinstance(s.value, ast.Subscript) and u(s.value.value) == 'idx_to_nodenum' for s in look),
          'pair indices are translated to node keys through the same table', key='SIB-index-space|lookup')

    # ------------------------------------------------------------ make_bonds
    mb = mod.func('make_bonds')
    ck.analysed(mod, mb)
    cr = [c for c in walk_local(mb) if isinstance(c, ast.Call) and call_name(c) == 'collect_residues']
    # the residues are the groups of collect_residues (all atoms with the same key, wherever they stand in the file); any other grouping -- `itertools.groupby`
    # only joins atoms that follow each other -- is a finding, reported before the rules below lose their anchor
    ck.ob('PROV-partition', mod.loc(mb), len(cr) == 1, 'make_bonds groups the atoms into residues with collect_residues ({} call(s){})'.format(
        len(cr), '; itertools.groupby found instead' if any(isinstance(c, ast.Call) and (call_name(c) or '').endswith('groupby') for c in walk_local(mb)) else ''),
        key='PROV-partition|make_bonds|collect_residues')
    ck.need(len(cr) == 1, 'make_bonds: collect_residues call not found')
    keys = try_fold(cr[0].args[1]) if len(cr[0].args) > 1 else None
    ck.ob('KEY-residue', mod.loc(cr[0]), isinstance(keys, (list, tuple)) and set(keys) >= {'mol_idx', 'chain', 'resid', 'resname', 'insertion_code'},
          'residues are keyed by {} (must include the input molecule index and the canonical residue key)'.format(keys), key='KEY-residue|make_bonds')
    first = mb.body[[i for i, s in enumerate(mb.body) if isinstance(s, ast.For)][0]] if any(isinstance(s, ast.For) for s in mb.body) else None
    ok = first is not None and isinstance(first.iter, ast.Call) and call_name(first.iter) == 'enumerate' and u(first.iter.args[0]) == 'system.molecules' and \
        any(isinstance(s, ast.Expr) and call_name(s.value) == 'nx.set_node_attributes' and try_fold(s.value.args[2]) == 'mol_idx'
            and u(s.value.args[1]) == u(first.target.elts[0]) and u(s.value.args[0]) == u(first.target.elts[1]) for s in first.body)
    union = [s for s in mb.body if isinstance(s, ast.Assign) and 'disjoint_union_all' in u(s.value)]
    ok = ok and len(union) == 1 and mb.body.index(first) < mb.body.index(union[0])
    ck.ob('KEY-residue', mod.loc(mb), ok, 'every atom is labelled with the index of its input molecule before the molecules are united', key='KEY-residue|mol_idx')
    rloops = [n for n in mb.body if isinstance(n, ast.For) and 'residue_groups' in u(n.iter)]
    ck.need(len(rloops) == 1, 'make_bonds: loop over the residue groups not found')
    rl = rloops[0]
    ser = [s for s in ast.walk(rl) if isinstance(s, ast.Assign) and isinstance(s.targets[0], ast.Subscript) and try_fold(s.targets[0].slice) == '_res_serial']
    ok = len(ser) == 1 and unconditional_in(mb, rl.body, ser[0]) and isinstance(rl.iter, ast.Call) and call_name(rl.iter) == 'enumerate' \
        and u(rl.iter.args[0]) == 'residue_groups.items()' and u(ser[0].value) == u(rl.target.elts[0])
    if ok:
        inner = mod.enclosing(ser[0], ast.For)
        ok = inner is not rl and u(inner.iter) == u(rl.target.elts[1].elts[1]) and u(ser[0].targets[0].value) == 'system.nodes[{}]'.format(u(inner.target))
    ck.ob('MPT-res-serial', mod.loc(rl), ok, 'every atom of every residue gets its residue serial, unconditionally (the hydrogen rule reads it)', key='MPT-res-serial')
    reads = [n for n in walk_local(bd) if isinstance(n, ast.Subscript) and try_fold(n.slice) == '_res_serial']
    gets = [n for n in walk_local(bd) if isinstance(n, ast.Call) and call_attr(n) == 'get' and n.args and try_fold(n.args[0]) == '_res_serial']
    ck.ob('MPT-res-serial', mod.loc(bd), len(reads) == 2 and not gets, 'the residue serial of both ends is read strictly (a missing serial is an error, not "equal")',
          key='MPT-res-serial|read')
    # nothing is removed
    removers = [c for c in ast.walk(mod.tree) if isinstance(c, ast.Call) and call_attr(c) in
                ('remove_node', 'remove_nodes_from', 'remove_edge', 'remove_edges_from', 'clear', 'clear_edges')]
    ck.ob('WMC-no-removal', MB, not removers, 'no node or edge removal call anywhere in make_bonds.py ({} found)'.format(len(removers)), key='WMC-no-removal')
    # molecules are unions of whole residues of one connected component of the residue graph
    pg = [s for s in mb.body if isinstance(s, ast.Assign) and call_name(s.value) == 'partition_graph']
    ok = len(pg) == 1 and [u(a) for a in pg[0].value.args] == ['system', 'residue_groups.values()']
    cl = [n for n in mb.body if isinstance(n, ast.For) and 'connected_components' in u(n.iter)]
    rgname = u(pg[0].targets[0]) if pg else '?'
    if ok and len(cl) == 1:
        ok = u(cl[0].iter) == 'nx.connected_components({})'.format(rgname)
        body = u(cl[0])
        ok = ok and "set().union(*({}.nodes[rni]['graph'] for rni in {}))".format(rgname, u(cl[0].target)) in body and \
            'Molecule(system.subgraph(node_idxs))' in body and 'molecules.append(mol)' in body and \
            all(unconditional_in(mb, cl[0].body, s) for s in cl[0].body)
    elif ok:
        # the same thing as one comprehension
        md = single_def(mb, 'molecules')
        ok = isinstance(md, ast.ListComp) and len(md.generators) == 1 and not md.generators[0].ifs and u(md.generators[0].iter) == 'nx.connected_components({})'.format(rgname) and \
            u(md.elt) == "Molecule(system.subgraph(set().union(*({}.nodes[rni]['graph'] for rni in {}))))".format(rgname, u(md.generators[0].target))
    args_ok = len(pg) == 1 and [u(a) for a in pg[0].value.args] == ['system', 'residue_groups.values()']
    if not ok and args_ok and len(cl) == 1 and u(cl[0].iter) == 'nx.connected_components({})'.format(rgname) and isinstance(cl[0].target, ast.Name):
        # another spelling of the union: the loop body is interpreted on a residue graph of three residues, two of them in the component
        from .. import interp
        env_ = {rgname + '.nodes': {1: {'graph': ['a', 'b']}, 2: {'graph': ['c']}, 3: {'graph': ['z']}}, cl[0].target.id: {1, 2}, 'molecules': [],
                'Molecule': lambda g_: ('MOL', g_), 'system.subgraph': lambda n_: frozenset(n_)}
        try:
            interp.run_stmts(cl[0].body, env_)
            ok = env_['molecules'] == [('MOL', frozenset({'a', 'b', 'c'}))]
        except (interp.Unsupported, interp.Returned, KeyError, TypeError):
            ok = False
    ck.ob('PROV-partition', mod.loc(mb), ok, 'each returned molecule is the union of the whole residues of one connected component of the residue graph '
          'built from the same residue partition', key='PROV-partition')
    dcalls = calls_with_env(mb, lambda c: call_name(c) == '_bonds_from_distance')
    final = [d for d in dcalls if kwarg(d[0], 'non_edges') is not None]
    ok = len(final) == 1 and u(kwarg(final[0][0], 'non_edges')) == 'non_edges' and u(kwarg(final[0][0], 'fudge')) == 'fudge' and \
        [u(a) for a in final[0][0].args] == ['system'] and kwarg(final[0][0], 'nodes') is None and \
        flow.equivalent(final[0][2], ('atom', ('truth', 'allow_dist')))[0]
    ck.ob('PROV-modes', mod.loc(mb), ok, 'the system-wide distance pass runs exactly when distance mode is on, over *all* atoms (no node restriction), with the collected block non-edges and the fudge factor',
          key='PROV-modes|distance')
    # no distance bond at all when distance mode is off: *every* distance pass (the per-residue fall-back too) runs under allow_dist
    gated = all(flow.implies(d[2], ('atom', ('truth', 'allow_dist')))[0] for d in dcalls)
    ck.ob('PROV-modes', mod.loc(mb), bool(dcalls) and gated, 'every call of _bonds_from_distance ({}) is reached only when distance mode is on'.format(len(dcalls)),
          key='PROV-modes|distance-gated')
    # every distance pass uses the requested fudge factor (the fallback pass per residue too), down to MakeBonds.fudge
    ok = bool(dcalls) and all(kwarg(d[0], 'fudge') is not None and u(kwarg(d[0], 'fudge')) == 'fudge' or
                              (len(d[0].args) >= 4 and u(d[0].args[3]) == 'fudge') for d in dcalls)
    ck.ob('PROV-fudge', mod.loc(mb), ok and 'fudge' in [a.arg for a in mb.args.args] and not assignments_to(mb, 'fudge'),
          'every call of _bonds_from_distance in make_bonds ({}) passes the fudge factor the caller asked for'.format(len(dcalls)), key='PROV-fudge|calls')
    # the block non-bonds of every residue are accumulated into one set (never rebound inside the residue loop)
    ne_defs = [n for n in walk_local(mb) if isinstance(n, (ast.Assign, ast.AugAssign)) and any(u(t) == 'non_edges' for t in (n.targets if isinstance(n, ast.Assign) else [n.target]))]
    in_loop = [n for n in ne_defs if any(n is x for x in ast.walk(rl))]
    upd = [c for c in ast.walk(rl) if isinstance(c, ast.Call) and call_attr(c) in ('update', '__ior__') and u(c.func.value) == 'non_edges'
           and c.args and call_name(c.args[0]) == '_bonds_from_names']
    aug = [n for n in in_loop if isinstance(n, ast.AugAssign) and isinstance(n.op, ast.BitOr) and call_name(n.value) == '_bonds_from_names']
    ok = len(ne_defs) - len(aug) == 1 and not [n for n in in_loop if n not in aug] and len(upd) + len(aug) == 1
    ck.ob('PROV-non-edges', mod.loc(mb), ok, 'the reference non-bonds of every residue are accumulated (`non_edges.update(_bonds_from_names(...))`); the set is created once '
          'before the residue loop and never rebound inside it', key='PROV-non-edges|accumulate')
    ncalls = calls_with_env(mb, lambda c: call_name(c) == '_bonds_from_names')
    ok = len(ncalls) == 1 and any(isinstance(s, ast.If) and u(s.test) == 'not allow_name' and isinstance(s.body[0], ast.Continue) for s in rl.body)
    ck.ob('PROV-modes', mod.loc(mb), ok, 'name-based bonds are attempted per residue exactly when name mode is on', key='PROV-modes|names')

    # ------------------------------------------------------------ BND: candidate search radius covers every pair threshold
    sd = [c for c in walk_local(bd) if isinstance(c, ast.Call) and call_attr(c) in ('sparse_distance_matrix', 'query_pairs', 'query_ball_tree', 'query_ball_point')]
    okr = False
    detail = 'no KD-tree radius query found'
    if len(sd) == 1:
        rad = sd[0].args[-1] if sd[0].args else kwarg(sd[0], 'max_distance') or kwarg(sd[0], 'r')
        # straight-line symbolic value of the radius: interpret the assignments to the names it reads, in order
        reads = {n.id for n in ast.walk(rad) if isinstance(n, ast.Name)} if rad is not None else set()
        steps = []
        for st in bd.body:
            tgt = None
            if isinstance(st, ast.Assign) and len(st.targets) == 1 and isinstance(st.targets[0], ast.Name):
                tgt = st.targets[0].id
            elif isinstance(st, ast.AugAssign) and isinstance(st.target, ast.Name):
                tgt = st.target.id
            elif isinstance(st, ast.If):
                for sub in st.body + st.orelse:
                    if isinstance(sub, ast.Assign) and isinstance(sub.targets[0], ast.Name) and sub.targets[0].id in reads and call_name(sub.value) == 'max':
                        steps.append(('max', sub.targets[0].id))
                continue
            if tgt in reads:
                steps.append((st, tgt))
        okr = rad is not None
        detail = ''
        for maxr in (0.12, 0.216):
            for f in (0.5, 0.8, 1.0, 1.2, 2.0):
                env = {'fudge': f}
                try:
                    for st, tgt in steps:
                        if st == 'max':
                            env[tgt] = maxr
                        elif isinstance(st, ast.Assign):
                            env[tgt] = maxr if call_name(st.value) == 'max' else arith(st.value, env)
                        else:
                            env[tgt] = arith(ast.BinOp(left=ast.Name(id=tgt), op=st.op, right=st.value), env)
                    got = arith(rad, env)
                except (ValueError, KeyError) as err:
                    okr, detail = False, 'radius expression not arithmetic over (max radius, fudge): {}'.format(err)
                    break
                if got < maxr * f - 1e-12:
                    okr, detail = False, 'radius {:.4f} < largest pair threshold {:.4f} at max radius {}, fudge {}'.format(got, maxr * f, maxr, f)
                    break
            if not okr:
                break
    ck.ob('BND-search-radius', mod.loc(bd), okr, 'the KD-tree candidate radius is at least the largest pair threshold (max radius x fudge) for every fudge factor, '
          'so no pair the criterion accepts is missed' + (' -- ' + detail if detail else ''), key='BND-search-radius')

    # ------------------------------------------------------------ name-based bonds
    bn = mod.func('_bonds_from_names')
    ck.analysed(mod, bn)
    bdef = single_def(bn, 'block')
    ok_block = bdef is not None and u(bdef) in ('force_field.blocks.get(resname)', 'force_field.blocks[resname]')
    eloops = [n for n in bn.body if isinstance(n, ast.For) and u(n.iter) in ('block.edges', 'block.edges()')]
    adds = stmts_with_env(bn, lambda s: isinstance(s, ast.Expr) and call_attr(s.value) == 'add_edge')
    ok = ok_block and len(eloops) == 1 and len(adds) == 1 and any(adds[0][0] is n for n in ast.walk(eloops[0]))
    if ok:
        rel = stmts_with_env(bn, lambda s: s is adds[0][0], stmts=eloops[0].body)
        atoms = flow.atoms_of(rel[0][1])
        ok = len(atoms) == 2 and all(k[0] == 'In' and k[2] == 'mol_name_to_idx' and "['atomname']" in k[1] for k in atoms) and \
            flow.equivalent(rel[0][1], flow.AND(*[('atom', k) for k in atoms]))[0]
    ck.ob('MPT-name-bonds', mod.loc(bn), ok, 'an edge is copied from the reference block exactly when both of its atom names are present in the residue',
          key='MPT-name-bonds|edges')
    nloops = [n for n in bn.body if isinstance(n, ast.For) and isinstance(n.iter, ast.Call) and call_name(n.iter) in ('nx.non_edges', 'networkx.non_edges')]
    ok = len(nloops) == 1 and u(nloops[0].iter.args[0]) == 'block' and ok_block
    ck.ob('MPT-name-bonds', mod.loc(bn), ok, 'the non-bonds handed to the distance pass are those of the same reference block of this call (no stale cache)',
          key='MPT-name-bonds|non-edges')
    dup = [s for s, c, e in stmts_with_env(bn, lambda s: isinstance(s, ast.Raise)) if 'multiple atoms' in u(s)]
    ck.ob('MPT-name-bonds', mod.loc(bn), len(dup) == 1, 'duplicate atom names in a residue are an error (falls back to distance)', key='MPT-name-bonds|duplicates')
    # only atoms that *have* a name take part in the name table; "duplicate" means two atoms carrying the same name
    nloop = [l for l in bn.body if isinstance(l, ast.For) and u(l.iter) == 'nodes']
    fills = stmts_with_env(bn, lambda s_: (isinstance(s_, ast.Expr) and call_attr(s_.value) == 'add' and u(s_.value.func.value).startswith('mol_name_to_idx[')) or
                           (isinstance(s_, ast.Assign) and u(s_.targets[0]).startswith('mol_name_to_idx[')), stmts=nloop[0].body) if len(nloop) == 1 else []
    ok = len(fills) == 1
    if ok:
        ats = list(flow.atoms_of(fills[0][1]))
        ok = len(ats) == 1 and ats[0][0] == 'In' and ats[0][1] == "'atomname'" and flow.equivalent(fills[0][1], ('atom', ats[0]))[0]
        rz = [(st_, c_) for st_, c_, e_ in stmts_with_env(bn, lambda s_: isinstance(s_, ast.Raise)) if 'multiple atoms' in u(st_)]
        ok = ok and len(rz) == 1 and any(a[0] == 'Gt' and 'len(' in a[1] and a[2] == '1' for a in flow.atoms_of(rz[0][1])) and not any(isinstance(n, ast.Raise) for n in ast.walk(nloop[0]))
    ck.ob('MPT-name-bonds', mod.loc(bn), ok, 'the name table is filled from exactly the atoms that carry an `atomname` (an atom without a name is not a name clash), and a clash is '
          'more than one atom under one name', key='MPT-name-bonds|named-atoms-only')
    # the processor always re-partitions, whatever the modes
    cls = mod.cls('MakeBonds')
    rs = ck.need(method(cls, 'run_system'), 'MakeBonds.run_system vanished')
    ck.analysed(mod, rs)
    mcalls = calls_with_env(rs, lambda c: call_name(c) == 'make_bonds')
    ok = len(mcalls) == 1
    if ok:
        names = {}
        for k in flow.atoms_of(mcalls[0][2]):
            if k[0] == 'truth' and k[1] == 'system.molecules':
                names[k] = 'NONEMPTY'
        ok = flow.equivalent(flow.rename(mcalls[0][2], names), flow.parse_formula('NONEMPTY'))[0] and len(names) == len(flow.atoms_of(mcalls[0][2]))
        c = mcalls[0][0]
        ok = ok and u(kwarg(c, 'allow_name')) == 'self.allow_name' and u(kwarg(c, 'allow_dist')) == 'self.allow_dist' and u(kwarg(c, 'fudge')) == 'self.fudge'
        st = [x for x in rs.body if isinstance(x, ast.Assign) and u(x.targets[0]) == 'system.molecules']
        ok = ok and len(st) == 1 and u(st[0].value) == u(mcalls[0][1].targets[0]) if isinstance(mcalls[0][1], ast.Assign) else False
    ck.ob('PROV-modes', mod.loc(rs), ok, 'MakeBonds.run_system rebuilds the molecules from the residue partition for every non-empty system, in every combination of modes',
          key='PROV-modes|always-partition')
    shared.partition_graph_rule(ck)
    # collect_residues (every atom in the group of its own key) is decided by its helper contract (rules/helpers.py: interpreted on sample graphs)
    cli_modes(ck)
    shared.truthy_zero(ck, [MB, 'vermouth/graph_utils.py'])
    ck.assume('KD-tree search completeness and near-threshold floating point are not decided; radii oracle = Bondi 1964 (embedded table)')


def cli_modes(ck):
    """bin/martinize2: `-bonds-from` selects the criteria that are applied -- name: the block's bonds only, distance: the distance criterion only, both: both,
    none: neither (only the bonds of the input file).  The two flags are interpreted over the option's own choices and followed to MakeBonds."""
    from .. import interp
    cli = ck.index.mod('bin/martinize2')
    ent = cli.func('entry')
    choices = None
    for c in ast.walk(cli.tree):
        if isinstance(c, ast.Call) and call_attr(c) == 'add_argument' and c.args and try_fold(c.args[0], default=None) == '-bonds-from':
            ch = kwarg(c, 'choices')
            choices = try_fold(ch, default=None) if ch is not None else None
    ck.need(choices, 'the -bonds-from option (with its choices) was not found in bin/martinize2')
    want = {'name': (True, False), 'distance': (False, True), 'both': (True, True), 'none': (False, False)}
    name_def, dist_def = single_def(ent, 'bonds_from_name'), single_def(ent, 'bonds_from_dist')
    ck.need(name_def is not None and dist_def is not None, 'bonds_from_name / bonds_from_dist are no longer single assignments in entry()')
    bad = None
    try:
        for choice in choices:
            got = (bool(interp.ev(name_def, {'args.bonds_from': choice})), bool(interp.ev(dist_def, {'args.bonds_from': choice})))
            if choice not in want:
                bad = 'an undocumented choice {!r}'.format(choice)
            elif got != want[choice]:
                bad = '-bonds-from {} applies (names, distances) = {}, documented {}'.format(choice, got, want[choice])
            if bad:
                break
    except interp.Unsupported as err:
        bad = 'could not be interpreted: {}'.format(err)
    ck.ob('KW-wiring', cli.loc(cli.stmt_of(name_def)), bad is None, 'the criteria applied are the ones -bonds-from names ({} choices interpreted){}'.format(
        len(choices), '' if bad is None else ' -- ' + bad), key='KW-wiring|bonds-from|table')
    p2u = cli.func('pdb_to_universal')
    calls = [c for c in walk_local(ent) if isinstance(c, ast.Call) and call_name(c) == 'pdb_to_universal']
    mk = [c for c in walk_local(p2u) if isinstance(c, ast.Call) and (call_name(c) or '').split('.')[-1] == 'MakeBonds']
    ok = len(calls) == 1 and len(mk) == 1
    if ok:
        a, b = kwarg(calls[0], 'bonds_from_name'), kwarg(calls[0], 'bonds_from_dist')
        c_, d_ = kwarg(mk[0], 'allow_name'), kwarg(mk[0], 'allow_dist')
        ok = a is not None and b is not None and c_ is not None and d_ is not None and \
            (u(a), u(b), u(c_), u(d_)) == ('bonds_from_name', 'bonds_from_dist', 'bonds_from_name', 'bonds_from_dist')
    ck.ob('KW-wiring', cli.loc(p2u), ok, 'the two flags reach MakeBonds(allow_name=.., allow_dist=..) uncrossed', key='KW-wiring|bonds-from|passed')
