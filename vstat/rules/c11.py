"""C11 -- topology independent of presentation: hash-seed clause only.

ORD lint: iteration over a hash-ordered collection (set algebra, set displays,
connected components, known set-typed attributes) that reaches an
order-sensitive consumer without sorting.  Only str/object elements depend on
PYTHONHASHSEED / addresses; sets of ints iterate deterministically.  Every site
of today's tree is triaged below (one reason each); a site that is not in the
table and cannot be discharged automatically is reported.
"""
import ast

from ..index import u, call_name, call_attr, walk_local, FUNC_TYPES
from ..util import assignments_to
from . import shared

# the same sites when the local that names the set is inlined into the loop header (a triaged name and the expression it is bound to are the same site)
TRIAGE_INLINED = {
    ('vermouth/gmx/itp.py', 'write_molecule_itp', 'set(pre_section_lines) | set(post_section_lines)'): 'remaining_sections',
    ('vermouth/graph_utils.py', '_items_with_common_values', 'set(graph.nodes)'): 'nodes',
    ('vermouth/ismags.py', 'ISMAGS._map_nodes', 'to_be_mapped - set(mapping.keys())'): 'left_to_map',
    ('vermouth/map_parser.py', 'MappingDirector._resolve_atom_spec', '{name[1] for name in self.identifiers if name[0] == prefix}'): 'options',
    ('vermouth/molecule.py', 'Molecule.edges_between', 'set_2 & set(self[node1])'): 'cross',
    ('vermouth/molecule.py', 'Molecule.edges_between', 'set(n_bunch1)'): 'set_1',
    ('vermouth/molecule.py', 'Molecule.same_nodes', 'set((key for key in self_node if key not in ignore_attr))'): 'self_keys',
    ('vermouth/processors/do_mapping.py', 'do_mapping', 'uncovered_atoms - uncovered_hydrogens'): 'other_uncovered',
    ('vermouth/processors/do_mapping.py', 'do_mapping', "{idx for idx in uncovered_atoms if molecule.nodes[idx].get('element', '') == 'H'}"): 'uncovered_hydrogens',
    ('vermouth/processors/repair_graph.py', 'repair_graph', 'set(found.nodes) - set(match.values())'): 'extra',
}

SETOPS = (ast.BitOr, ast.BitAnd, ast.Sub, ast.BitXor)
SET_ATTRS = {'citations', 'features'}            # attributes documented/initialised as sets of str
INSENSITIVE_CALLS = {'any', 'all', 'sum', 'len', 'set', 'frozenset', 'sorted', 'min', 'max', 'Counter', 'collections.Counter'}
SENSITIVE_CALLS = {'list', 'tuple', 'enumerate', 'zip', 'iter', 'next', 'dict'}
SENSITIVE_METHODS = {'join', 'extend'}

INT = 'elements are integer node keys / indices: their set order does not depend on the hash seed'
# (module, function, iterable text) -> reason.  Confirmed by reading on the pinned tree.
TRIAGE = {
    ('vermouth/gmx/itp.py', 'write_molecule_itp', 'remaining_sections'):
        'named exception: only the order of sections that have pre/post lines but no interactions changes in the text; the topology is the same',
    ('vermouth/gmx/topology.py', 'write_gmx_topology', 'molecule.citations'):
        'named exception: order of the "please cite" comment lines in the ITP header; not part of the topology',
    ('vermouth/graph_utils.py', '_items_with_common_values', 'nodes'): INT,
    ('vermouth/graph_utils.py', 'categorical_cartesian_product', 'set(node1.keys()) | set(node2.keys())'):
        'fills a dict that is passed as **attrs to add_node: keyword order of node attributes is never observed; function unused by the pipeline',
    ('vermouth/graph_utils.py', 'categorical_modular_product', 'g1_edge_keys | g2_edge_keys'):
        'fills a dict passed as **attrs to add_edge; function unused by the pipeline',
    ('vermouth/graph_utils.py', 'partition_graph', 'old_attrs.keys() & edge_attrs.keys()'):
        'builds the attribute dict of a residue-graph edge; only looked up by key',
    ('vermouth/ismags.py', 'ISMAGS._largest_common_subgraph', 'to_be_mapped'):
        'to_be_mapped holds frozensets of node keys; callers in the pipeline relabel nodes to ints first (repair_graph), and the result set is order-free',
    ('vermouth/ismags.py', 'ISMAGS._map_nodes', 'left_to_map'): 'candidate is chosen by min() with a key over node ids (ints after relabelling), not by set order',
    ('vermouth/map_parser.py', 'MappingBuilder.add_reference', 'nodes_from'): 'guarded by assert len(nodes_from) == 1: a single element has no order',
    ('vermouth/map_parser.py', 'MappingDirector._resolve_atom_spec', 'options'): 'guarded by len(options) == 1: a single element has no order',
    ('vermouth/molecule.py', 'Molecule.edges_between', 'cross'): INT,
    ('vermouth/molecule.py', 'Molecule.edges_between', 'set_1'): INT,
    ('vermouth/molecule.py', 'Molecule.same_nodes', 'self_keys'): 'returns a boolean that is False as soon as any key differs: order-free',
    ('vermouth/molecule.py', 'Molecule.subgraph', 'nodes'): 'iterates the caller\'s argument in the caller\'s order (the name is rebound to a set only afterwards)',
    ('vermouth/processors/canonicalize_modifications.py', 'find_ptm_atoms', 'extra_atoms'): INT,
    ('vermouth/processors/canonicalize_modifications.py', 'find_ptm_atoms', 'to_see'): INT,
    ('vermouth/processors/canonicalize_modifications.py', 'fix_ptm', 'n_idxs'): INT,
    ('vermouth/processors/do_mapping.py', 'apply_block_mapping', 'set(blocks_to.nodes) - mapped_block_idxs'):
        'block atom names (str): each iteration only adds to a set and stores weight 0 under its own key; no order is observed',
    ('vermouth/processors/do_mapping.py', 'apply_mod_mapping', 'out_idxs'): INT,
    ('vermouth/processors/do_mapping.py', 'do_mapping', 'other_uncovered'): INT,
    ('vermouth/processors/do_mapping.py', 'do_mapping', 'uncovered_hydrogens'): INT,
    ('vermouth/processors/repair_graph.py', '_patch_modification', 'non_anchor_idxs'):
        'named exception: zipped with the index range that nx.disjoint_union assigns to nx.subgraph(modification, non_anchor_idxs), a view that iterates '
        'an equal set built from this one (the code documents the assumption); identical results under 6 hash seeds',
    ('vermouth/processors/repair_graph.py', 'repair_graph', 'extra'): INT,
    ('vermouth/processors/do_mapping.py', 'modification_matches', 'needed_mod_mappings', 'sorted(key=len)'):
        'ties of sorted(key=len) keep set order: only the order in which modification mappings are tried changes; the placements are re-sorted by atom key in do_mapping',
}


def setlike(e, fn, compvars, depth=0):
    if depth > 4:
        return False
    if isinstance(e, (ast.Set, ast.SetComp)):
        return True
    if isinstance(e, ast.Name) and e.id in compvars:
        return True
    if isinstance(e, ast.Attribute) and e.attr in SET_ATTRS:
        return True
    if isinstance(e, ast.Call):
        n = call_name(e) or ''
        if n in ('set', 'frozenset'):
            return True
        if call_attr(e) in ('union', 'intersection', 'difference', 'symmetric_difference'):
            return True
        if call_attr(e) == 'copy' and setlike(e.func.value, fn, compvars, depth + 1):
            return True
    if isinstance(e, ast.BinOp) and isinstance(e.op, SETOPS):
        if setlike(e.left, fn, compvars, depth + 1) or setlike(e.right, fn, compvars, depth + 1):
            return True
        if isinstance(e.left, ast.Call) and call_attr(e.left) in ('keys', 'items'):
            return True
        if isinstance(e.right, ast.Call) and call_attr(e.right) in ('keys', 'items') and not isinstance(e.op, ast.Sub):
            return True
    if isinstance(e, ast.Name) and fn is not None:
        defs = assignments_to(fn, e.id)
        if defs and all(setlike(d, fn, compvars, depth + 1) for d in defs):
            return True
    return False


def sites_of(module, qual, fn):
    compvars = set()
    for n in walk_local(fn):
        if isinstance(n, ast.For) and isinstance(n.iter, ast.Call) and (call_name(n.iter) or '').endswith('connected_components') and isinstance(n.target, ast.Name):
            compvars.add(n.target.id)
    out = []
    for n in walk_local(fn):
        cands = []
        if isinstance(n, ast.For):
            cands.append(('for', n.iter, n))
        if isinstance(n, (ast.ListComp, ast.GeneratorExp, ast.DictComp, ast.SetComp)):
            for g in n.generators:
                cands.append(('comprehension', g.iter, n))
        if isinstance(n, ast.Call):
            cn = call_name(n) or ''
            if cn in SENSITIVE_CALLS or call_attr(n) in SENSITIVE_METHODS:
                for a in n.args:
                    cands.append(('call ' + (cn or call_attr(n)), a, n))
            if call_attr(n) == 'pop' and not n.args and isinstance(n.func, ast.Attribute):
                cands.append(('call pop', n.func.value, n))
            if cn == 'sorted' and n.args and any(k.arg == 'key' and u(k.value) == 'len' for k in n.keywords):
                # a stable sort on a non-injective key keeps the set order among ties
                cands.append(('call sorted(key=len)', n.args[0], n))
        for kind, it, node in cands:
            if setlike(it, fn, compvars):
                out.append((kind, it, node))
    return out


def auto_insensitive(module, kind, node):
    """Discharged without triage: the result is a set, or the consumer cannot observe the order."""
    if isinstance(node, ast.SetComp):
        return 'result is a set'
    parent = module.parent.get(id(node))
    if isinstance(node, (ast.GeneratorExp, ast.ListComp)) and isinstance(parent, ast.Call) and (call_name(parent) in INSENSITIVE_CALLS or
                                                                                              call_attr(parent) in ('update', 'union', 'issubset', 'issuperset')):
        return 'consumed by {}()'.format(call_name(parent) or call_attr(parent))
    if isinstance(node, ast.GeneratorExp) and isinstance(parent, ast.Starred):
        gp = module.parent.get(id(parent))
        if isinstance(gp, ast.Call) and call_attr(gp) in ('union', 'intersection'):
            return 'consumed by set.{}()'.format(call_attr(gp))
    if isinstance(node, ast.Call) and call_name(node) in ('list', 'tuple') and isinstance(parent, ast.Call) and call_name(parent) in INSENSITIVE_CALLS:
        return 'consumed by {}()'.format(call_name(parent))
    if isinstance(node, ast.For) and not node.orelse:
        # a loop whose whole body feeds sets (`acc.update(..)`, `acc.add(..)`, `acc |= ..`): the union does not depend on the visiting order
        fn = module.enclosing_function(node)

        def set_sink(st):
            if isinstance(st, ast.Expr) and isinstance(st.value, ast.Call) and call_attr(st.value) in ('update', 'add') and isinstance(st.value.func.value, ast.Name):
                return setlike(st.value.func.value, fn, set())
            if isinstance(st, ast.AugAssign) and isinstance(st.op, ast.BitOr) and isinstance(st.target, ast.Name):
                return setlike(st.target, fn, set())
            return False
        if node.body and all(set_sink(st) for st in node.body):
            return 'the loop only adds to a set'
        # a search with a constant verdict: `for x in s: if cond(x): return False` .. `return True` -- which element is met first does not change the answer
        def verdict(st):
            return isinstance(st, ast.If) and not st.orelse and len(st.body) == 1 and isinstance(st.body[0], ast.Return) and \
                isinstance(st.body[0].value, ast.Constant) and not any(isinstance(x, (ast.Call,)) and call_attr(x) in ('append', 'add', 'update', 'pop', 'remove', 'extend')
                                                                       for x in ast.walk(st.test))
        if node.body and all(verdict(st) for st in node.body) and len({repr(st.body[0].value.value) for st in node.body}) == 1:
            return 'the loop only looks for an element that decides a constant answer'
    return None


def run(ck):
    idx = ck.index
    nsites = 0
    seen_keys = set()
    for module, qual, fn in idx.all_functions():
        found = sites_of(module, qual, fn)
        if found:
            ck.analysed(module, fn)
        for kind, it, node in found:
            nsites += 1
            text = u(it)
            key = (module.rel, qual, text)
            where = module.loc(node)
            auto = auto_insensitive(module, kind, node)
            if auto:
                ck.ob('ORD-hash-order', where, True, '{}: {} over `{}` -- {}'.format(qual, kind, text[:70], auto), key='ORD|auto|{}|{}|{}'.format(module.rel, qual, text[:60]))
                continue
            if kind.startswith('call sorted'):
                key = key + ('sorted(key=len)',)
            if key not in TRIAGE and key[:3] in TRIAGE_INLINED:
                key = (key[0], key[1], TRIAGE_INLINED[key[:3]]) + key[3:]
            reason = TRIAGE.get(key)
            seen_keys.add(key)
            ck.ob('ORD-hash-order', where, reason is not None,
                  '{}: {} over the hash-ordered `{}`{}'.format(qual, kind, text[:70], ' -- triaged: ' + reason if reason else
                                                               ' reaches an order-sensitive consumer unsorted and is not a triaged site'),
                  key='ORD|{}|{}|{}'.format(module.rel, qual, text[:60]))
    ck.expect_count('ORD iteration sites', nsites, 25)
    stale = [k for k in TRIAGE if k not in seen_keys]
    ck.extra['ord'] = {'sites': nsites, 'triage_entries': len(TRIAGE), 'triage_entries_not_matched_on_this_tree': ['|'.join(k) for k in stale]}
    shared.pdb_atom_record_rules(ck, 'ORD-record-local')
    ck.assume('only the PYTHONHASHSEED clause of C11 is decided; order-, name- and frame-independence depend on search outcomes and numerics')
    ck.assume('set-typed values reaching a function as parameters or through containers are not inferred (kind inference is local: displays, set algebra, '
              'set()/frozenset(), connected components, attributes {})'.format(sorted(SET_ATTRS)))
