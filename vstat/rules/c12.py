"""C12 -- editing a molecule keeps atoms, bonds and interactions consistent."""
import ast
import re

from ..index import u, call_name, call_attr, walk_local, base_name, dotted
from .. import flow
from ..fold import try_fold
from ..util import stmts_with_env, calls_with_env, assignments_to, param_names, kwarg, single_def
from .common import method, guarded_by_raise, has_atom, unconditional_in

MOL = 'vermouth/molecule.py'
MATERIALISERS = {'list', 'tuple', 'set', 'frozenset', 'sorted', 'dict'}
COPIERS = {'copy.copy', 'copy.deepcopy', 'dict'}


def nx_node_removers(ck):
    """Public nx.Graph methods that delete entries of the node table, read off
    the parsed networkx source."""
    nxm = ck.index.networkx_graph_module()
    graph = nxm.cls('Graph')
    removers, adders = [], []
    for item in graph.body:
        if not isinstance(item, ast.FunctionDef) or item.name.startswith('_') and item.name != '__init__':
            continue
        src = u(item)
        dels = any(isinstance(n, ast.Delete) and any('self._node' in u(t) or 'nodes[' in u(t) for t in n.targets) for n in ast.walk(item))
        clears = 'self._node.clear()' in src
        if dels or clears:
            removers.append(item.name)
        if any(isinstance(n, ast.Assign) and any(u(t).startswith('self._node[') for t in n.targets) for n in ast.walk(item)):
            adders.append(item.name)
    return nxm, sorted(removers), sorted(adders)


def consuming_uses(fn, name):
    """Places where the iterable bound to parameter `name` is consumed, in
    source order, up to the first materialising rebinding."""
    uses = []
    rebound_at = None
    for node in sorted((n for n in walk_local(fn) if hasattr(n, 'lineno')), key=lambda n: (n.lineno, n.col_offset)):
        if isinstance(node, ast.Assign) and any(isinstance(t, ast.Name) and t.id == name for t in node.targets):
            v = node.value
            if isinstance(v, ast.Call) and isinstance(v.func, ast.Name) and v.func.id in MATERIALISERS and v.args and u(v.args[0]) == name:
                if rebound_at is None:
                    rebound_at = node.lineno
                    uses.append(('materialise', node.lineno))
    for node in sorted((n for n in walk_local(fn) if hasattr(n, 'lineno')), key=lambda n: (n.lineno, n.col_offset)):
        line = node.lineno
        if rebound_at is not None and line >= rebound_at:
            continue
        if isinstance(node, ast.For) and u(node.iter) == name:
            uses.append(('for', line))
        elif isinstance(node, ast.comprehension):
            pass
        elif isinstance(node, (ast.ListComp, ast.SetComp, ast.GeneratorExp, ast.DictComp)):
            for g in node.generators:
                if u(g.iter) == name:
                    uses.append(('comprehension', line))
        elif isinstance(node, ast.Call):
            for a in list(node.args) + [k.value for k in node.keywords]:
                if u(a) == name:
                    uses.append(('call ' + (call_name(node) or call_attr(node) or '?'), line))
    return uses, rebound_at


def merge_rules(ck):
    """merge_molecule: fresh keys above the highest present key, every reference rewritten (shared with C01)."""
    idx = ck.index
    mod = idx.mod(MOL)
    cls = mod.cls('Molecule')

    def M(name, c=cls):
        m = method(c, name)
        ck.need(m is not None, '{}.{} vanished'.format(c.name, name))
        ck.analysed(mod, m)
        return m
    # ------------------------------------------------------------ CACHE: merge offset
    merge = M('merge_molecule')
    enums = [c for c in walk_local(merge) if isinstance(c, ast.Call) and call_name(c) == 'enumerate' and kwarg(c, 'start') is not None]
    ck.need(len(enums) == 1, 'merge_molecule: enumerate(<newcomer nodes>, start=...) not found')
    en = enums[0]
    found = calls_with_env(merge, lambda c: c is en)
    env = found[0][3]
    start = flow.subst(kwarg(en, 'start'), env)
    start_txt = u(start)
    ck.ob('PROV-merge', mod.loc(en), u(en.args[0]) in ('molecule.nodes()', 'molecule.nodes', 'molecule'),
          'fresh keys are enumerated over all nodes of the newcomer (`{}`)'.format(u(en.args[0])), key='PROV-merge|enumerate-all')
    # offset comes from two arms: non-empty receiver / empty receiver
    offs = stmts_with_env(merge, lambda s: isinstance(s, ast.Assign) and u(s.targets[0]) == 'offset')
    ck.need(len(offs) == 2, 'merge_molecule: the two definitions of the key offset (non-empty / empty receiver) not found')
    ck.ob('CACHE-max-key', mod.loc(en), isinstance(kwarg(en, 'start'), ast.BinOp) and u(kwarg(en, 'start')) == 'offset + 1',
          'new keys start one above the offset (`start={}`)'.format(u(kwarg(en, 'start'))), key='CACHE-max-key|start')
    for st, cond, e in offs:
        val = flow.subst(st.value, e)
        txt = u(val)
        atoms = [' '.join(map(str, k)) for k in flow.atoms_of(cond)]
        nonempty = any('self.nodes()' in a or 'self.nodes' in a or 'len(self)' in a for a in atoms) and \
            flow.implies(cond, flow.AND(*[('atom', k) for k in flow.atoms_of(cond) if 'self.nodes' in ' '.join(map(str, k))]))[0]
        if try_fold(val, default=None) == 0:
            ck.ob('CACHE-max-key', mod.loc(st), True, 'empty receiver: offset 0', key='CACHE-max-key|empty')
            continue
        # the value is self.max_node (attribute): find the dominating recomputation in the same block
        block = mod.enclosing(st, (ast.If, ast.FunctionDef))
        body = block.body if any(s is st for s in block.body) else block.orelse
        pos = [i for i, s in enumerate(body) if s is st][0]
        recomputed = None
        reads = {n for n in map(u, ast.walk(val))}
        direct = any(t in ('max(self)', 'max(self.nodes)', 'max(self.nodes())', 'max(self._node)') for t in reads)
        if not direct:
            attr = next((t for t in reads if t.startswith('self.') and t.count('.') == 1 and '(' not in t), None)
            for s in body[:pos]:
                if isinstance(s, ast.Assign) and u(s.targets[0]) == attr:
                    recomputed = s
                elif any(isinstance(n, (ast.Assign, ast.AugAssign)) and attr and attr in [u(t) for t in (n.targets if isinstance(n, ast.Assign) else [n.target])]
                         for n in ast.walk(s)) and not isinstance(s, ast.Assign):
                    recomputed = None   # a conditional write in between: the cache may survive
            ok = recomputed is not None and u(recomputed.value) in ('max(self)', 'max(self.nodes)', 'max(self.nodes())', 'max(self._node)')
            how = 'recomputed unconditionally just before as `{}`'.format(u(recomputed)) if recomputed is not None else \
                'read from the cache `{}` without an unconditional recomputation from the node set'.format(attr)
        else:
            ok = True
            how = 'computed directly from the node set'
        ck.ob('CACHE-max-key', mod.loc(st), ok and nonempty,
              'non-empty receiver: the offset `{}` is the highest key currently present: {}'.format(txt, how), key='CACHE-max-key|nonempty')
    # residue / charge group shifts come from the atom with that highest key and are applied unconditionally
    loop = mod.enclosing(en, ast.For)
    stores = stmts_with_env(merge, lambda s: isinstance(s, ast.Assign) and isinstance(s.targets[0], ast.Subscript) and u(s.targets[0].value) == 'new_atom',
                            stmts=loop.body)
    for key, off in (('resid', 'residue_offset'), ('charge_group', 'offset_charge_group')):
        hit = [s for s, c, e in stores if try_fold(s.targets[0].slice) == key and off in u(s.value) and "get('{}', 1)".format(key) in u(s.value) and flow.valid(c)]
        # the shift is read from the receiver's atom under the very key the new keys are counted from -- compared with the locals substituted, so that it does not
        # matter through which names (`last_node_idx`, `last_atom`, ..) the atom is reached
        off_defs = stmts_with_env(merge, lambda s_, off=off: isinstance(s_, ast.Assign) and u(s_.targets[0]) == off)
        nonzero_offsets = [u(flow.subst(s_.value, e_)) for s_, _c, e_ in offs if try_fold(flow.subst(s_.value, e_), default=None) != 0]
        texts = [u(flow.subst(s_.value, e_)) for s_, _c, e_ in off_defs]
        from_last = len(nonzero_offsets) == 1 and "self.nodes[{}].get('{}', 1)".format(nonzero_offsets[0], key) in texts and \
            any(try_fold(s_.value, default=None) == 0 for s_, _c, _e in off_defs)
        ck.ob('PROV-merge', mod.loc(loop), len(hit) == 1 and from_last,
              '{} of every newcomer atom is shifted, unconditionally, by that of the receiver\'s atom with the highest key'.format(key), key='PROV-merge|shift|' + key)
    nonzero_offsets = [u(flow.subst(s_.value, e_)) for s_, _c, e_ in offs if try_fold(flow.subst(s_.value, e_), default=None) != 0]
    ck.ob('PROV-merge', mod.loc(merge), nonzero_offsets == ['self.max_node'],
          'the "last atom" whose resid/charge group are used is the one with the highest key (same value as the key offset: `{}`)'.format(nonzero_offsets), key='PROV-merge|last-atom')
    # correspondence filled for every newcomer node, every reference rewritten through it
    corr = [s for s in loop.body if isinstance(s, ast.Assign) and isinstance(s.targets[0], ast.Subscript) and u(s.targets[0].value) == 'correspondence']
    lt = [u(e) for e in loop.target.elts] if isinstance(loop.target, ast.Tuple) else []
    ok = len(corr) == 1 and lt and u(corr[0].targets[0].slice) == lt[1] and u(corr[0].value) == lt[0] and unconditional_in(merge, loop.body, corr[0])
    addn = [s for s in loop.body if isinstance(s, ast.Expr) and call_attr(s.value) == 'add_node']
    ok = ok and len(addn) == 1 and u(addn[0].value.args[0]) == lt[0] and unconditional_in(merge, loop.body, addn[0])
    ck.ob('PROV-merge', mod.loc(loop), ok, 'every newcomer node gets exactly one fresh key, recorded in the correspondence table', key='PROV-merge|correspondence')
    copies = [s for s in loop.body if isinstance(s, ast.Assign) and u(s.targets[0]) == 'new_atom']
    ck.ob('ALIAS-copy', mod.loc(loop), len(copies) == 1 and (call_name(copies[0].value) in COPIERS or call_attr(copies[0].value) == 'copy'),
          'merged atoms get a copy of the newcomer\'s attribute dict', key='ALIAS-copy|merge')
    ai = calls_with_env(merge, lambda c: call_attr(c) == 'add_interaction')
    ok = len(ai) == 1
    if ok:
        call, st, cond, e = ai[0]
        atoms = flow.subst(call.args[1], e)
        loops = [l for l in mod.ancestors(call) if isinstance(l, ast.For)]
        ok = 'correspondence[atom] for atom in interaction.atoms' in u(atoms) and len(loops) == 2 and unconditional_in(merge, loops[1].body, st) \
            and any(s is loops[1] for s in merge.body)
        ok = ok and len(loops) == 2 and u(loops[1].iter) == 'molecule.interactions.items()' and u(loops[0].iter) == u(loops[1].target.elts[1])
    ck.ob('PROV-merge', mod.loc(merge), ok, 'every interaction of the newcomer is added, unconditionally, with every atom translated through the correspondence table',
          key='PROV-merge|interactions')
    ae = calls_with_env(merge, lambda c: call_attr(c) == 'add_edge')
    ok = len(ae) == 1
    if ok:
        call, st, cond, e = ae[0]
        ok = [u(a) for a in call.args] == ['correspondence[node1]', 'correspondence[node2]']
        loops = [l for l in mod.ancestors(call) if isinstance(l, ast.For)]
        ok = ok and len(loops) == 1 and u(loops[0].iter) in ('molecule.edges', 'molecule.edges()', 'molecule.edges(data=True)', 'molecule.edges.data()', 'molecule.edges.items()') \
            and any(s is loops[0] for s in merge.body)
        # the loop names the two ends of the bond first (with or without its attributes)
        tg = loops[0].target if ok else None
        ok = ok and isinstance(tg, ast.Tuple) and len(tg.elts) in (2, 3) and isinstance(tg.elts[0], (ast.Name, ast.Tuple))
        # only self-loops may be skipped
        rel = stmts_with_env(merge, lambda s_: s_ is st, stmts=loops[0].body) if loops else []
        atoms = flow.atoms_of(rel[0][1]) if rel else {('?',)}
        ok = ok and all(k[0] == 'Eq' and 'correspondence[node1]' in k and 'correspondence[node2]' in k for k in atoms)
    ck.ob('PROV-merge', mod.loc(merge), ok, 'every bond of the newcomer is added between the translated ends (only a self-loop may be skipped)', key='PROV-merge|edges')



def run(ck):
    idx = ck.index
    mod = idx.mod(MOL)
    cls = mod.cls('Molecule')
    blk = mod.cls('Block')

    def M(name, c=cls):
        m = method(c, name)
        ck.need(m is not None, '{}.{} vanished'.format(c.name, name))
        ck.analysed(mod, m)
        return m

    merge_rules(ck)

    # ------------------------------------------------------------ Block.to_molecule
    tm = M('to_molecule', blk)
    tloops = [n for n in tm.body if isinstance(n, ast.For)]
    ok = False
    if tloops and isinstance(tloops[0].iter, ast.Call) and call_name(tloops[0].iter) == 'enumerate':
        l0 = tloops[0]
        lt = [u(e) for e in l0.target.elts]
        st_ = [s for s in l0.body if isinstance(s, ast.Assign) and isinstance(s.targets[0], ast.Subscript) and u(s.targets[0].value) == 'name_to_idx']
        ok = len(st_) == 1 and u(st_[0].targets[0].slice) == lt[1] and u(st_[0].value) == lt[0] and unconditional_in(tm, l0.body, st_[0]) \
            and u(l0.iter.args[0]) in ('self.nodes', 'self.nodes()', 'self') and u(kwarg(l0.iter, 'start')) == 'atom_offset'
    ck.ob('PROV-merge', mod.loc(tm), ok, 'Block.to_molecule numbers every block atom from atom_offset and records it in name_to_idx', key='PROV-merge|to_molecule|table')
    ai = calls_with_env(tm, lambda c: call_attr(c) == 'add_interaction')
    def top_loop(node):
        loops = [l for l in mod.ancestors(node) if isinstance(l, ast.For)]
        return loops[-1] if loops and any(s is loops[-1] for s in tm.body) else None
    ok = len(ai) == 1 and 'name_to_idx[atom] for atom in interaction.atoms' in u(flow.subst(ai[0][0].args[1], ai[0][3])) \
        and top_loop(ai[0][0]) is not None and unconditional_in(tm, top_loop(ai[0][0]).body, ai[0][1])
    ae = calls_with_env(tm, lambda c: call_attr(c) == 'add_edge')
    # both ends of an edge go through the table: as a generator over the pair, or spelled out end by end
    def ends_ok(call, loop):
        if 'name_to_idx[node]' in u(call):
            return True
        ends = [u(e) for e in loop.target.elts[:2]] if loop is not None and isinstance(loop.target, ast.Tuple) else []
        return len(ends) == 2 and [u(a) for a in call.args[:2]] == ['name_to_idx[{}]'.format(e) for e in ends]
    ok = ok and len(ae) == 1 and top_loop(ae[0][0]) is not None and ends_ok(ae[0][0], top_loop(ae[0][0])) and unconditional_in(tm, top_loop(ae[0][0]).body, ae[0][1])
    ck.ob('PROV-merge', mod.loc(tm), ok, 'Block.to_molecule rewrites every interaction atom and edge end through name_to_idx, unconditionally', key='PROV-merge|to_molecule|refs')

    # ------------------------------------------------------------ PAIR: removal purges interactions
    nxm, removers, adders = nx_node_removers(ck)
    ck.extra['networkx'] = {'file': nxm.path, 'node_removing_methods': removers, 'node_adding_methods': adders}
    ck.need({'remove_node', 'remove_nodes_from'} <= set(removers), 'networkx Graph: remove_node/remove_nodes_from not recognised as node removers')
    for name in removers:
        if name == 'clear':
            if method(cls, 'clear') is None:
                ck.note('nx.Graph.clear() is inherited unchanged: it empties the node table but not Molecule.interactions '
                        '(outside the editing operations the property lists)')
            continue
        m = method(cls, name)
        ck.ob('PAIR-removal', MOL, m is not None, 'Molecule overrides the node-removing method {}'.format(name), key='PAIR-removal|override|' + name)
        if m is None:
            continue
        ck.analysed(mod, m)
        sup = calls_with_env(m, lambda c, name=name: call_attr(c) == name and 'super()' in u(c.func))
        purge = calls_with_env(m, lambda c: call_attr(c) == '_remove_interactions_with_node')
        param = param_names(m)[1]
        ok = len(sup) == 1 and flow.valid(sup[0][2]) and len(purge) == 1 and flow.valid(purge[0][2])
        if ok:
            arg = u(purge[0][0].args[0])
            loops = [l for l in mod.ancestors(purge[0][0]) if isinstance(l, ast.For)]
            if loops:
                ok = u(loops[0].iter) == param and arg == u(loops[0].target) and len(loops) == 1
            else:
                ok = arg == param
        ck.ob('PAIR-removal', mod.loc(m), ok, 'Molecule.{} removes the node(s) and purges the interactions of each removed node on every path'.format(name),
              key='PAIR-removal|purge|' + name)
        if not any(isinstance(l, ast.For) and u(l.iter) == param for l in walk_local(m)):
            continue   # the parameter is a single node, not an iterable
        uses, rebound = consuming_uses(m, param)
        consuming = [x for x in uses if x[0] != 'materialise']
        ck.ob('ITER-one-shot', mod.loc(m), len(consuming) <= (0 if rebound is not None else 1),
              'Molecule.{}: parameter `{}` is consumed {} time(s) before being materialised ({})'.format(name, param, len(consuming), uses),
              key='ITER-one-shot|' + name)
    # the same for every other method of the module that walks an argument: an argument that is walked more than once is materialised first
    # (a generator -- `molecule.subgraph(filter_minimal(..))` is the documented usage -- would be empty the second time)
    nwalk = 0
    for qual_, fn_ in sorted(mod.functions.items()):
        if qual_.split('.')[-1] in removers or '.' in qual_ and qual_.split('.')[-1].startswith('__') and qual_.split('.')[-1] != '__init__':
            continue
        for p_ in param_names(fn_):
            if p_ in ('self', 'cls'):
                continue
            walked = [l for l in walk_local(fn_) if (isinstance(l, ast.For) and u(l.iter) == p_) or
                      (isinstance(l, (ast.ListComp, ast.SetComp, ast.DictComp, ast.GeneratorExp)) and any(u(g.iter) == p_ for g in l.generators))]
            if not walked:
                continue
            # the contract is the one the docstring states: `atoms: collections.abc.Sequence` (add_interaction) may be walked twice,
            # `nodes: collections.abc.Iterable` may not
            doc_ = ast.get_docstring(fn_) or ''
            declared = re.search(r'^\s*{}\s*:\s*(.+)$'.format(re.escape(p_)), doc_, re.M)
            if declared and 'Iterable' not in declared.group(1) and 'Iterator' not in declared.group(1):
                continue
            uses_, rebound_ = consuming_uses(fn_, p_)
            consuming_ = [x for x in uses_ if x[0] != 'materialise' and not x[0].startswith('call isinstance') and not x[0].startswith('call len')]
            total_ = len(consuming_) + (1 if rebound_ is not None else 0)
            if total_ <= 1:
                continue
            nwalk += 1
            ck.ob('ITER-one-shot', mod.loc(fn_), False, '{}: argument `{}` is walked {} times ({}) without being materialised first: a one-shot iterable is empty from the '
                  'second walk on'.format(qual_, p_, total_, uses_), key='ITER-one-shot|{}|{}'.format(qual_, p_))
    ck.ob('ITER-one-shot', MOL, True, 'arguments walked more than once before being materialised, in the other functions of molecule.py: {}'.format(nwalk), key='ITER-one-shot|scan')
    purge = M('_remove_interactions_with_node')
    rem = calls_with_env(purge, lambda c: call_attr(c) == 'remove' and 'interactions' in u(c.func))
    ok = len(rem) == 1
    if ok:
        call, st, cond, e = rem[0]
        loops = [l for l in mod.ancestors(call) if isinstance(l, ast.For)]
        inner = loops[0]
        ok = isinstance(inner.iter, ast.Call) and call_name(inner.iter) in ('list', 'tuple') and \
            any(k[0] == 'In' and k[1] == 'node' and 'atoms' in k[2] for k in flow.atoms_of(cond)) and \
            flow.equivalent(cond, ('atom', [k for k in flow.atoms_of(cond) if k[0] == 'In'][0]))[0] and \
            len(loops) == 2 and 'self.interactions' in u(loops[1].iter)
    ck.ob('PAIR-removal', mod.loc(purge), ok, 'the purge removes every interaction that mentions the node, iterating a copy of each list over all interaction types',
          key='PAIR-removal|purge-helper')
    sg = M('subgraph')
    uses, rebound = consuming_uses(sg, param_names(sg)[1])
    consuming = [x for x in uses if x[0] != 'materialise']
    if len(consuming) > 1:
        ck.note('Molecule.subgraph consumes its `nodes` argument {} times ({}): with a one-shot iterator the subgraph gets the nodes but no '
                'edges/interactions (nothing dangling, so not a violation of C12)'.format(len(consuming), uses))

    # ------------------------------------------------------------ MPT: insertion validates
    addi = M('add_interaction')
    atoms_param = param_names(addi)[2]
    vloops = [n for n in addi.body if isinstance(n, ast.For) and u(n.iter) == atoms_param]
    app = [s for s in addi.body if isinstance(s, ast.Expr) and call_attr(s.value) == 'append']
    ok = len(vloops) == 1 and len(app) == 1 and addi.body.index(vloops[0]) < addi.body.index(app[0])
    if ok:
        rz = stmts_with_env(addi, lambda s_: isinstance(s_, ast.Raise), stmts=vloops[0].body)
        want_atom = ('not', ('atom', ('In', u(vloops[0].target), 'self')))
        ok = len(rz) == 1 and flow.equivalent(rz[0][1], want_atom)[0] and not any(isinstance(n, (ast.Break, ast.Return)) for n in ast.walk(vloops[0])) \
            and 'tuple({})'.format(atoms_param) in u(app[0]) and 'self.interactions[' in u(app[0])
    ck.ob('MPT-validate', mod.loc(addi), ok, 'add_interaction tests every atom of the new interaction for membership (raise on failure) before the single append',
          key='MPT-validate|every-atom')
    aor = M('add_or_replace_interaction')
    # who may insert into self.interactions inside class Molecule
    nsites = 0
    for item in cls.body:
        if not isinstance(item, ast.FunctionDef):
            continue
        for st, cond, e in stmts_with_env(item, lambda s: True):
            site = None
            if isinstance(st, ast.Expr) and isinstance(st.value, ast.Call) and call_attr(st.value) in ('append', 'extend', 'insert') and 'interactions' in u(flow.subst(st.value.func.value, e)):
                site = 'append'
            elif isinstance(st, ast.Assign) and isinstance(st.targets[0], ast.Subscript) and 'interactions[' in u(flow.subst(st.targets[0].value, e)) + '[':
                if 'interactions' in u(flow.subst(st.targets[0].value, e)):
                    site = 'item-store'
            elif isinstance(st, ast.AugAssign) and 'interactions' in u(st.target):
                site = 'augmented'
            if site is None:
                continue
            nsites += 1
            where = mod.loc(st)
            if item.name == 'add_interaction' and site == 'append':
                ok, why = True, 'validated insertion point (checked above)'
            elif item.name == 'add_or_replace_interaction' and site == 'item-store':
                atoms = [' '.join(map(str, k)) for k in flow.atoms_of(cond)]
                ok = any(a.startswith('Eq') and 'interaction.atoms' in a and 'tuple(atoms)' in a for a in atoms) and \
                    flow.implies(cond, ('atom', [k for k in flow.atoms_of(cond) if k[0] == 'Eq' and 'interaction.atoms' in ' '.join(map(str, k))][0]))[0]
                why = 'replaces an existing entry with identical atoms'
            elif item.name == 'subgraph' and site == 'append':
                kept = _kept_names(item)
                kept = kept | {'{}({})'.format(f_, n_) for n_ in kept for f_ in ('set', 'frozenset', 'list', 'tuple')}     # the condition is read with locals substituted
                kept = kept | {'set({})'.format(n_) for n_ in kept}
                ok = any('all(' in ' '.join(map(str, k)) and any('in {}'.format(nm) in ' '.join(map(str, k)) for nm in kept) for k in flow.atoms_of(cond)) and \
                    not u(st.value.func.value).startswith('self.')
                why = 'copies an interaction into the subgraph only when all its atoms are kept'
            else:
                ok, why = False, 'inserts into the interaction table without validation'
            ck.ob('WMC-insert', where, ok, 'Molecule.{}: `{}` -- {}'.format(item.name, u(st)[:70], why), key='WMC-insert|{}|{}'.format(item.name, site))
    ck.expect_count('WMC-insert sites in class Molecule', nsites, 3)
    deleg = calls_with_env(aor, lambda c: call_attr(c) == 'add_interaction')
    ck.ob('MPT-validate', mod.loc(aor), len(deleg) == 1 and [u(a) for a in deleg[0][0].args[:2]] == [param_names(aor)[1], param_names(aor)[2]],
          'add_or_replace_interaction delegates a new interaction to add_interaction (which validates)', key='MPT-validate|delegate')

    # ------------------------------------------------------------ ALIAS: copy / subgraph independence
    nc = [n for n in walk_local(sg) if isinstance(n, (ast.ListComp, ast.GeneratorExp)) and 'self.nodes[' in u(n)]
    ok = len(nc) == 1 and isinstance(nc[0].elt, ast.Tuple) and isinstance(nc[0].elt.elts[1], ast.Call) and \
        (call_name(nc[0].elt.elts[1]) in COPIERS or call_attr(nc[0].elt.elts[1]) == 'copy')
    ck.ob('ALIAS-copy', mod.loc(sg), ok, 'subgraph inserts a copy of every node attribute dict', key='ALIAS-copy|subgraph-nodes')
    for attr in ('meta', 'citations'):
        st = [s for s in walk_local(sg) if isinstance(s, ast.Assign) and u(s.targets[0]) == 'subgraph.' + attr]
        ok = len(st) == 1 and isinstance(st[0].value, ast.Call) and (call_name(st[0].value) in COPIERS or call_attr(st[0].value) == 'copy')
        ck.ob('ALIAS-copy', mod.loc(sg), ok, 'subgraph.{} is a copy, not the source\'s object (`{}`)'.format(attr, u(st[0]) if st else '?'),
              key='ALIAS-copy|subgraph-' + attr)
    st = [s for s in walk_local(sg) if isinstance(s, ast.Assign) and u(s.targets[0]) == 'subgraph']
    ck.ob('ALIAS-copy', mod.loc(sg), len(st) == 1 and u(st[0].value) == 'self.__class__()' and not any(
        isinstance(s, ast.Assign) and u(s.targets[0]) == 'subgraph.interactions' for s in walk_local(sg)),
        'the subgraph is a fresh object with its own interaction table', key='ALIAS-copy|subgraph-fresh')
    cp = M('copy')
    ok = any(isinstance(s, ast.Assign) and u(s.value) in ('self.subgraph(self.nodes)', 'self.subgraph(self.nodes())', 'self.subgraph(self)') for s in cp.body)
    for attr in ('citations', 'log_entries'):
        ok = ok and any(isinstance(s, ast.Assign) and u(s.targets[0]) == 'new.' + attr and isinstance(s.value, ast.Call)
                        and (call_name(s.value) in COPIERS or call_attr(s.value) == 'copy') for s in cp.body)
    ck.ob('ALIAS-copy', mod.loc(cp), ok, 'copy() is subgraph(all nodes) with copied citations and log entries', key='ALIAS-copy|copy')
    # log_entries is level -> message -> list of maps: the editing operations append to the inner lists in place, so only a deep copy separates the copy from its source
    for fn_, recv_ in ((cp, 'new'), (tm, 'mol')):
        deep = [s for s in walk_local(fn_) if isinstance(s, ast.Assign) and u(s.targets[0]) == recv_ + '.log_entries']
        ck.ob('ALIAS-copy', mod.loc(fn_), len(deep) == 1 and isinstance(deep[0].value, ast.Call) and call_name(deep[0].value) in ('copy.deepcopy', 'deepcopy'),
              '{}: the nested log-entry table is deep-copied (`{}`)'.format(fn_.name, u(deep[0].value)[:60] if deep else 'no store'), key='ALIAS-copy|log-entries-deep|' + fn_.name)
    tmc = [s for s in walk_local(tm) if isinstance(s, ast.Assign) and u(s.targets[0]) == 'mol.citations']
    ck.ob('ALIAS-copy', mod.loc(tm), len(tmc) == 1 and isinstance(tmc[0].value, ast.Call) and call_attr(tmc[0].value) == 'copy',
          'Block.to_molecule gives the molecule its own citation set', key='ALIAS-copy|to_molecule-citations')
    to_molecule_fresh_atom(ck, 'ALIAS-copy')
    # edges_between used by subgraph: edges only among kept nodes
    eb = [c for c in walk_local(sg) if isinstance(c, ast.Call) and call_attr(c) == 'edges_between']
    ck.ob('PROV-subgraph', mod.loc(sg), len(eb) == 1 and len(eb[0].args) >= 2 and all(u(a) in _kept_names(sg) for a in eb[0].args[:2]), 'subgraph copies the edges among the kept nodes only',
          key='PROV-subgraph|edges')
    # ------------------------------------------------------------ callers that merge whole molecules keep every operand
    mam = idx.mod('vermouth/processors/merge_all_molecules.py')
    rs = mam.func('MergeAllMolecules.run_system')
    ck.analysed(mam, rs)
    lp = [n for n in rs.body if isinstance(n, ast.For)]
    ok = len(lp) == 1 and u(lp[0].iter) == 'system.molecules[1:]' and len(lp[0].body) == 1 and u(lp[0].body[0]) == 'molecule.merge_molecule({})'.format(u(lp[0].target)) \
        and u(single_def(rs, 'molecule')) == 'system.molecules[0]' and any(isinstance(s_, ast.Assign) and u(s_) == 'system.molecules = [molecule]' for s_ in rs.body)
    ck.ob('PROV-merge-callers', mam.loc(rs), ok, 'MergeAllMolecules merges every further molecule of the system into the first one, unconditionally', key='PROV-merge-callers|merge_all')
    mcm = idx.mod('vermouth/processors/merge_chains.py')
    mc = mcm.func('merge_chains')
    ck.analysed(mcm, mc)
    lp = [n for n in mc.body if isinstance(n, ast.For) and u(n.iter) == 'system.molecules' and any(isinstance(c, ast.Call) and call_attr(c) == 'merge_molecule' for c in ast.walk(n))]
    ok = len(lp) == 1
    if ok:
        mcalls = stmts_with_env(mc, lambda s_: isinstance(s_, ast.Expr) and call_attr(s_.value) == 'merge_molecule', stmts=lp[0].body)
        keep = stmts_with_env(mc, lambda s_: isinstance(s_, ast.Expr) and call_attr(s_.value) == 'append' and u(s_.value.args[0]) == u(lp[0].target), stmts=lp[0].body)
        ok = len(mcalls) == 1 and len(keep) == 1 and flow.equivalent(mcalls[0][1], flow.NOT(keep[0][1]))[0] and u(mcalls[0][0].value.args[0]) == u(lp[0].target) \
            and u(lp[0].iter) == 'system.molecules'
    ck.ob('PROV-merge-callers', mcm.loc(mc), ok, 'merge_chains either merges a molecule (in system order) or keeps it: none is dropped', key='PROV-merge-callers|merge_chains')
    # the merged molecule takes the place of the first molecule merged into it -- once: "has something been merged yet" is a fact about the loop, not about
    # the receiver being non-empty (an atom-less molecule merges into it and leaves it empty)
    if len(lp) == 1:
        recv_apps = stmts_with_env(mc, lambda s_: isinstance(s_, ast.Expr) and call_attr(s_.value) == 'append' and u(s_.value.args[0]) != u(lp[0].target)
                                   and 'molecules' in u(s_.value.func.value), stmts=lp[0].body)
        bad_ = []
        for s_, c_, _e in recv_apps:
            for k in flow.atoms_of(c_):
                if k[0] == 'truth' and k[1] == u(s_.value.args[0]):
                    bad_.append(k[1])
                elif k[0] in ('Eq', 'Gt', 'GtE') and 'len({})'.format(u(s_.value.args[0])) in k[1:]:
                    bad_.append('len')
        ck.ob('PROV-merge-callers', mcm.loc(mc), len(recv_apps) == 1 and not bad_,
              'the merged molecule is put into the system once, at the first merge, and that "first" is not decided by the merged molecule being empty ({} site(s){})'.format(
                  len(recv_apps), ', decided by emptiness' if bad_ else ''), key='PROV-merge-callers|merge_chains|once')
    sysm = idx.mod('vermouth/system.py')
    cp2 = sysm.func('System.copy')
    ck.ob('ALIAS-copy', sysm.loc(cp2), 'new_system.molecules = [mol.copy() for mol in self.molecules]' in u(cp2), 'System.copy copies every molecule', key='ALIAS-copy|system')
    ri = M('remove_interaction')
    dl = [s_ for s_ in ri.body if isinstance(s_, ast.Delete)]
    fl = [n for n in ri.body if isinstance(n, ast.For)]
    ok = len(fl) == 1 and fl[0].orelse and isinstance(fl[0].orelse[-1], ast.Raise) and len(dl) == 1 and u(dl[0]) == 'del self.interactions[type_][idx]'
    if ok:
        br = stmts_with_env(ri, lambda s_: isinstance(s_, ast.Break), stmts=fl[0].body)
        names = {}
        for k in flow.atoms_of(br[0][1]):
            if k[0] == 'Eq' and set(k[1:]) == {'interaction.atoms', 'atoms'}:
                names[k] = 'ATOMS'
            elif k[0] == 'Eq' and "get('version', 0)" in ' '.join(map(str, k)) and 'version' in k[1:]:
                names[k] = 'VERSION'
        ok = flow.equivalent(flow.rename(br[0][1], names), flow.parse_formula('ATOMS and VERSION'))[0] and len(names) == 2
    ck.ob('PAIR-removal', mod.loc(ri), ok, 'remove_interaction deletes exactly the entry with those atoms and that version, and raises when there is none', key='PAIR-removal|remove_interaction')
    from . import shared
    shared.truthy_zero(ck, [MOL, 'vermouth/system.py', 'vermouth/processors/merge_chains.py', 'vermouth/processors/merge_all_molecules.py'])
    ck.assume('arbitrary interleavings beyond these invariants are not decided; node keys of a receiving molecule are assumed comparable (ints)')


def to_molecule_fresh_atom(ck, rule):
    """Block.to_molecule builds every atom from its *own* copy of the defaults, made inside the loop over the atoms: one dictionary updated atom after atom hands
    an attribute the previous atom had (a charge, a `replace` rule) on to the next atom that lacks it.  Shared with C13 (the blocks of a .mapping file are made
    through to_molecule)."""
    mod = ck.index.mod(MOL)
    tm = ck.need(method(mod.cls('Block'), 'to_molecule'), 'Block.to_molecule vanished')
    ck.analysed(mod, tm)
    na = [s for s in walk_local(tm) if isinstance(s, ast.Assign) and u(s.targets[0]) == 'new_atom']
    def fresh(v):
        # x.copy() / dict(x) / copy.copy(x) / {**x}: a new dictionary per evaluation
        return (isinstance(v, ast.Call) and (call_attr(v) == 'copy' or call_name(v) in ('dict', 'copy.copy', 'copy.deepcopy'))) or \
            (isinstance(v, ast.Dict) and any(k is None for k in v.keys))
    ok = len(na) == 1 and fresh(na[0].value)
    if ok:
        loop = mod.enclosing(na[0], ast.For)
        adds = [c for c in walk_local(tm) if isinstance(c, ast.Call) and call_attr(c) == 'add_node']
        ok = loop is not None and u(loop.iter).startswith('enumerate(self') and len(adds) == 1 and any(adds[0] is x for x in ast.walk(loop)) and unconditional_in(tm, loop.body, na[0])
    ck.ob(rule, mod.loc(tm), ok, 'Block.to_molecule builds each atom from a copy of the defaults made for that atom (inside the loop over the atoms)', key=rule + '|to_molecule-atoms')


def _kept_names(sg):
    """The names under which Molecule.subgraph holds "the nodes that are kept": the parameter itself and every local bound to list / tuple / set / frozenset of it."""
    param = param_names(sg)[1]
    names = {param}
    changed = True
    while changed:
        changed = False
        for st in walk_local(sg):
            if isinstance(st, ast.Assign) and len(st.targets) == 1 and isinstance(st.targets[0], ast.Name) and isinstance(st.value, ast.Call) and \
                    call_name(st.value) in ('list', 'tuple', 'set', 'frozenset') and len(st.value.args) == 1 and u(st.value.args[0]) in names and st.targets[0].id not in names:
                names.add(st.targets[0].id)
                changed = True
    return names
