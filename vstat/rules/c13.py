"""C13 -- force-field / topology / mapping files load to exactly what they declare."""
import ast

from ..index import AnalysisError, u, call_name, call_attr, walk_local, base_name
from .. import flow, interp
from ..fold import try_fold
from ..tables import registrations, class_literal, self_attr_store
from ..util import stmts_with_env, calls_with_env, kwarg, assignments_to, single_def

FF = 'vermouth/ffinput.py'
ITP = 'vermouth/gmx/itp_read.py'
MAP = 'vermouth/map_parser.py'
PU = 'vermouth/parser_utils.py'

CONTEXT_OF = {'moleculetype': {'block'}, 'link': {'link', 'molmeta'}, 'modification': {'modification'}}


from .common import method, raise_conditions, guarded_by_raise, has_atom, raise_condition_is, atom_text, unconditional_in
from . import shared


def run(ck):
    idx = ck.index
    ff = idx.mod(FF)
    itp = idx.mod(ITP)
    mp = idx.mod(MAP)
    pu = idx.mod(PU)
    ffd = ff.cls('FFDirector')
    itpd = itp.cls('ITPDirector')
    mapd = mp.cls('MappingDirector')
    slp = pu.cls('SectionLineParser')

    # ------------------------------------------------------------- TAB: dispatch tables
    regs = registrations(ffd)
    iregs = registrations(itpd)
    mregs = registrations(mapd)
    ck.expect_count('TAB registrations FFDirector', len(regs), 100)
    ck.expect_count('TAB registrations ITPDirector', len(iregs), 20)
    ck.expect_count('TAB registrations MappingDirector', len(mregs), 20)
    ck.extra['registrations'] = {'FFDirector': len(regs), 'ITPDirector': len(iregs), 'MappingDirector': len(mregs)}
    # (0) the header parsers fold the case of section names
    for module, cls, name in ((ff, ffd, 'parse_header'), (itp, itpd, 'parse_header'), (pu, slp, 'parse_header')):
        m = ck.need(method(cls, name), '{}.{} vanished'.format(cls.name, name))
        ck.analysed(module, m)
        folds = [c for c in ast.walk(m) if isinstance(c, ast.Call) and call_attr(c) in ('casefold', 'lower')]
        ck.ob('TAB-casefold', module.loc(m), bool(folds), '{}.{} folds the case of the header before the table lookup'.format(cls.name, name),
              key='TAB-casefold|{}|parse_header'.format(cls.name))
    seen = {}
    for cls, rr, module in ((ffd, regs, ff), (itpd, iregs, itp), (mapd, mregs, mp)):
        for r in rr:
            where = '{}:{}'.format(module.rel, r.lineno)
            names_ok = all(isinstance(n, str) for n in r.names)
            ck.ob('TAB-names', where, names_ok and len(r.names) >= 1, '{}: registration {} has literal section names'.format(cls.name, r.names),
                  key='TAB-names|{}|{}'.format(cls.name, '/'.join(map(str, r.names))))
            if not names_ok:
                continue
            # (c) reachable after case folding
            ck.ob('TAB-casefold', where, all(n == n.casefold() for n in r.names),
                  '{}: section {} is its own case-fold, so a header can reach it'.format(cls.name, list(r.names)),
                  key='TAB-casefold|{}|{}'.format(cls.name, '/'.join(r.names)))
            # duplicates (a later registration silently replaces an earlier one)
            k = (cls.name, r.names)
            ck.ob('TAB-unique', where, k not in seen, '{}: section {} registered once (handler {})'.format(cls.name, list(r.names), r.method),
                  key='TAB-unique|{}|{}'.format(cls.name, '/'.join(r.names)))
            seen[k] = r
    # (a) context type belongs to the top-level section
    for r in regs:
        if 'context_type' in r.kwargs and r.names and r.names[0] in CONTEXT_OF:
            ck.ob('TAB-context', '{}:{}'.format(FF, r.lineno), r.kwargs['context_type'] in CONTEXT_OF[r.names[0]],
                  'section {} is parsed into context {!r} (top-level section allows {})'.format(
                      list(r.names), r.kwargs['context_type'], sorted(CONTEXT_OF[r.names[0]])),
                  key='TAB-context|' + '/'.join(r.names))
    # get_context table
    gc = ck.need(method(ffd, 'get_context'), 'FFDirector.get_context vanished')
    table = [n for n in ast.walk(gc) if isinstance(n, ast.Dict)]
    ck.need(table, 'FFDirector.get_context: context table not found')
    want = {'block': 'self.current_block', 'link': 'self.current_link', 'molmeta': 'self.current_link',
            'modification': 'self.current_modification'}
    got = {try_fold(k): u(v) for k, v in zip(table[0].keys, table[0].values)}
    ck.ob('TAB-context', ff.loc(gc), got == want, 'get_context maps {} '.format(got), key='TAB-context|get_context')
    # (b) same interaction names in every context
    base_handlers = set()
    for name, fn in ((i.name, i) for i in ffd.body if isinstance(i, ast.FunctionDef)):
        if any(call_name(c) == '_base_parser' for c in ast.walk(fn) if isinstance(c, ast.Call)):
            base_handlers.add(name)
    ck.need(base_handlers, 'no FFDirector handler calls _base_parser')
    groups = {}
    for r in regs:
        if r.method in base_handlers and len(r.names) == 2 and all(isinstance(n, str) for n in r.names):
            neg = r.names[1].startswith('!')
            groups.setdefault((r.names[0], neg), set()).add(r.names[1].lstrip('!'))
    ref = groups.get(('moleculetype', False), set())
    ck.expect_count('TAB interaction names', len(ref), 15)
    for (top, neg), names in sorted(groups.items()):
        ck.ob('TAB-interaction-sets', FF, names == ref,
              'interaction sections under [{}]{} = those under [moleculetype] (difference: {})'.format(
                  top, ' (removal)' if neg else '', sorted(names ^ ref)),
              key='TAB-interaction-sets|{}|{}'.format(top, neg))
        if neg:
            ck.ob('TAB-interaction-sets', FF, top == 'link', 'removal sections exist only under [link] (found under [{}])'.format(top),
                  key='TAB-removal-top|' + top)
    ck.ob('TAB-interaction-sets', FF, {k[0] for k in groups} == {'moleculetype', 'link', 'modification'} and ('link', True) in groups,
          'interaction sections are registered for moleculetype, link, !link and modification', key='TAB-interaction-sets|tops')
    # (c') arity table keys are registered names
    natoms = class_literal(ffd, 'interactions_natoms')
    ck.need(isinstance(natoms, ast.Dict), 'FFDirector.interactions_natoms vanished')
    nat = {try_fold(k): try_fold(v) for k, v in zip(natoms.keys, natoms.values)}
    for name, n in sorted(nat.items(), key=str):
        ck.ob('TAB-arity', ff.loc(natoms), name in ref and isinstance(n, int) and n > 0,
              'fixed arity {!r}: {} names a registered interaction section'.format(name, n), key='TAB-arity|' + str(name))
    # the arity is looked up with the stripped section name
    # ITP: every registered interaction has an atom-index rule
    aidx = class_literal(itpd, 'atom_idxs')
    ck.need(isinstance(aidx, ast.Dict), 'ITPDirector.atom_idxs vanished')
    akeys = {try_fold(k) for k in aidx.keys}
    ITP_EXC = {'impropers': 'not a gromacs directive; with no index rule the first line raises (TypeError wrapped into IOError): rejected, not misloaded'}
    for r in iregs:
        if r.method == '_interactions' and len(r.names) == 2:
            ok = r.names[1] in akeys or r.names[1] in ITP_EXC
            ck.ob('TAB-arity', '{}:{}'.format(ITP, r.lineno), ok,
                  'ITP section {!r} has an atom-index rule{}'.format(r.names[1], ' (named exception: ' + ITP_EXC[r.names[1]] + ')' if r.names[1] in ITP_EXC and r.names[1] not in akeys else ''),
                  key='TAB-arity|itp|' + r.names[1])
    # (d) header actions
    for cls, module, rr, tops in ((ffd, ff, regs, {('moleculetype',), ('link',), ('modification',)}), (itpd, itp, iregs, {('moleculetype',)})):
        ha = self_attr_store(cls, 'header_actions')
        ck.need(isinstance(ha, ast.Dict), '{}.header_actions vanished'.format(cls.name))
        keys = {try_fold(k) for k in ha.keys}
        registered = {r.names for r in rr}
        ck.ob('TAB-header-actions', module.loc(ha), keys == tops and keys <= registered,
              '{}.header_actions {} creates a fresh context for every context-bearing top-level section {}'.format(cls.name, sorted(keys), sorted(tops)),
              key='TAB-header-actions|' + cls.name)
        new = {u(v) for v in ha.values}
        for v in ha.values:
            m = method(cls, u(v).split('.')[-1])
            ok = m is not None and any(isinstance(s, ast.Assign) and u(s.targets[0]).startswith('self.current_') and isinstance(s.value, ast.Call)
                                       for s in m.body)
            ck.ob('TAB-header-actions', module.loc(ha), ok, 'header action {} binds a new object to self.current_*'.format(u(v)),
                  key='TAB-header-actions|{}|{}'.format(cls.name, u(v)))
    # (f) handlers that serve '!'-sections strip the marker and request deletion
    for name in sorted(base_handlers):
        if not any(r.method == name and len(r.names) == 2 and isinstance(r.names[1], str) and r.names[1].startswith('!') for r in regs):
            continue
        fn = method(ffd, name)
        ck.analysed(ff, fn)
        bcalls = calls_with_env(fn, lambda c: call_name(c) == '_base_parser')
        ck.need(bcalls, 'FFDirector.{}: call to _base_parser not found'.format(name))
        true_defs = stmts_with_env(fn, lambda s: isinstance(s, ast.Assign) and u(s.targets[0]) == 'delete' and try_fold(s.value) is True)
        ok_true = any(any("startswith('!')" in str(a) or 'startswith("!")' in str(a) for a in map(lambda k: ' '.join(map(str, k)), flow.atoms_of(c)))
                      for _s, c, _e in true_defs)
        for call, st, cond, env in bcalls:
            d = kwarg(call, 'delete')
            sec = kwarg(call, 'section')
            sec_defs = assignments_to(fn, u(sec)) if isinstance(sec, ast.Name) else []
            strips = any(isinstance(v, ast.Subscript) and isinstance(v.slice, ast.Slice) and try_fold(v.slice.lower) == 1 for v in sec_defs)
            ck.ob('SIB-removal-marker', ff.loc(call), isinstance(d, ast.Name) and d.id == 'delete' and ok_true and strips,
                  'FFDirector.{} serves !-sections: passes delete=True under startswith("!") and the section name without the marker'.format(name),
                  key='SIB-removal-marker|' + name)

    # ------------------------------------------------------------- IDEM: registrations at section end
    for cls, module in ((ffd, ff), (itpd, itp)):
        fs = ck.need(method(cls, 'finalize_section'), '{}.finalize_section vanished'.format(cls.name))
        ck.analysed(module, fs)
        nreg = 0
        for node in walk_local(fs):
            if isinstance(node, ast.Call) and call_attr(node) == 'append' and node.args and u(node.args[0]).startswith('self.current_'):
                nreg += 1
                obj = u(node.args[0])
                st = module.stmt_of(node)
                found = stmts_with_env(fs, lambda s, st=st: s is st)
                cond = found[0][1]
                # idempotent when guarded by identity/membership with the registry, or followed by a reset of the attribute
                target = u(node.func.value)
                aliases = {target} | {k for k, v in found[0][2].items() if u(v) == target}
                atoms = [' '.join(map(str, a)) for a in flow.atoms_of(cond)]
                guard = any((a.startswith('Is ') or a.startswith('In ') or a.startswith('Eq ')) and obj in a
                            and any(al in a for al in aliases | {t.split('.')[-1] for t in aliases}) for a in atoms)
                body = module.enclosing(st, (ast.If, ast.FunctionDef)).body
                pos = [i for i, s in enumerate(body) if s is st]
                reset = bool(pos) and any(isinstance(s, ast.Assign) and u(s.targets[0]) == obj and try_fold(s.value, default=0) is None
                                          for s in body[pos[0] + 1:])
                ck.ob('IDEM-register', module.loc(node), guard or reset,
                      '{}.finalize_section can run several times on the same object; `{}` is guarded by identity/membership ({}) or followed by a reset ({})'.format(
                          cls.name, u(node)[:60], guard, reset),
                      key='IDEM-register|{}|{}'.format(cls.name, obj))
            elif isinstance(node, ast.Assign) and isinstance(node.targets[0], ast.Subscript) and u(node.value).startswith('self.current_'):
                nreg += 1
                ck.ob('IDEM-register', module.loc(node), u(node.targets[0].slice) == u(node.value) + '.name',
                      '{}.finalize_section: keyed store `{}` is idempotent and keyed by the object\'s own name'.format(cls.name, u(node)[:80]),
                      key='IDEM-register|{}|{}'.format(cls.name, u(node.value)))
        ck.expect_count('IDEM registrations in {}.finalize_section'.format(cls.name), nreg, 3 if cls is ffd else 1)
    # who calls finalize_section: the header parsers and finalize (end of file)
    fin = ck.need(method(slp, 'finalize'), 'SectionLineParser.finalize vanished')
    ck.ob('MPT-finalize', pu.loc(fin), any(call_attr(c) == 'finalize_section' for c in ast.walk(fin) if isinstance(c, ast.Call)),
          'end of file finalises the last section', key='MPT-finalize|eof')
    for cls, module in ((ffd, ff), (itpd, itp)):
        ph = method(cls, 'parse_header')
        calls = calls_with_env(ph, lambda c: call_attr(c) == 'finalize_section')
        acts = calls_with_env(ph, lambda c: isinstance(c.func, ast.Name) and c.func.id == 'action')
        ok = len(calls) == 1 and len(acts) == 1 and calls[0][1].lineno < acts[0][1].lineno
        ck.ob('MPT-finalize', module.loc(ph), ok,
              '{}.parse_header registers the finished context before the header action replaces it'.format(cls.name),
              key='MPT-finalize|order|' + cls.name)
    # mapping director: finalize_section returns the mapping and resets the builder
    mfs = ck.need(method(mapd, 'finalize_section'), 'MappingDirector.finalize_section vanished')
    ck.analysed(mp, mfs)
    rets = [s for s in walk_local(mfs) if isinstance(s, ast.Return) and s.value is not None and try_fold(s.value, default=0) is not None]
    ok = False
    for r in rets:
        body = mp.enclosing(r, (ast.If, ast.FunctionDef)).body
        ok = ok or any(isinstance(s, ast.Expr) and call_attr(s.value) == '_reset_mapping' for s in body[:body.index(r)])
    ck.ob('IDEM-register', mp.loc(mfs), ok and len(rets) == 1, 'MappingDirector.finalize_section returns the finished mapping once and resets the builder first',
          key='IDEM-register|MappingDirector')

    # ------------------------------------------------------------- MPT: rejections dominate registrations
    ps = ck.need(method(slp, 'parse_section'), 'SectionLineParser.parse_section vanished')
    guarded_by_raise(ck, pu, ps, lambda s: any(isinstance(n, ast.Subscript) and 'METH_DICT' in u(n.value) for n in ast.walk(s))
                     and isinstance(s, ast.Assign), has_atom('In', 'METH_DICT'), 'unknown section', 'MPT-reject|unknown-section')
    tb = ff.func('_treat_block_interaction_atoms')
    guarded_by_raise(ck, ff, tb, lambda s: isinstance(s, ast.Expr) and call_attr(s.value) == 'append',
                     has_atom('In', 'context'), 'reference to an undefined block atom (by name)', 'MPT-reject|ff-undefined-name',)
    # numeric references: the lookup sits in a try whose IndexError handler raises
    for module, fn, label in ((ff, tb, 'ff'), (itp, method(itpd, '_treat_block_interaction_atoms'), 'itp')):
        ck.need(fn is not None, 'ITPDirector._treat_block_interaction_atoms vanished')
        ck.analysed(module, fn)
        tries = [t for t in walk_local(fn) if isinstance(t, ast.Try)]
        ok = False
        for t in tries:
            looks = [n for s in t.body for n in ast.walk(s) if isinstance(n, ast.Subscript) and isinstance(n.ctx, ast.Load)]
            handles = [h for h in t.handlers if h.type is not None and 'IndexError' in u(h.type)]
            ok = ok or (bool(looks) and bool(handles) and all(isinstance(h.body[-1], ast.Raise) for h in handles))
        ck.ob('MPT-reject', module.loc(fn), ok, '{}: an out-of-range numeric atom reference raises (IndexError handler re-raises as IOError)'.format(label),
              key='MPT-reject|{}-index-range'.format(label))
    guarded_by_raise(ck, ff, ff.func('_parse_block_atom'), lambda s: isinstance(s, ast.Expr) and call_attr(s.value) in ('add_atom', 'add_node'),
                     has_atom('In', 'name', 'context'), 'duplicate block atom', 'MPT-reject|ff-duplicate-atom')
    ipa = ck.need(method(itpd, '_parse_block_atom'), 'ITPDirector._parse_block_atom vanished')
    guarded_by_raise(ck, itp, ipa, lambda s: isinstance(s, ast.Expr) and call_attr(s.value) in ('add_atom', 'add_node'),
                     has_atom('In', 'context'), 'duplicate block atom (ITP)', 'MPT-reject|itp-duplicate-atom')
    tok = pu.func('_tokenize')
    for sign, frag in (('closing bracket missing', ('Gt', 'brackets', '0')), ('opening bracket missing', ('Gt', '0', 'brackets'))):
        guarded_by_raise(ck, pu, tok, lambda s: isinstance(s, ast.Expr) and call_attr(s.value) == 'append' and 'token' in u(s),
                         lambda k, frag=frag: tuple(k) == frag, 'unbalanced braces: ' + sign, 'MPT-reject|braces|' + sign.split()[0])
    tap = ff.func('_treat_atom_prefix')
    guarded_by_raise(ck, ff, tap, lambda s: isinstance(s, ast.Return), has_atom('Eq', 'order'), 'prefix/order contradiction',
                     'MPT-reject|prefix-order')
    bp = ff.func('_base_parser')
    guarded_by_raise(ck, ff, bp, lambda s: isinstance(s, ast.Assign) and isinstance(s.targets[0], ast.Subscript) and
                     ('interactions[section]' in u(s.targets[0])), has_atom('Eq', 'len(', 'natoms'), 'wrong atom count', 'MPT-reject|atom-count')
    guarded_by_raise(ck, ff, bp, lambda s: isinstance(s, ast.Assign) and 'removed_interactions[section]' in u(s.targets[0]),
                     has_atom('Eq', 'context_type', 'link'), 'removal outside a link', 'MPT-reject|removal-outside-link')
    guarded_by_raise(ck, ff, ff.func('_parse_edges'), lambda s: isinstance(s, ast.Expr) and 'non_edges.append' in u(s),
                     has_atom('Eq', 'context_type', 'link'), 'non-edges outside a link', 'MPT-reject|non-edges')
    guarded_by_raise(ck, ff, ff.func('_parse_patterns'), lambda s: isinstance(s, ast.Expr) and 'patterns.append' in u(s),
                     has_atom('Eq', 'context_type', 'link'), 'patterns outside a link', 'MPT-reject|patterns')
    guarded_by_raise(ck, ff, ff.func('_parse_features'), lambda s: isinstance(s, ast.Expr) and 'features.update' in u(s),
                     has_atom('Eq', 'context_type', 'link'), 'features outside a link', 'MPT-reject|features')
    inv = ck.need(method(ffd, '_invalid_out_of_link'), 'FFDirector._invalid_out_of_link vanished')
    ck.ob('MPT-reject', ff.loc(inv), len([s for s in inv.body if not isinstance(s, ast.Expr) or not isinstance(s.value, ast.Constant)]) == 1
          and isinstance(inv.body[-1], ast.Raise), 'sections registered as invalid outside links raise unconditionally', key='MPT-reject|invalid-out-of-link')
    # exact rejection conditions (decision tables over named atoms)
    def cls_prefix(k):
        t = atom_text(k)
        if k[0] == 'Is' and set(k[1:]) == {'None', 'order_from_attributes'}:
            return 'ANONE'
        if k[0] == 'Is' and set(k[1:]) == {'None', 'prefix_from_prefix'}:
            return 'PNONE'
        if k[0] == 'Eq' and set(k[1:]) == {'order_from_attributes', 'order_from_prefix'}:
            return 'SAME'
        return None
    raise_condition_is(ck, ff, tap, lambda st, c: any(k[0] == 'Eq' and 'order_from' in atom_text(k) for k in flow.atoms_of(c)) or 'not consistent' in u(st) or
                       any('order_from_attributes' in atom_text(k) for k in flow.atoms_of(c)),
                       cls_prefix, 'not ANONE and not PNONE and not SAME', 'prefix/order contradiction (an explicit order, 0 included, against a prefix)',
                       'DT-reject|prefix-order')

    def cls_count(k):
        if k[0] == 'Is' and set(k[1:]) == {'None', 'natoms'}:
            return 'NNONE'
        if k[0] == 'Eq' and set(k[1:]) == {'natoms', 'len(_get_atoms(tokens, natoms))'} or (k[0] == 'Eq' and set(k[1:]) == {'natoms', 'len(atoms)'}):
            return 'EQ'
        if k[0] == 'Gt' and 'delimiter' in atom_text(k) or (k[0] == 'Gt' and "tokens.count('--')" in atom_text(k)):
            return 'MANYDELIM'
        if k[0] in ('Eq', 'truth') and ('context_type' in atom_text(k) or atom_text(k) == 'truth delete'):
            return 'LINKDEL' if k[0] == 'Eq' else 'DEL'
        return None
    raise_condition_is(ck, ff, bp, lambda st, c: 'were expected' in u(st), cls_count,
                       'not (not LINKDEL and DEL) and not MANYDELIM and not NNONE and not EQ', 'wrong atom count for a fixed-arity interaction', 'DT-reject|atom-count')
    raise_condition_is(ck, ff, ff.func('_parse_block_atom'), lambda st, c: any(k[0] == 'In' and k[2] == 'context' for k in flow.atoms_of(c)),
                       lambda k: 'DUP' if (k[0] == 'In' and k[2] == 'context' and k[1] == 'name') else None, 'DUP', 'duplicate block atom', 'DT-reject|ff-duplicate-atom')
    raise_condition_is(ck, pu, ps, lambda st, c: 'section is unknown' in u(st),
                       lambda k: 'KNOWN' if (k[0] == 'In' and k[1] == 'tuple(self.section)' and k[2] == 'self.METH_DICT') else None, 'not KNOWN', 'unknown section', 'DT-reject|unknown-section')
    # ITP: numeric references are resolved against the atoms of the current block only
    can = [n for n in ast.walk(itpd) if isinstance(n, (ast.Assign, ast.AugAssign)) and any(u(t) == 'self.current_atom_names' for t in
                                                                                         (n.targets if isinstance(n, ast.Assign) else [n.target]))]
    muts = [c for c in ast.walk(itpd) if isinstance(c, ast.Call) and isinstance(c.func, ast.Attribute) and u(c.func.value) == 'self.current_atom_names'
            and c.func.attr in ('append', 'extend', 'insert', 'pop', 'remove')]
    ok = bool(can) and not muts and all(isinstance(n, ast.Assign) and u(n.value) in ('list(self.current_block.nodes)', '[]') for n in can) and \
        any(u(n.value) == 'list(self.current_block.nodes)' for n in can)
    ck.ob('PROV-itp-index-table', itp.loc(itpd), ok,
          'the table that turns a 1-based atom index of an .itp interaction into an atom is always rebuilt from the atoms of the current block '
          '({} assignment(s), {} in-place mutation(s))'.format(len(can), len(muts)), key='PROV-itp-index-table')
    # per-line metadata overrides the section-wide #meta
    metas = [s_ for s_ in walk_local(bp) if isinstance(s_, ast.Assign) and u(s_.targets[0]) == 'meta' and shared.merge_winner(s_.value) is not None]
    ok = len(metas) == 1 and shared.merge_winner(metas[0].value) == ('meta', 'apply_to_all_interactions')
    aai = single_def(bp, 'apply_to_all_interactions')
    ok = ok and aai is not None and u(aai) == 'context._apply_to_all_interactions[section]'
    ck.ob('PREC-specific-wins', ff.loc(bp), ok, 'interaction metadata: what the line itself declares overrides the #meta of the section (`{}`)'.format(u(metas[0].value) if metas else '?'),
          key='PREC-specific-wins|_base_parser-meta')
    pm = ff.func('_parse_meta')
    ck.ob('PREC-specific-wins', ff.loc(pm), 'context._apply_to_all_interactions[section].update(attributes)' in u(pm), '#meta lines accumulate per section of the current context',
          key='PREC-specific-wins|_parse_meta')
    # the generic header parser (used by the mapping reader): every closed section is reported to finalize_section
    bph = ck.need(method(slp, 'parse_header'), 'SectionLineParser.parse_header vanished')
    ck.analysed(pu, bph)
    sets = [s_ for s_ in walk_local(bph) if isinstance(s_, ast.Assign) and u(s_.targets[0]) == 'self.section']
    wl = [w for w in bph.body if isinstance(w, ast.While)]
    ok = len(sets) == 1 and u(sets[0].value) == 'section' and any(sets[0] is s_ for s_ in bph.body) and len(wl) == 1 and bph.body.index(wl[0]) < bph.body.index(sets[0])
    if ok:
        w = wl[0]
        f = flow.to_formula(w.test)
        names = {}
        for k in flow.atoms_of(f):
            if k[0] == 'In' and k[1] == 'tuple(section)' and 'METH_DICT' in k[2]:
                names[k] = 'KNOWN'
            elif k[0] == 'Gt' and set(k[1:]) == {'len(section)', '1'}:
                names[k] = 'NESTED'
        ok = flow.equivalent(flow.rename(f, names), flow.parse_formula('not KNOWN and NESTED'))[0] and len(w.body) == 1 and u(w.body[0]) == 'ended.append(section.pop(-2))'
        fin = calls_with_env(bph, lambda c: call_attr(c) == 'finalize_section')
        ok = ok and len(fin) == 1 and [u(a) for a in fin[0][0].args] == ['prev_section', 'ended'] and \
            flow.equivalent(fin[0][2], ('atom', ('truth', 'prev_section')))[0] and u(single_def(bph, 'prev_section')) == 'self.section'
        sec = single_def(bph, 'section')
        ok = ok and sec is not None and u(sec) == "self.section + [line.strip('[ ]').casefold()]"
    ck.ob('MPT-finalize', pu.loc(bph), ok, 'the generic header parser pops enclosing sections until the header is known, reports all popped sections, and has no shortcut '
          '(the mapping reader emits a mapping exactly when a block/modification section is among the popped ones)', key='MPT-finalize|generic-header')
    # the "atoms" given to the arity test are the ones collected with that arity
    ga = calls_with_env(bp, lambda c: call_name(c) == '_get_atoms')
    ck.ob('MPT-reject', ff.loc(bp), len(ga) == 1 and 'natoms' in u(ga[0][0]), '_base_parser collects atoms with the section arity', key='MPT-reject|get-atoms')
    # a trailing {...} belongs to the last *atom* when the atoms have not been taken off the line yet: the interaction's own metadata is looked for only
    # after the atoms (and the "--" delimiter) were consumed -- so `A B {"k": 1}` and `A B {"k": 1} --` declare the same thing
    top_idx = {id(st_): i for i, st_ in enumerate(bp.body)}
    ga_stmt = [st_ for st_ in bp.body if len(ga) == 1 and any(n_ is ga[0][0] for n_ in ast.walk(st_))]
    meta_stmts = [st_ for st_ in bp.body if any(isinstance(n_, ast.Call) and call_attr(n_) == 'startswith' and n_.args and try_fold(n_.args[0], default='') == '{' for n_ in ast.walk(st_))
                  and any(isinstance(n_, ast.Call) and call_attr(n_) == 'pop' for n_ in ast.walk(st_))]
    ck.ob('ORD-atoms-before-meta', ff.loc(bp), len(ga_stmt) == 1 and len(meta_stmts) == 1 and top_idx[id(ga_stmt[0])] < top_idx[id(meta_stmts[0])],
          'the interaction metadata (a trailing {...}) is taken from what is left *after* the atoms were collected', key='ORD-atoms-before-meta|_base_parser')
    # arity lookup in the handlers uses the stripped name
    for name in sorted(base_handlers):
        fn = method(ffd, name)
        for call, st, cond, env in calls_with_env(fn, lambda c: call_name(c) == '_base_parser'):
            n = kwarg(call, 'natoms')
            sec = kwarg(call, 'section')
            ndef = assignments_to(fn, u(n)) if isinstance(n, ast.Name) else []
            ok = len(ndef) == 1 and 'interactions_natoms.get(' in u(ndef[0]) and u(sec) in u(ndef[0])
            ck.ob('TAB-arity', ff.loc(call), ok, 'FFDirector.{} looks the arity up with the section name it passes on ({})'.format(name, u(ndef[0]) if ndef else '?'),
                  key='TAB-arity|lookup|' + name)

    # ------------------------------------------------------------- SIB: sibling parsers reject the same things
    sib = method(itpd, '_treat_block_interaction_atoms')

    def numeric_guards(fn):
        """canonical rejection guards of the numeric branch"""
        out = set()
        for st, cond, _e in raise_conditions(fn):
            keys = {' '.join(map(str, a)) for a in flow.atoms_of(cond)}
            if any('isdigit' in k for k in keys):
                for k in keys:
                    if 'isdigit' not in k:
                        out.add(k)
        tries = any(isinstance(t, ast.Try) for t in walk_local(fn))
        if tries:
            out.add('IndexError')
        return out
    g_ff = numeric_guards(tb)
    g_itp = numeric_guards(sib)

    def has_lower_bound(guards):
        return any(g.split()[0] in ('Gt', 'GtE') and 'int(' in g and any(tok in ('0', '1') for tok in g.split()) for g in guards)
    lower_ff = has_lower_bound(g_ff)
    lower_itp = has_lower_bound(g_itp)
    ck.ob('SIB-reject', ff.loc(tb), lower_ff or not lower_itp,
          'the .itp reader rejects a numeric atom reference < 1 ({}); the .ff reader must too (has: {}) -- index 0 otherwise denotes the last atom'.format(
              sorted(g_itp), sorted(g_ff)), key='SIB-reject|index-lower-bound')
    ck.ob('SIB-reject', itp.loc(sib), 'IndexError' in g_itp and 'IndexError' in g_ff and lower_itp,
          'both readers reject an index beyond the block size; the .itp reader rejects indices below 1',
          key='SIB-reject|index-upper-bound')
    # the .itp lower bound on its own terms (not only relative to the sibling): over the values isdigit() admits, exactly 0 is rejected before the lookup
    def rejects(fn, value):
        """does a raise of the numeric branch fire for reference == str(value)?  (IndexError handlers are the upper bound, not evaluated here)"""
        for st, cond, _e in raise_conditions(fn):
            atoms = list(flow.atoms_of(cond))
            if not any('isdigit' in atom_text(a) for a in atoms) or isinstance(module_try(fn, st), ast.ExceptHandler):
                continue
            val = {}
            for a in atoms:
                t = atom_text(a)
                if 'isdigit' in t:
                    val[a] = True
                elif a[0] in ('Gt', 'GtE', 'Lt', 'LtE', 'Eq', 'NotEq') and 'int(' in t:
                    sym = {'Gt': '>', 'GtE': '>=', 'Lt': '<', 'LtE': '<=', 'Eq': '==', 'NotEq': '!='}[a[0]]
                    try:
                        val[a] = bool(interp.ev(ast.parse('({}) {} ({})'.format(a[1], sym, a[2]), mode='eval').body, {'reference': str(value), 'atom': [str(value)]}))
                    except interp.Unsupported:
                        return None
                else:
                    val[a] = False
            if flow.ev(cond, val):
                return True
        return False

    def module_try(fn, st):
        for anc in itp.ancestors(st):
            if isinstance(anc, ast.ExceptHandler):
                return anc
            if anc is fn:
                break
        return None
    table = {v: rejects(sib, v) for v in (0, 1, 2, 7)}
    ck.ob('DT-reject', itp.loc(sib), table == {0: True, 1: False, 2: False, 7: False},
          'the .itp reader rejects the numeric atom reference 0 (which would denote the last atom) and no valid index: rejection table {}'.format(table),
          key='DT-reject|itp-index-zero')
    # name branch guards agree
    def name_guards(fn):
        out = set()
        for st, cond, _e in raise_conditions(fn):
            keys = {' '.join(map(str, a)) for a in flow.atoms_of(cond)}
            if any('isdigit' in k for k in keys):
                truth = flow.rename(cond, {a: True for a in flow.atoms_of(cond) if 'isdigit' in ' '.join(map(str, a))})
                if truth is False or not flow.equivalent(truth, False)[0]:
                    # reachable with isdigit true -> numeric branch
                    if flow.equivalent(flow.rename(cond, {a: False for a in flow.atoms_of(cond) if 'isdigit' in ' '.join(map(str, a))}), False)[0]:
                        continue
                out |= {k for k in keys if 'isdigit' not in k and 'int(' not in k}
        return out
    ck.ob('SIB-reject', itp.loc(sib), name_guards(tb) == name_guards(sib),
          'both readers reject the same named references (ff: {}, itp: {})'.format(sorted(name_guards(tb)), sorted(name_guards(sib))),
          key='SIB-reject|name-guards')

    # ------------------------------------------------------------- WMC: no swallowed parse error
    EXC = {('vermouth/ffinput.py', '_parse_atom_attributes', 'TypeError'): 'non-string attribute values have no "|" choices',
           ('vermouth/ffinput.py', '_parse_variables', 'JSONDecodeError'): 'documented fallback: a variable that is not JSON is kept as a string',
           ('vermouth/ffinput.py', '_parse_edges', 'AttributeError'): 'blocks have no _apply_to_all_nodes; an empty default is used',
           ('vermouth/parser_utils.py', 'SectionParser.__new__', 'AttributeError'): 'metaclass probing attributes for _section_names; no file content involved',
           ('vermouth/map_input.py', 'read_backmapping_file', 'KeyError'): 'a .map file lists several force fields; pairs whose block is not loaded are skipped and logged (type inconsistent-data)',
           ('vermouth/map_input.py', 'make_mapping_object', 'KeyError'): 'atoms absent from the loaded block are skipped and logged (type inconsistent-data)'}
    nh = 0
    for module in (ff, itp, mp, pu, idx.mod('vermouth/map_input.py')):
        for qual, fn in module.functions.items():
            for node in walk_local(fn):
                if isinstance(node, ast.ExceptHandler):
                    nh += 1
                    reraises = any(isinstance(n, ast.Raise) for s in node.body for n in ast.walk(s))
                    typ = u(node.type) if node.type is not None else 'BaseException'
                    exc = EXC.get((module.rel, qual, typ))
                    ck.ob('WMC-swallow', module.loc(node), reraises or exc is not None,
                          'except {} in {} re-raises{}'.format(typ, qual, '' if reraises else ' -- named exception: ' + str(exc)),
                          key='WMC-swallow|{}|{}|{}'.format(module.rel, qual, typ))
    ck.expect_count('WMC except handlers in the parser modules', nh, 5)
    # ------------------------------------------------------------ mapping weights (.mapping and backward-style .map)
    mpd = method(mapd, '_mapping')
    ck.need(mpd is not None, 'MappingDirector._mapping vanished')
    ck.analysed(mp, mpd)
    wdefs = stmts_with_env(mpd, lambda s_: isinstance(s_, ast.Assign) and u(s_.targets[0]) == 'weight')
    vals = sorted(u(d[0].value) for d in wdefs)
    split = [s_ for s_ in mpd.body if isinstance(s_, ast.Assign) and isinstance(s_.targets[0], ast.Tuple) and u(s_.value) == 'line.split()']
    ok = vals == ['1', 'int(weight[0])'] and len(split) == 1 and [u(e) for e in split[0].targets[0].elts] == ['from_', 'to_', '*weight']
    call = [c for c in walk_local(mpd) if isinstance(c, ast.Call) and call_attr(c) == 'add_mapping']
    ok = ok and len(call) == 1 and [u(a) for a in call[0].args] == ['attrs_from', 'attrs_to', 'weight'] and \
        u(single_def(mpd, 'attrs_from')) == "self._resolve_atom_spec(from_, 'from')" and u(single_def(mpd, 'attrs_to')) == "self._resolve_atom_spec(to_, 'to')"
    ck.ob('PROV-map-weights', mp.loc(mpd), ok, 'a [ mapping ] line "<from> <to> [weight]" records the written weight (default 1) between exactly those two atoms', key='PROV-map-weights|mapping-line')
    mb = mp.cls('MappingBuilder')
    am = method(mb, 'add_mapping')
    st = [s_ for s_ in walk_local(am) if isinstance(s_, ast.Assign) and isinstance(s_.targets[0], ast.Subscript)]
    ck.ob('PROV-map-weights', mp.loc(am), len(st) == 1 and u(st[0]) == 'self.mapping[nodes_from[0]][nodes_to[0]] = weight' and 'assert len(nodes_from) == len(nodes_to) == 1' in u(am),
          'the builder stores that weight under (source atom, target atom), each resolved to exactly one atom', key='PROV-map-weights|builder')
    mi = idx.mod('vermouth/map_input.py')
    cw = mi.func('_compute_weights')
    ck.analysed(mi, cw)
    pre = single_def(cw, 'pre_weights')
    ok = pre is not None and isinstance(pre, ast.DictComp) and 'collections.Counter([to_atom for to_atom in to_atoms if not to_atom.startswith(\'!\')])' in u(pre) \
        and u(pre.generators[0].iter) == 'mapping.items()' and not pre.generators[0].ifs
    ck.ob('PROV-map-weights', mi.loc(cw), ok, 'backward-style .map: a source atom listed k times for a target gets multiplicity k; targets marked "!" are left out of the count',
          key='PROV-map-weights|multiplicity')
    norm = [l for l in cw.body if isinstance(l, ast.For) and u(l.iter) == 'pre_weights.values()']
    ok = len(norm) == 1 and 'total = sum(atom_weights.values())' in u(norm[0]) and 'atom_weights[to_atom] /= total' in u(norm[0]) and \
        not any(isinstance(n, (ast.If, ast.Continue, ast.Break)) for n in ast.walk(norm[0]))
    ck.ob('PROV-map-weights', mi.loc(cw), ok, 'the multiplicities of one source atom are normalised by their sum, for every source atom', key='PROV-map-weights|normalised')
    nw = single_def(cw, 'null_weights')
    ok = nw is not None and isinstance(nw, ast.DictComp) and u(nw.key) == 'to_atom[1:]' and u(nw.value) == '{from_atom: 0 for from_atom in from_atoms}' and \
        [u(c) for c in nw.generators[0].ifs] == ["to_atom.startswith('!')"] and u(nw.generators[0].iter) == 'rev_mapping.items()'
    ck.ob('PROV-map-weights', mi.loc(cw), ok, 'a target written "!X" maps its source atoms to X with weight 0', key='PROV-map-weights|null')
    raise_condition_is(ck, mi, cw, lambda st_, c_: True, lambda k: 'CONFLICT' if (k[0] == 'truth' and 'null_keys' in atom_text(k) or k[0] == 'truth') else None,
                       'CONFLICT', 'the same source atom mapped to one target both with and without "!"', 'DT-reject|map-null-conflict')
    rp = mi.func('_read_mapping_partial')
    ck.analysed(mi, rp)
    dup = [(st_, c_) for st_, c_, e_ in raise_conditions(rp) if any(k[0] == 'In' and k[1] == 'from_atom' and k[2] == 'mapping' for k in flow.atoms_of(c_))]
    ck.ob('DT-reject', mi.loc(rp), len(dup) == 1, 'a source atom defined twice in [ atoms ] is rejected', key='DT-reject|map-duplicate-atom')
    # [ edges ] / [ non-edges ]: the graph keys used are the normalised (prefixed) ones, never the raw text of the line
    pe = ff.func('_parse_edges')
    ck.analysed(ff, pe)
    adds = [c for c in walk_local(pe) if isinstance(c, ast.Call) and call_attr(c) == 'add_edge']
    nons = [c for c in walk_local(pe) if isinstance(c, ast.Call) and call_attr(c) == 'append' and u(c.func.value).endswith('non_edges')]
    lp = [l for l in pe.body if isinstance(l, ast.For) and u(l.iter) == 'atoms']
    ok = len(adds) == 1 and [u(a) for a in adds[0].args] == ['prefixed_atoms[0][0]', 'prefixed_atoms[1][0]'] and \
        len(nons) == 1 and u(nons[0].args[0]) == '[prefixed_atoms[0][0], prefixed_atoms[1][1]]' and len(lp) == 1
    if ok:
        body = u(lp[0])
        tp = [c for c in ast.walk(lp[0]) if isinstance(c, ast.Call) and call_name(c) == '_treat_atom_prefix']
        app = [st_ for st_ in lp[0].body if isinstance(st_, ast.Expr) and call_attr(st_.value) == 'append' and u(st_.value.func.value) == 'prefixed_atoms']
        tg_ = lp[0].target
        forms_ = ('_treat_atom_prefix(*{0})'.format(u(tg_)), '_treat_atom_prefix({0}[0], {0}[1])'.format(u(tg_))) if isinstance(tg_, ast.Name) else \
            ('_treat_atom_prefix({}, {})'.format(*[u(e) for e in tg_.elts]),) if isinstance(tg_, ast.Tuple) and len(tg_.elts) == 2 else ()
        ok = len(tp) == 1 and u(tp[0]) in forms_ and len(app) == 1 and \
            u(app[0].value.args[0]) == '[prefixed_reference, full_attributes]' and 'prefixed_reference, attributes = _treat_atom_prefix(' in body and \
            unconditional_in(pe, lp[0].body, app[0])
    ck.ob('DT-prefix-order', ff.loc(pe), ok, 'an [ edges ] line joins the two normalised keys (prefix from the written prefix or from the order attribute); a [ non-edges ] line '
          'records the normalised key of the first atom and the attributes of the second', key='DT-prefix-order|edges-use-normalised-keys')
    # ------------------------------------------------------------- macros: substituted in every section line before it is dispatched
    ps = ck.need(method(slp, 'parse_section'), 'SectionLineParser.parse_section vanished')
    ck.analysed(pu, ps)
    subs = [(st_, c_) for st_, c_, e_ in stmts_with_env(ps, lambda s_: isinstance(s_, ast.Assign) and call_name(s_.value) == '_substitute_macros')]
    disp = calls_with_env(ps, lambda c: isinstance(c.func, ast.Name) and c.func.id == 'method')
    ok = len(subs) == 1 and flow.valid(subs[0][1]) and [u(a) for a in subs[0][0].value.args] == ['line', 'self.macros'] and u(subs[0][0].targets[0]) == 'line' and \
        len(disp) == 1 and u(disp[0][0].args[1]) == 'line' and subs[0][0].lineno < disp[0][1].lineno
    overriders = [(m_.rel, q_) for m_, q_, f_ in idx.all_functions() if q_.endswith('.parse_section') and not (m_ is pu and q_ == 'SectionLineParser.parse_section')]
    ck.ob('PROV-macros', pu.loc(ps), ok and not overriders, 'every section line has its macros substituted (from the parser\'s macro table) before it is handed to the section method; '
          'no subclass overrides parse_section ({})'.format(overriders), key='PROV-macros|substitute-before-dispatch')
    pmac = pu.func('_parse_macro')
    ck.analysed(pu, pmac)
    src = u(pmac)
    st_store = [s_ for s_ in walk_local(pmac) if isinstance(s_, ast.Assign) and isinstance(s_.targets[0], ast.Subscript) and u(s_.targets[0].value) == 'macros']
    rz = [flow.show(c_) for s_, c_, e_ in raise_conditions(pmac)]
    ok = len(st_store) == 1 and u(st_store[0]) == 'macros[macro_name] = macro_value' and 'macro_name = tokens.popleft()' in src and 'macro_value = tokens.popleft()' in src and \
        src.index('macro_name = tokens.popleft()') < src.index('macro_value = tokens.popleft()') and len(rz) == 2
    ck.ob('PROV-macros', pu.loc(pmac), ok, 'a macro definition stores the second token under the first, verbatim; any other number of columns is an error', key='PROV-macros|definition')
    resets = [(m_.rel, q_) for m_, q_, f_ in idx.all_functions() if m_.rel in (FF, ITP, PU, MAP) and not q_.endswith('__init__') and not q_.endswith('.finalize')
              for s_ in walk_local(f_) if isinstance(s_, (ast.Assign, ast.AugAssign)) and any(u(t_) == 'self.macros' for t_ in (s_.targets if isinstance(s_, ast.Assign) else [s_.target]))]
    ck.ob('PROV-macros', PU, not resets, 'the macro table is created once per parser and replaced only by finalize() after the last line (macros defined in one section stay available in all later ones): {}'.format(resets),
          key='PROV-macros|persist')
    sm = pu.func('_substitute_macros')
    ck.analysed(pu, sm)
    lk = [n for n in walk_local(sm) if isinstance(n, ast.Subscript) and u(n.value) == 'macros' and isinstance(n.ctx, ast.Load)]
    ok = len(lk) == 1 and u(lk[0].slice) == 'macro_name' and 'macro_name = line[start + 1:end]' in u(sm) and 'line = line[:start] + macro_value + line[end:]' in u(sm) and \
        not any(isinstance(h, ast.ExceptHandler) for h in ast.walk(sm)) and "' \\t\\n{}$\"'" in u(sm)
    ck.ob('PROV-macros', pu.loc(sm), ok, 'a "$name" (name ends at white space, a brace, a quote or the next "$") is replaced in place by the stored value; an undefined macro is a KeyError, '
          'not silently kept', key='PROV-macros|substitution')
    # ------------------------------------------------------------- the small section parsers store exactly what the line declares
    def stores(fn, target_text):
        return [(st_, c_) for st_, c_, e_ in stmts_with_env(fn, lambda s_: (isinstance(s_, ast.Assign) and u(s_.targets[0]) == target_text) or
                                                        (isinstance(s_, ast.Expr) and isinstance(s_.value, ast.Call) and u(s_.value.func) == target_text))]

    def two_columns(fn):
        rz = [c_ for st_, c_, e_ in raise_conditions(fn)]
        lens = {a for c_ in rz for a in flow.atoms_of(c_) if a[0] in ('Gt', 'Lt') and 'len(tokens)' in a[1:] and '2' in a[1:]}
        return len(lens) == 2      # more than two columns, fewer than two columns
    ppat = ff.func('_parse_patterns')
    st = stores(ppat, 'context.patterns.append')
    ok = len(st) == 1 and u(st[0][0].value.args[0]) == 'atoms' and u(single_def(ppat, 'atoms')) in ('_get_atoms(tokens, natoms=None)', '_get_atoms(tokens, None)') and \
        flow.equivalent(st[0][1], ('atom', ('Eq', "'link'", 'context_type')))[0] | flow.equivalent(st[0][1], ('atom', ('Eq', 'context_type', "'link'")))[0]
    ck.analysed(ff, ppat)
    ck.ob('PROV-sections', ff.loc(ppat), ok, 'a [ patterns ] line adds one pattern made of all atoms (with attributes) written on it, in links only', key='PROV-sections|patterns')
    pfe = ff.func('_parse_features')
    st = stores(pfe, 'context.features.update')
    ok = len(st) == 1 and u(st[0][0].value.args[0]) in ('set(tokens)', 'tokens')
    ck.analysed(ff, pfe)
    ck.ob('PROV-sections', ff.loc(pfe), ok, 'a [ features ] line adds every token written on it to the link\'s features', key='PROV-sections|features')
    pva = ff.func('_parse_variables')
    st = stores(pva, 'force_field.variables[key]')
    ok = len(st) == 1 and u(st[0][0].value) == 'value' and two_columns(pva) and 'key, value = tokens' in u(pva) and 'value = json.loads(value)' in u(pva)
    ck.analysed(ff, pva)
    ck.ob('PROV-sections', ff.loc(pva), ok, 'a [ variables ] line stores the JSON value (or the raw text) of its second column under its first; other column counts are errors', key='PROV-sections|variables')
    pla = ff.func('_parse_link_attribute')
    ck.analysed(ff, pla)
    s1 = stores(pla, 'context._apply_to_all_nodes[key]')
    s2 = stores(pla, 'context.molecule_meta[key]')
    ok = len(s1) == 1 and len(s2) == 1 and u(s1[0][0].value) == 'value' == u(s2[0][0].value) and two_columns(pla) and \
        any(a[0] == 'Eq' and set(a[1:]) == {"'link'", 'section'} for a in flow.atoms_of(s1[0][1])) and any(a[0] == 'Eq' and set(a[1:]) == {"'molmeta'", 'section'} for a in flow.atoms_of(s2[0][1]))
    vals = sorted(u(v) for v in assignments_to(pla, 'value'))
    ok = ok and vals == sorted(["Choice(json.loads(value).split('|'))", 'VALUE_PREDICATES[function](argument)', 'json.loads(value)'])
    ck.ob('PROV-sections', ff.loc(pla), ok, 'a [ link ] attribute line sets that attribute for every atom of the link, a [ molmeta ] line sets a molecule-meta requirement; the value is '
          'a choice ("a|b"), a predicate call or plain JSON', key='PROV-sections|link-attribute')
    pci = ck.need(method(ffd, '_parse_citation'), 'FFDirector._parse_citation vanished')
    ok = 'self.get_context(context_type).citations.update(cite_keys)' in u(pci) and u(single_def(pci, 'cite_keys')) == 'line.split()'
    ck.ob('PROV-sections', ff.loc(pci), ok, 'a [ citation ] line adds every key written on it to the citations of the block / link / modification being read', key='PROV-sections|citation')
    ple = ck.need(method(ffd, '_parse_log_entry'), 'FFDirector._parse_log_entry vanished')
    ok = 'loglevel = logging.getLevelName(self.section[-1].upper())' in u(ple) and 'self.get_context(context_type).log_entries[loglevel][line] = []' in u(ple)
    ck.ob('PROV-sections', ff.loc(ple), ok, 'a [ debug | info | warning | error ] line is stored as a message of that level on the object being read', key='PROV-sections|log-entry')
    plk = ff.func('_parse_link_atom')
    ck.analysed(ff, plk)
    src = u(plk)
    ok = two_columns(plk) and 'attributes = _parse_atom_attributes(tokens[1])' in src and 'attributes = dict(collections.ChainMap(attributes, context._apply_to_all_nodes))' in src and \
        'full_attributes = dict(collections.ChainMap(attributes, node_attributes, defaults))' in src and 'context.add_node(prefixed_reference, **full_attributes)' in src and \
        'context.nodes[prefixed_reference] = full_attributes' in src
    rz = [c_ for st_, c_, e_ in raise_conditions(plk)]
    conflict = [c_ for c_ in rz if any(a[0] == 'Eq' and any('.get(attr, value)' in x for x in a[1:]) and 'value' in a[1:] for a in flow.atoms_of(c_))]
    ck.ob('PROV-sections', ff.loc(plk), ok and len(conflict) == 1, 'a link / modification [ atoms ] line defines the atom under its normalised key with its own attributes, then the link-wide ones, '
          'then what an earlier line said, then the defaults; a contradiction with an earlier definition is an error', key='PROV-sections|link-atom')
    link_atom_name_rule(ck)
    # the metadata of an interaction line (`{..}` at its end) and of a `#meta` line is plain JSON: what is loaded is the declared value, a string stays a string
    # (the atom-attribute reader turns "a|b" into a Choice predicate: right for atom conditions, wrong for a comment or a group name)
    for qual_, target_ in (('_base_parser', 'meta'), ('_parse_meta', 'attributes')):
        fn_ = ck.need(ff.functions.get(qual_), 'ffinput.{} vanished'.format(qual_))
        ck.analysed(ff, fn_)
        loads = [d_ for d_ in assignments_to(fn_, target_) if isinstance(d_, ast.Call)]
        from_json = [d_ for d_ in loads if call_name(d_) == 'json.loads']
        other = [u(d_)[:50] for d_ in loads if call_name(d_) not in ('json.loads', 'dict') and 'ChainMap' not in u(d_)]
        ck.ob('PROV-sections', ff.loc(fn_), len(from_json) == 1 and not other, '{}: the metadata token is read with json.loads and nothing else ({} json.loads, other readers: {})'.format(
            qual_, len(from_json), other), key='PROV-sections|meta-is-json|' + qual_)
    # ------------------------------------------------------------- #ifdef / #ifndef / #else / #endif: the condition recorded on the lines that follow
    pp = ck.need(method(itpd, 'parse_pragma'), 'ITPDirector.parse_pragma vanished')
    ck.analysed(itp, pp)
    states = [None, {'tag': 'FLEX', 'condition': 'ifdef'}, {'tag': 'FLEX', 'condition': 'ifndef'}]
    flip = {'ifdef': 'ifndef', 'ifndef': 'ifdef'}
    bad = []
    ncase = 0
    try:
        for state in states:
            for line in ('#endif', '#else', '#ifdef POSRES', '#ifndef POSRES', '#define X 1', '#include "a.itp"', '#if X'):
                ncase += 1
                env = {'self.current_meta': dict(state) if state else None, 'line': line, 'lineno': 7}
                got = interp.call(pp.body, env)
                after = ('raise',) if isinstance(got, tuple) and got and got[0] == 'raise' else env.get('self.current_meta')
                # interp.call works on a copy of env: re-run on the env itself to observe the state
                env2 = {'self.current_meta': dict(state) if state else None, 'line': line, 'lineno': 7}
                try:
                    interp.run_stmts(pp.body, env2)
                    after = env2.get('self.current_meta')
                except interp.Returned as r_:
                    after = ('raise',) if isinstance(r_.value, tuple) and r_.value and r_.value[0] == 'raise' else env2.get('self.current_meta')
                if line == '#endif':
                    want = None if state else ('raise',)
                elif line == '#else':
                    want = {'tag': state['tag'], 'condition': flip[state['condition']]} if state else ('raise',)
                elif line.startswith('#ifdef') or line.startswith('#ifndef'):
                    want = {'tag': 'POSRES', 'condition': line.split()[0][1:]} if state is None else ('raise',)
                elif line.startswith('#define'):
                    want = state
                else:
                    want = ('raise',)
                if after != want:
                    bad.append('state {} + "{}": {} (expected {})'.format(state, line, after, want))
    except interp.Unsupported as err:
        bad = ['outside the interpretable fragment: {}'.format(err)]
    except (TypeError, KeyError, AttributeError, ValueError) as err:
        bad = ['the interpreted function fails: {}: {}'.format(type(err).__name__, err)]
    ck.ob('DT-pragma', itp.loc(pp), not bad, 'parse_pragma, interpreted over {} (state, line) cases: #ifdef/#ifndef open a condition with that tag, #else turns exactly that condition round, '
          '#endif closes it, nesting / stray #else / #endif / unknown pragmas are errors{}'.format(ncase, '' if not bad else ' -- ' + ' || '.join(bad[:3])), key='DT-pragma|state-machine')
    # ------------------------------------------------------------- .mapping atoms: every atom gets its own copy of the identifier's attributes
    ras = ck.need(method(mapd, '_resolve_atom_spec'), 'MappingDirector._resolve_atom_spec vanished')
    ck.analysed(mp, ras)
    rets = [r for r in walk_local(ras) if isinstance(r, ast.Return) and r.value is not None]
    ok = len(rets) == 1 and isinstance(rets[0].value, ast.Name)
    if ok:
        rv = rets[0].value.id
        defs = assignments_to(ras, rv)
        fresh = all((isinstance(d, ast.Call) and (call_attr(d) in ('copy', 'deepcopy') or call_name(d) in ('dict', 'copy.copy', 'copy.deepcopy'))) or isinstance(d, ast.Dict) for d in defs)
        srcs = sorted(u(d.func.value) if isinstance(d, ast.Call) and isinstance(d.func, ast.Attribute) else u(d) for d in defs)
        name_store = [s_ for s_ in walk_local(ras) if isinstance(s_, ast.Assign) and u(s_.targets[0]) == "{}['atomname']".format(rv) and u(s_.value) == 'name']
        cur = [s_ for s_ in walk_local(ras) if isinstance(s_, ast.Assign) and u(s_.targets[0]) == 'self._current_id[prefix]']
        ok = bool(defs) and fresh and srcs == sorted(['self._current_id[prefix]', 'self.identifiers[prefix, id_]']) and len(name_store) == 1 and \
            len(cur) == 1 and u(cur[0].value) == 'self.identifiers[prefix, id_]'
    ck.ob('ALIAS-copy', mp.loc(ras), ok, 'the attributes of a mapping atom are a fresh copy of its identifier\'s attributes (the explicit identifier, else the last one used) plus its own '
          'atom name; nothing written for one atom can reach the next', key='ALIAS-copy|map-atom-attributes')
    # ------------------------------------------------------------- .mapping [ from blocks ]: the mapping is named after the residue / modification name the block line gives
    blk = ck.need(method(mapd, '_blocks'), 'MappingDirector._blocks vanished')
    ck.analysed(mp, blk)
    lp = [l for l in blk.body if isinstance(l, ast.For) and '_parse_blocks' in u(l.iter)]
    ok = len(lp) == 1
    if ok:
        body = lp[0].body
        names = stmts_with_env(blk, lambda s_: isinstance(s_, ast.Expr) and call_attr(s_.value) == 'add_name', stmts=body)
        dels = [s_ for s_ in ast.walk(lp[0]) if (isinstance(s_, ast.Delete) and "attrs['resname']" in u(s_)) or
                (isinstance(s_, ast.Expr) and isinstance(s_.value, ast.Call) and call_attr(s_.value) == 'pop' and u(s_.value.func.value) == 'attrs')]
        store = [s_ for s_ in body if isinstance(s_, ast.Assign) and u(s_.targets[0]) == 'self.identifiers[direction, identifier]']
        ok = len(names) == 1 and len(dels) == 1 and len(store) == 1 and names[0][0].lineno < dels[0].lineno < store[0].lineno and \
            flow.equivalent(names[0][1], ('atom', ('Eq', "'from'", 'direction')))[0] | flow.equivalent(names[0][1], ('atom', ('Eq', 'direction', "'from'")))[0]
        nm = sorted(u(v) for v in assignments_to(blk, 'name'))
        ok = ok and nm == sorted(["attrs.get('resname')", 'identifier'])
    ck.ob('PROV-map-names', mp.loc(blk), ok, 'a [ from blocks ] entry names the mapping after its `resname` attribute when it has one (else after the identifier), and only afterwards is the '
          'resname dropped from a modification\'s identifier attributes; the attributes are then stored for the atoms of that identifier', key='PROV-map-names|from-blocks')
    # ------------------------------------------------------------- .mapping block declarations: the "!" (do not fetch) marker never ends up in a residue name
    pbl = ck.need(method(mapd, '_parse_blocks'), 'MappingDirector._parse_blocks vanished')
    ck.analysed(mp, pbl)
    strips = stmts_with_env(pbl, lambda s_: isinstance(s_, ast.Assign) and u(s_.targets[0]) == 'resname' and u(s_.value) == 'resname[len(self.NO_FETCH_BLOCK):]')
    ok = len(strips) == 1
    if ok:
        ats = [a for a in flow.atoms_of(strips[0][1]) if a[0] == 'truth' and 'startswith(self.NO_FETCH_BLOCK)' in a[1]]
        ok = len(ats) == 1 and flow.implies(strips[0][1], ('atom', ats[0]))[0]
        ad = [s_ for s_ in walk_local(pbl) if isinstance(s_, ast.Assign) and u(s_.targets[0]) == 'attrs' and u(s_.value) == "{'resname': resname, 'resid': resid}"]
        ok = ok and len(ad) == 1 and strips[0][0].lineno < ad[0].lineno
    blk2 = method(mapd, '_blocks')
    ok2 = blk2 is not None and 'identifier = identifier[len(self.NO_FETCH_BLOCK):]' in u(blk2) and 'if identifier.startswith(self.NO_FETCH_BLOCK):' in u(blk2) and 'fetch = False' in u(blk2)
    ck.ob('PROV-map-names', mp.loc(pbl), ok and ok2, 'the shorthand "!NAME" declares residue NAME without fetching its block: the marker is stripped from the residue name the atoms get '
          '(_parse_blocks) and from the identifier (_blocks), so it names the same mapping as the longhand spelling', key='PROV-map-names|no-fetch-marker')
    prefix_order_table(ck, ff)
    # [ dihedrals ] of a .ff file: function type 2 means "improper", and the function type is the first *parameter of the parsed line* -- where it sits among
    # the raw tokens depends on the optional "--" delimiter and on atom attributes
    dih = method(ffd, '_dih_interactions')
    if dih is not None:
        ck.analysed(ff, dih)
        from_parsed = [c_ for c_ in walk_local(dih) if isinstance(c_, ast.Compare) and len(c_.ops) == 1 and isinstance(c_.ops[0], ast.Eq) and
                       {type(c_.left), type(c_.comparators[0])} == {ast.Subscript, ast.Constant} and
                       any(isinstance(x_, ast.Subscript) and u(x_).endswith('.parameters[0]') for x_ in (c_.left, c_.comparators[0])) and
                       any(isinstance(x_, ast.Constant) and x_.value == '2' for x_ in (c_.left, c_.comparators[0]))]
        from_tokens = [c_ for c_ in walk_local(dih) if isinstance(c_, ast.Compare) and any(isinstance(x_, ast.Subscript) and isinstance(x_.value, ast.Name) and x_.value.id == 'tokens'
                                                                                           for x_ in [c_.left] + c_.comparators)
                       and any(isinstance(x_, ast.Constant) and x_.value in ('2', 2) for x_ in [c_.left] + c_.comparators)]
        ck.ob('PROV-sections', ff.loc(dih), len(from_parsed) == 1 and not from_tokens, 'a dihedral line is an improper exactly when the first parameter of the parsed interaction is "2" '
              '({} test(s) on the parsed parameters, {} on raw token positions)'.format(len(from_parsed), len(from_tokens)), key='PROV-sections|improper-by-parsed-type')
    section_key_rule(ck)
    # ITP interaction lines: an atom column given by its number is read strictly (a line with too few columns is an error, not a shorter interaction)
    itpm = idx.mod(ITP)
    sp = itpm.func('ITPDirector._split_atoms_and_parameters')
    ck.analysed(itpm, sp)
    lps = [l for l in sp.body if isinstance(l, ast.For) and u(l.iter) == sp.args.args[2].arg]
    ok = len(lps) == 1 and isinstance(lps[0].target, ast.Name)
    if ok:
        iv = lps[0].target.id
        tok = sp.args.args[1].arg
        strict = [(st_, c_) for st_, c_, _e in stmts_with_env(sp, lambda s_: any(isinstance(n_, ast.Subscript) and isinstance(n_.ctx, ast.Load) and u(n_) == '{}[{}]'.format(tok, iv)
                                                                               for n_ in ast.walk(s_)) and not isinstance(s_, (ast.If, ast.For)), stmts=lps[0].body)]
        rebinds = [n_ for n_ in ast.walk(lps[0]) if isinstance(n_, ast.Name) and n_.id == iv and isinstance(n_.ctx, ast.Store) and n_ is not lps[0].target]
        ok = not rebinds and any(flow.implies(c_, ('atom', ('truth', 'isinstance({}, int)'.format(iv))))[0] for _s, c_ in strict)
    ck.ob('MPT-reject', itpm.loc(sp), ok, 'an atom column given as a number is fetched by plain indexing of the line\'s fields (a missing column raises; a slice would quietly give fewer atoms)',
          key='MPT-reject|itp-short-line')
    # .mapping node lines: what is written on the atom's own line wins over what the block identifier carries
    nodes_fn = mp.func('MappingDirector._nodes')
    ck.analysed(mp, nodes_fn)
    upd = [c for c in walk_local(nodes_fn) if isinstance(c, ast.Call) and call_attr(c) == 'update' and isinstance(c.func.value, ast.Name) and c.args]
    ok = len(upd) == 1
    if ok:
        base = single_def(nodes_fn, upd[0].func.value.id)
        arg = upd[0].args[0]
        arg_defs = assignments_to(nodes_fn, arg.id) if isinstance(arg, ast.Name) else [arg]
        handed = [c for c in walk_local(nodes_fn) if isinstance(c, ast.Call) and isinstance(c.func, ast.Subscript) and u(c.func.value) == 'builder_methods']
        ok = isinstance(base, ast.Call) and call_attr(base) == '_resolve_atom_spec' and any(isinstance(d, ast.Call) and call_name(d) == '_parse_atom_attributes' for d in arg_defs) and \
            len(handed) == 1 and [u(a) for a in handed[0].args] == [upd[0].func.value.id]
    ck.ob('PROV-node-attributes', mp.loc(nodes_fn), ok, 'a node of a .mapping file gets the attributes of its block identifier *updated with* those written on its own line '
          '(the line wins), and that dictionary is what the builder receives', key='PROV-node-attributes|precedence')
    # edges: a block and a link get the edges their interactions imply (make_edges_from_interactions); a modification is loaded with exactly the edges its
    # [ edges ] section declares -- FFDirector.finalize_section builds edges for the first two only
    fsd = ck.need(method(ffd, 'finalize_section'), 'FFDirector.finalize_section vanished')
    ck.analysed(ff, fsd)
    # (which object: read off the guard the call stands under -- `if self.current_block is not None:` .. -- so that a helper taking the object as a parameter
    # does not hide it)
    recv = []
    for c_, _st, cnd_, e_ in calls_with_env(fsd, lambda c_: call_attr(c_) == 'make_edges_from_interactions'):
        guards = sorted({w_ for k_ in flow.atoms_of(cnd_) for w_ in ('current_block', 'current_link', 'current_modification') if w_ in ' '.join(map(str, k_))})
        recv.append('self.' + guards[0] if len(guards) == 1 else u(flow.subst(c_.func.value, e_)))
    recv.sort()
    ck.ob('PROV-sections', ff.loc(fsd), recv == ['self.current_block', 'self.current_link'], 'edges are derived from the interactions for the block and the link being finished, '
          'not for a modification (receivers: {})'.format(recv), key='PROV-sections|edges-from-interactions')
    # the first block fetched under [ from blocks ] / [ to blocks ] is instantiated with no default attributes, like the later ones that are merged in (an atom
    # of a modification declares no resname: none is invented)
    mbm = idx.mod(MAP)
    ab = ck.need(mbm.functions.get('MappingBuilder._add_block'), 'MappingBuilder._add_block vanished')
    ck.analysed(mbm, ab)
    tmc = [c_ for c_ in walk_local(ab) if isinstance(c_, ast.Call) and call_attr(c_) == 'to_molecule']
    okd = len(tmc) == 1 and kwarg(tmc[0], 'default_attributes') is not None and try_fold(kwarg(tmc[0], 'default_attributes'), default=None) == {}
    ck.ob('PROV-map-blocks', mbm.loc(ab), okd, 'MappingBuilder._add_block instantiates the first block with `default_attributes={}` (no attribute that the force field does not declare)',
          key='PROV-map-blocks|no-defaults')
    # the origin / target blocks of a .mapping file are instantiated through Block.to_molecule: each atom gets what the force field declares for *it*
    from .c12 import to_molecule_fresh_atom
    to_molecule_fresh_atom(ck, 'PROV-map-blocks')
    shared.truthy_zero(ck, [FF, ITP, PU, MAP, 'vermouth/map_input.py'])
    ck.assume('token-level grammar, macro substitution results and .map weight arithmetic are not decided')


def link_atom_name_rule(ck, rule='PROV-sections'):
    """An atom name written on a link / modification [ atoms ] line is kept (docstring of _treat_atom_prefix: "If the atom name is explicitly specified, then
    it is not modified"): the line parser itself names the atom after its key only where no prefix treatment takes place.  Shared by C13 and C14 (the
    canonical names a modification gives its atoms are the declared ones)."""
    ff = ck.index.mod(FF)
    plk = ff.func('_parse_link_atom')
    ck.analysed(ff, plk)
    name_stores = stmts_with_env(plk, lambda s_: isinstance(s_, ast.Assign) and any(isinstance(t_, ast.Subscript) and isinstance(t_.value, ast.Name) and
                                                                                 try_fold(t_.slice, default=None) == 'atomname' for t_ in s_.targets))
    okn = True
    for _st, c_, _e in name_stores:
        renamed = flow.rename(c_, {k_: 'TP' for k_ in flow.atoms_of(c_) if k_[0] == 'truth' and k_[1] == 'treat_prefix'})
        okn = okn and flow.implies(renamed, flow.parse_formula('not TP'))[0]
    ck.ob(rule, ff.loc(plk), okn, 'an atom name given on a link / modification [ atoms ] line is kept: _parse_link_atom sets `atomname` itself only when the key is taken '
          'as it stands ({} store(s), all under `not treat_prefix`)'.format(len(name_stores)), key=rule + '|link-atom|explicit-name-kept')


def section_key_rule(ck):
    """Shared by C13 and C05 (a removal that loses its #meta filter removes the wrong interaction)."""
    ff = ck.index.mod(FF)
    ffd = ff.cls('FFDirector')
    # [ !bonds ] / [ !dihedrals ]: the removal marker is cut off the section name *before* the name is used as the key of the section-wide #meta and of the
    # interactions -- the two sibling line parsers agree (a `#meta` filed under '!dihedrals' is never found by the removal lines, which then match without it)
    from ..util import runs_after
    for sib in ('_interactions', '_dih_interactions'):
        sfn = method(ffd, sib)
        if sfn is None:
            continue
        ck.analysed(ff, sfn)
        users = [c_ for c_ in walk_local(sfn) if isinstance(c_, ast.Call) and call_name(c_) in ('_parse_meta', '_base_parser')]
        oks = bool(users)
        for c_ in users:
            sec = kwarg(c_, 'section')
            if not isinstance(sec, ast.Name):
                oks = False
                continue
            strips = [i_ for i_ in walk_local(sfn) if isinstance(i_, ast.If) and u(i_.test) == "{}.startswith('!')".format(sec.id) and
                      any(isinstance(a_, ast.Assign) and u(a_.targets[0]) == sec.id and u(a_.value) == '{}[1:]'.format(sec.id) for a_ in i_.body)]
            oks = oks and len(strips) == 1 and runs_after(sfn, strips[0], ff.stmt_of(c_)) and not any(c_ is x_ for x_ in ast.walk(strips[0]))
        ck.ob('SIB-section-key', ff.loc(sfn), oks, '{}: the section name handed to _parse_meta / _base_parser ({} call(s)) is the one with the removal marker "!" already cut off'.format(
            sib, len(users)), key='SIB-section-key|' + sib)


# ----------------------------------------------------------------- prefix / order normalisation (small-domain interpretation)
def _spec_prefix(reference, attributes):
    """Documented meaning of a link atom key + attributes (ffinput._treat_atom_prefix docstring, rst docs):
    returns ('raise',) or (key, order, atomname)."""
    import collections.abc
    import numbers
    if not reference:
        return ('raise',)
    k = 0
    while k < len(reference) and reference[k] in '+-><*':
        k += 1
    prefix, base = reference[:k], reference[k:]
    if not base or len(set(prefix)) > 1:
        return ('raise',)
    order_attr = attributes.get('order')
    pre_attr = ''
    if order_attr is not None:
        if isinstance(order_attr, numbers.Integral) and not isinstance(order_attr, bool):
            pre_attr = ('+' if order_attr > 0 else '-') * abs(order_attr)
        elif isinstance(order_attr, str) and order_attr and len(set(order_attr)) == 1 and order_attr[0] in '><*':
            pre_attr = order_attr
        else:
            return ('raise',)
    if prefix:
        order_pre = len(prefix) if prefix[0] == '+' else -len(prefix) if prefix[0] == '-' else prefix
        if order_attr is not None and order_attr != order_pre:
            return ('raise',)
        key = reference
    else:
        order_pre = 0
        key = pre_attr + base
    order = order_attr if order_attr is not None else order_pre
    return (key, order, attributes.get('atomname', base))


def prefix_order_table(ck, ff):
    import collections.abc
    import numbers
    fns = {}
    for name in ('_treat_atom_prefix', '_split_node_key', '_get_order_and_prefix_from_attributes', '_get_order_and_prefix_from_prefix'):
        fns[name] = ck.need(ff.functions.get(name), 'ffinput.{} vanished'.format(name))
        ck.analysed(ff, fns[name])
    consts = {'numbers.Integral': numbers.Integral, 'collections.abc.Sequence': collections.abc.Sequence, 'bool': bool}

    def make(name):
        fn = fns[name]
        params = [a.arg for a in fn.args.args]

        def impl(*args):
            env = dict(consts)
            env.update(helpers)
            env.update(zip(params, args))
            got = interp.call(fn.body, env)
            if isinstance(got, tuple) and got and got[0] == 'raise':
                raise _Raised()
            return got
        return impl

    class _Raised(Exception):
        pass
    helpers = {}
    for name in fns:
        helpers[name] = make(name)
    refs = ['BB', '+BB', '++BB', '-BB', '--BB', '>BB', '>>BB', '<BB', '<<BB', '*BB', '**BB', '+', '>>', '', '+-BB', '><BB', 'B+B', '-1', 'CA+', '+CA+', 'CL-', '-NA+', '>C*']
    orders = ['absent', None, 1, 2, -1, -2, 0, '>', '>>', '<', '<<', '*', '**', True, False, 'x', '+', '><', '', 1.0]
    bad = []
    n = 0
    try:
        for ref in refs:
            for order in orders:
                for atomname in ('absent', 'CA'):
                    attrs = {'resname': 'ALA'}
                    if order != 'absent' or order is True:
                        attrs['order'] = order
                    if isinstance(order, str) and order == 'absent':
                        attrs.pop('order', None)
                    if atomname != 'absent':
                        attrs['atomname'] = atomname
                    want = _spec_prefix(ref, attrs)
                    given = dict(attrs)
                    try:
                        out = helpers['_treat_atom_prefix'](ref, attrs)
                        got = (out[0], out[1].get('order'), out[1].get('atomname')) if isinstance(out, tuple) and len(out) == 2 and isinstance(out[1], dict) else ('?', out)
                        if got[0] != '?' and (out[1].get('resname') != 'ALA' or attrs != given):
                            got = ('other attributes changed or input dict mutated',)
                    except _Raised:
                        got = ('raise',)
                    except (TypeError, ValueError, IndexError, KeyError, AttributeError) as err:
                        got = ('python error', type(err).__name__)
                    n += 1
                    if got != want:
                        bad.append('key {!r} attrs {!r}: {} (documented {})'.format(ref, given, got, want))
    except interp.Unsupported as err:
        bad = ['decision code outside the interpretable fragment: {}'.format(err)]
    ck.extra['prefix_order_cases'] = n
    ck.ob('DT-prefix-order', ff.loc(fns['_treat_atom_prefix']), not bad,
          'key prefix and explicit order attribute mean the same thing: over {} (key, attributes) cases the interpreted _treat_atom_prefix '
          '(+ _split_node_key, _get_order_and_prefix_from_*) gives the documented key / order / atomname or the documented rejection{}'.format(
              n, '' if not bad else '; first differences: ' + ' || '.join(bad[:4])), key='DT-prefix-order|table')
    # the normalisation is applied to every link atom: the two callers
    for name, expect in (('_treat_link_interaction_atoms', 1), ('_parse_link_atom', 1)):
        fn = ck.need(ff.functions.get(name), 'ffinput.{} vanished'.format(name))
        ck.analysed(ff, fn)
        calls = [c for c in ast.walk(fn) if isinstance(c, ast.Call) and call_name(c) == '_treat_atom_prefix']
        ck.ob('DT-prefix-order', ff.loc(fn), len(calls) >= expect, '{} normalises key / order / atomname through _treat_atom_prefix ({} call(s))'.format(name, len(calls)),
              key='DT-prefix-order|caller|' + name)
