"""C14 -- every unrecognised atom is explained by a known modification or reported (narrow)."""
import ast
import itertools

from ..index import u, call_name, call_attr, walk_local, base_name
from .. import flow, interp
from ..fold import try_fold
from ..util import stmts_with_env, calls_with_env, assignments_to, single_def, kwarg, param_names, is_log_call, log_type
from .common import method, unconditional_in, atom_text
from . import shared

CM = 'vermouth/processors/canonicalize_modifications.py'
CANON = {'chain', 'resid', 'resname', 'insertion_code'}


def run(ck):
    idx = ck.index
    mod = idx.mod(CM)
    fp = mod.func('fix_ptm')
    pnm = mod.func('ptm_node_matcher')
    ap = mod.func('allowed_ptms')
    cg = mod.func('_cover_graph')
    for f in (fp, pnm, ap, cg):
        ck.analysed(mod, f)

    # ------------------------------------------------------------ PAIR: removal <-> unknown-input warning
    handlers = [h for h in ast.walk(fp) if isinstance(h, ast.ExceptHandler)]
    removals = [c for c in walk_local(fp) if isinstance(c, ast.Call) and call_attr(c) in ('remove_node', 'remove_nodes_from')]
    ck.ob('PAIR-remove-warn', mod.loc(fp), len(removals) >= 1, 'fix_ptm has a removal site for atoms no modification explains ({} found)'.format(len(removals)), key='PAIR-remove-warn|site')
    for r in removals:
        h = [x for x in handlers if any(r is n for n in ast.walk(x))]
        ok = len(h) == 1
        if ok:
            hb = h[0].body
            warns = [c for s in hb for c in ast.walk(s) if is_log_call(c, ('warning', 'error', 'critical')) and log_type(c) == 'unknown-input']
            ok = len(warns) == 1 and isinstance(hb[-1], ast.Continue) and 'KeyError' in u(h[0].type)
            # what is removed: the unrecognised atoms of the groups that could not be covered
            lp = [l for l in mod.ancestors(r) if isinstance(l, ast.For)]
            ok = ok and len(lp) >= 2 and u(lp[1].iter) == 'res_ptms' and u(lp[0].iter) == '{}[0]'.format(u(lp[1].target)) and u(r.args[0]) == u(lp[0].target)
        ck.ob('PAIR-remove-warn', mod.loc(r), ok, 'atoms are removed only in the handler of a failed cover, together with an unknown-input warning, and the handler skips the labelling (continue)',
              key='PAIR-remove-warn|paired')
    for h in handlers:
        has_rm = any(isinstance(c, ast.Call) and call_attr(c) in ('remove_node', 'remove_nodes_from') for s in h.body for c in ast.walk(s))
        ck.ob('PAIR-remove-warn', mod.loc(h), has_rm and not any(isinstance(s, ast.Pass) for s in h.body),
              'a failed cover is never passed over silently: its handler removes the atoms (and warns)', key='PAIR-remove-warn|handler')
    tries = [t for t in walk_local(fp) if isinstance(t, ast.Try)]
    ok = len(tries) == 1 and any(isinstance(s, ast.Assign) and call_name(s.value) == 'identify_ptms' for s in tries[0].body)
    ck.ob('PAIR-remove-warn', mod.loc(fp), ok, 'the cover search (identify_ptms) runs inside that try', key='PAIR-remove-warn|try')

    # ------------------------------------------------------------ MPT: labelling of the touched residues
    gl = [n for n in fp.body if isinstance(n, ast.For) and 'groupby' in u(n.iter)]
    ck.need(len(gl) == 1, 'fix_ptm: loop over the groups of unrecognised atoms not found')
    gl = gl[0]
    il = [n for n in gl.body if isinstance(n, ast.For) and u(n.iter) == 'identified']
    ok = len(il) == 1 and unconditional_in(fp, gl.body, il[0]) is False   # reached only on the non-exception path
    ok = len(il) == 1
    lab = None
    if ok:
        labs = [n for n in il[0].body if isinstance(n, ast.For) and u(n.iter) == 'n_idxs']
        ok = len(labs) == 1 and unconditional_in(fp, il[0].body, labs[0])
        if ok:
            lab = labs[0]
            app = stmts_with_env(fp, lambda s: isinstance(s, ast.Expr) and call_attr(s.value) == 'append' and "['modifications']" in u(s), stmts=lab.body)
            ok = len(app) == 1 and u(app[0][0].value.args[0]) == u(il[0].target.elts[0])
            if ok:
                atoms = flow.atoms_of(app[0][1])
                ok = all(('modification' in ' '.join(map(str, k))) for k in atoms)
    ck.ob('MPT-label', mod.loc(gl), ok, 'every identified modification is appended to the modifications of all atoms of the touched residues (skipped only where already annotated)',
          key='MPT-label|all-atoms')
    nd = [s for s in gl.body if isinstance(s, ast.Assign) and u(s.targets[0]) == 'n_idxs']
    upd = [s for s in ast.walk(gl) if isinstance(s, ast.Expr) and call_attr(s.value) == 'update' and u(s.value.func.value) == 'n_idxs']
    ck.ob('MPT-label', mod.loc(gl), len(nd) == 1 and u(nd[0].value) == 'set()' and len(upd) == 1 and 'resid_to_idxs[' in u(upd[0]),
          'the touched residues are all residues of the anchors of the group', key='MPT-label|touched')
    # the search space of a group is exactly what gets labelled afterwards: the atoms of the touched residues that are still there (not the whole molecule:
    # a modification placed with a context atom in a neighbouring residue would touch a residue that is never labelled)
    sp = {}
    for fname in ('allowed_ptms', 'identify_ptms'):
        cs = [c for c in ast.walk(gl) if isinstance(c, ast.Call) and call_name(c) == fname]
        if len(cs) == 1 and cs[0].args:
            a0 = cs[0].args[0]
            d0 = single_def(fp, a0.id) if isinstance(a0, ast.Name) else a0
            sp[fname] = u(d0) if d0 is not None else u(a0)
    ck.ob('MPT-label', mod.loc(gl), sp == {'allowed_ptms': 'molecule.subgraph(n_idxs - removed)', 'identify_ptms': 'molecule.subgraph(n_idxs - removed)'},
          'candidate modifications are looked for, and the cover is made, on the sub-graph of the touched residues minus the atoms already removed ({})'.format(sp),
          key='MPT-label|search-space')
    # canonical names / attribute changes
    ren = stmts_with_env(fp, lambda s: isinstance(s, ast.Assign) and u(s.targets[0]) == 'mol_node[attr]')
    ok = len(ren) == 1
    if ok:
        c = ren[0][1]
        ok = any(k[0] == 'truth' and k[1] == "ptm.nodes[ptm_idx]['PTM_atom']" for k in flow.atoms_of(c)) and u(ren[0][0].value) == 'ptm_node[attr]'
    else:
        # the same transfer as one `mol_node.update({attr: ptm_node[attr] for attr in ptm_node if attr not in (..)})` under the same guard
        upd = stmts_with_env(fp, lambda s: isinstance(s, ast.Expr) and isinstance(s.value, ast.Call) and call_attr(s.value) == 'update' and u(s.value.func.value) == 'mol_node'
                             and s.value.args and isinstance(s.value.args[0], ast.DictComp))
        if len(upd) == 1:
            dc = upd[0][0].value.args[0]
            excluded = [try_fold(c_.comparators[0], default=()) for i_ in dc.generators[0].ifs for c_ in [i_] if isinstance(c_, ast.Compare) and isinstance(c_.ops[0], ast.NotIn)]
            ok = any(k[0] == 'truth' and k[1] == "ptm.nodes[ptm_idx]['PTM_atom']" for k in flow.atoms_of(upd[0][1])) and u(dc.key) == u(dc.generators[0].target) and \
                u(dc.value) == 'ptm_node[{}]'.format(u(dc.key)) and u(dc.generators[0].iter) == 'ptm_node' and len(dc.generators) == 1 and \
                [set(e_) for e_ in excluded] == [{'PTM_atom', 'replace'}]
    ck.ob('MPT-label', mod.loc(fp), ok, 'atoms added by the modification take its canonical attributes (name included)', key='MPT-label|rename')

    # ------------------------------------------------------------ candidate modifications: induced matches, anchor by name, PTM atom by element
    bad = None
    n = 0
    dom_flag = [None, False, True]
    try:
        for p1, p2, e1, e2, a1, a2 in itertools.product(dom_flag, dom_flag, 'CN', 'CN', 'AB', 'AB'):
            n += 1
            n1 = {'element': e1, 'atomname': a1}
            n2 = {'element': e2, 'atomname': a2}
            if p1 is not None:
                n1['PTM_atom'] = p1
            if p2 is not None:
                n2['PTM_atom'] = p2
            got = interp.call(pnm.body, {param_names(pnm)[0]: n1, param_names(pnm)[1]: n2})
            f1, f2 = bool(p1), bool(p2)
            want = (f1 == f2) and ((e1 == e2) if f2 else (a1 == a2))
            if bool(got) != want or got is None:
                bad = 'molecule atom {} vs modification atom {}: code says {}, the rule says {}'.format(n1, n2, got, want)
                raise StopIteration
    except StopIteration:
        pass
    except interp.Unsupported as err:
        bad = 'outside the interpretable fragment: {}'.format(err)
    ck.ob('DT-ptm-matcher', mod.loc(pnm), bad is None,
          'two atoms match iff both are unrecognised (then by element) or both are recognised (then by name): {} valuations{}'.format(n, '' if bad is None else ' -- ' + bad),
          key='DT-ptm-matcher')
    mono = [c for c in ast.walk(mod.tree) if isinstance(c, ast.Call) and 'monomorph' in (call_attr(c) or '')]
    ck.ob('WMC-induced', CM, not mono, 'placements are induced subgraph isomorphisms: no monomorphism call in the module ({} found)'.format(len(mono)), key='WMC-induced|no-monomorphism')
    gm = [c for c in walk_local(ap) if isinstance(c, ast.Call) and (call_name(c) or '').endswith('GraphMatcher')]
    ok = len(gm) == 1 and u(kwarg(gm[0], 'node_match')) == 'ptm_node_matcher' and [u(a) for a in gm[0].args] == ['residue', 'ptm']
    test = [c for c in walk_local(ap) if isinstance(c, ast.Call) and call_attr(c) == 'subgraph_is_isomorphic']
    ck.ob('WMC-induced', mod.loc(ap), ok and len(test) == 1, 'candidate modifications are those with an induced match on the residue under ptm_node_matcher', key='WMC-induced|candidates')
    it = [c for c in walk_local(cg) if isinstance(c, ast.Call) and call_attr(c) == 'subgraph_isomorphisms_iter']
    ck.ob('WMC-induced', mod.loc(cg), len(it) == 1, 'the cover places modifications through subgraph_isomorphisms_iter', key='WMC-induced|cover')
    # exact cover: matched atoms are subtracted, failure raises
    rec = [c for c in walk_local(cg) if isinstance(c, ast.Call) and call_name(c) == '_cover_graph']
    ok = len(rec) == 1 and u(rec[0].args[1]) == 'to_cover - matching' and isinstance(cg.body[-1], ast.Raise) and 'KeyError' in u(cg.body[-1])
    guard = stmts_with_env(cg, lambda s: any(rec and rec[0] is n for n in ast.walk(s)) and isinstance(s, ast.Assign))
    ok = ok and len(guard) == 1 and any(k[0] == 'GtE' and k[1] == 'available' and k[2] in ('matching', 'set(match.keys())') for k in flow.atoms_of(guard[0][1]))
    ck.ob('MPT-cover', mod.loc(cg), ok, 'a modification is placed only on atoms still available, the atoms it covers are taken off the to-do set, and an impossible cover raises',
          key='MPT-cover')

    # ------------------------------------------------------------ every group of unrecognised atoms reaches the cover search
    fpa = mod.func('find_ptm_atoms')
    ck.analysed(mod, fpa)
    wl = [n for n in fpa.body if isinstance(n, ast.While)]
    ok = len(wl) == 1 and u(wl[0].test) == 'extra_atoms'
    if ok:
        app = [s_ for s_ in wl[0].body if isinstance(s_, ast.Expr) and call_attr(s_.value) == 'append' and u(s_.value.func.value) == 'ptms']
        ok = len(app) == 1 and u(app[0].value.args[0]) == '(atoms, anchors)' and unconditional_in(fpa, wl[0].body, app[0])
        sub = [s_ for s_ in wl[0].body if isinstance(s_, ast.AugAssign) and u(s_) == 'extra_atoms -= atoms']
        ok = ok and len(sub) == 1 and unconditional_in(fpa, wl[0].body, sub[0])
    ex = single_def(fpa, 'extra_atoms')
    ok = ok and ex is not None and "get('PTM_atom', False)" in u(ex) and "get('modifications')" in u(ex) and 'for n_idx in molecule' in u(ex)
    ck.ob('MPT-groups', mod.loc(fpa), ok, 'every connected group of unrecognised atoms is handed on with its anchors, whether it has anchors or not (an unanchored group must end in removal + warning)',
          key='MPT-groups|all-groups')
    ck.ob('MPT-groups', mod.loc(fp), u(single_def(fp, 'ptm_atoms') if single_def(fp, 'ptm_atoms') is not None else ast.Constant(None)) == 'find_ptm_atoms(molecule)' or
          any(u(v) == 'find_ptm_atoms(molecule)' for v in assignments_to(fp, 'ptm_atoms')), 'fix_ptm works on all of those groups', key='MPT-groups|consumed')
    # attribute replacements of a modification apply to every matched atom that declares them, added or anchor
    rep = stmts_with_env(fp, lambda s_: isinstance(s_, ast.Assign) and u(s_.targets[0]) == 'mol_node[attr_name]')
    ok = len(rep) == 1
    if ok:
        lp = [l for l in mod.ancestors(rep[0][0]) if isinstance(l, ast.For) and 'match.items()' in u(l.iter)]
        ok = len(lp) == 1
        if ok:
            rel = stmts_with_env(fp, lambda s_: s_ is rep[0][0], stmts=lp[0].body)
            names = {}
            for k in flow.atoms_of(rel[0][1]):
                if k[0] == 'In' and k[1] == "'replace'":
                    names[k] = 'HASREPLACE'
                elif k[0] == 'Eq' and 'mol_node.get(attr_name)' in atom_text(k) or (k[0] == 'Eq' and '.get(attr_name)' in atom_text(k)):
                    names[k] = 'SAMEVALUE'
            ok = flow.equivalent(flow.rename(rel[0][1], names), flow.parse_formula('HASREPLACE and not SAMEVALUE'))[0] and len(names) == len(flow.atoms_of(rel[0][1]))
    ck.ob('MPT-label', mod.loc(fp), ok, 'the attribute changes a modification declares for an atom are applied whether the atom is added by the modification or an anchor',
          key='MPT-label|replace')
    # .. and they have the last word: the canonical attributes of an added atom (name, element, resname of the template) are copied first, the declared
    # changes (`replace`) are applied after them -- the other way round the template value overwrites the change
    tmpl = [s_ for s_ in walk_local(fp) if isinstance(s_, ast.Assign) and u(s_.targets[0]) == 'mol_node[attr]' and u(s_.value) == 'ptm_node[attr]']
    if not tmpl:
        # the same transfer spelled as one update: mol_node.update({attr: ptm_node[attr] for attr in ptm_node if ..})
        tmpl = [s_ for s_ in walk_local(fp) if isinstance(s_, ast.Expr) and isinstance(s_.value, ast.Call) and call_attr(s_.value) == 'update' and
                u(s_.value.func.value) == 'mol_node' and s_.value.args and 'ptm_node' in u(s_.value.args[0])]
        if not tmpl:
            tmpl = [s_ for s_ in walk_local(fp) if isinstance(s_, ast.Expr) and isinstance(s_.value, ast.Call) and call_attr(s_.value) == 'update' and
                    u(s_.value.func.value) == 'mol_node' and s_.value.args and isinstance(s_.value.args[0], ast.Name) and
                    any('ptm_node' in u(d_) for d_ in assignments_to(fp, s_.value.args[0].id))]
    from ..util import runs_after
    okord = len(tmpl) == 1 and len(rep) == 1 and runs_after(fp, mod.stmt_of(tmpl[0]), rep[0][0]) and not runs_after(fp, rep[0][0], mod.stmt_of(tmpl[0])) \
        if len(rep) == 1 and len(tmpl) == 1 else False
    if len(tmpl) == 1 and len(rep) == 1:
        # both sit in the loop over the match: "after" must hold inside one iteration (compare their positions in the loop body)
        body_ = lp[0].body if ok or (len(rep) == 1 and lp) else []
        pos = {id(x): i for i, st_ in enumerate(body_) for x in ast.walk(st_)}
        okord = id(tmpl[0]) in pos and id(rep[0][0]) in pos and pos[id(tmpl[0])] < pos[id(rep[0][0])]
    ck.ob('MPT-label', mod.loc(fp), okord, 'the template attributes of an added atom are copied before the declared attribute changes are applied, so the changes win',
          key='MPT-label|replace-last')

    # ------------------------------------------------------------ KEY: what a residue is
    nk = 0
    for module, qual, fn in idx.all_functions():
        for c in walk_local(fn):
            if isinstance(c, ast.Call) and (call_name(c) or '').split('.')[-1] in ('make_residue_graph', 'collect_residues'):
                attrs = c.args[1] if len(c.args) > 1 else kwarg(c, 'attrs')
                if module.rel == 'vermouth/graph_utils.py' and isinstance(attrs, ast.Name):
                    continue   # make_residue_graph passing its own parameter on
                nk += 1
                val = try_fold(attrs, default=None) if attrs is not None else None
                ok = attrs is None or (isinstance(val, (list, tuple)) and set(val) >= CANON)
                ck.ob('KEY-residue', module.loc(c), ok, '{}: residues are partitioned by {}'.format(qual, 'the canonical key (default)' if attrs is None else val),
                      key='KEY-residue|{}|{}'.format(module.rel, qual))
    ck.expect_count('KEY-residue partition sites', nk, 6)
    gu = idx.mod('vermouth/graph_utils.py')
    for name in ('make_residue_graph', 'collect_residues'):
        f = gu.func(name)
        d = f.args.defaults
        val = try_fold(d[-1], default=None) if d else None
        ck.ob('KEY-residue', gu.loc(f), isinstance(val, tuple) and set(val) == CANON, '{} groups by {} by default'.format(name, val), key='KEY-residue|default|' + name)
    # ad-hoc groupings in fix_ptm
    adhoc = []
    for s in walk_local(fp):
        if isinstance(s, ast.Expr) and call_attr(s.value) == 'append' and isinstance(s.value.func.value, ast.Subscript):
            key = s.value.func.value.slice
            kd = single_def(fp, u(key)) if isinstance(key, ast.Name) else key
            if kd is not None and "['resid']" in u(kd) and 'nodes[' in u(kd):
                adhoc.append((s, u(kd)))
    kf = fp.body and [f for f in ast.walk(fp) if isinstance(f, ast.FunctionDef) and f.name == 'key_func']
    for s, kd in adhoc:
        ck.ob('KEY-residue', mod.loc(s), False, 'fix_ptm groups the atoms of "a residue" by `{}` alone: the same number in another chain of the molecule is the same group'.format(kd),
              key='KEY-residue|fix_ptm|resid-only')
    if not adhoc:
        ck.ob('KEY-residue', mod.loc(fp), True, 'fix_ptm has no ad-hoc grouping by resid alone', key='KEY-residue|fix_ptm|resid-only')
    from .c13 import link_atom_name_rule
    link_atom_name_rule(ck, 'PROV-declared-names')
    shared.truthy_zero(ck, [CM])
    shared.runs_every_molecule(ck, 'vermouth/processors/canonicalize_modifications.py', 'CanonicalizeModifications', 'MPT-every-molecule')
    # every group of unexplained atoms reaches the decision "identified -> labelled / not identified -> removed with a warning": nothing returns before, nothing skips a group
    fp_ = ck.index.mod(CM).func('fix_ptm')
    gl_ = [l for l in fp_.body if isinstance(l, ast.For) and 'groupby' in u(l.iter)]
    cm_ = ck.index.mod(CM)
    early = [r for r in ast.walk(fp_) if isinstance(r, ast.Return) and cm_.enclosing_function(r) is fp_]
    ok = len(gl_) == 1 and not early and unconditional_in(fp_, fp_.body, gl_[0]) and 'groupby(ptm_atoms' in u(gl_[0].iter)
    if ok:
        tries = [t for t in gl_[0].body if isinstance(t, ast.Try)]
        ok = len(tries) == 1 and unconditional_in(fp_, gl_[0].body, tries[0]) and not any(isinstance(n, ast.Break) for n in ast.walk(gl_[0]))
    ck.ob('MPT-groups', ck.index.mod(CM).loc(fp_), ok, 'fix_ptm has no early exit: every residue group with unexplained atoms is put to identify_ptms, whatever the force field defines',
          key='MPT-groups|no-early-exit')
    from .c04 import unrecognised_rules
    unrecognised_rules(ck, 'PROV-unrecognised')
    ck.assume('the cover search itself (exactly one, induced, preference for larger modifications) is decided only in the structural parts listed')
