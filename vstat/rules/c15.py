"""C15 -- elastic-network bonds are exactly the pairs meeting every stated criterion."""
import ast
import itertools
import math

from ..index import u, call_name, call_attr, walk_local, base_name
from .. import flow, interp
from ..fold import try_fold
from ..util import stmts_with_env, calls_with_env, assignments_to, single_def, kwarg, param_names
from .common import method, unconditional_in, atom_text
from . import shared

RB = 'vermouth/processors/apply_rubber_band.py'
MOL = 'vermouth/molecule.py'


def numeval(node, env):
    """Numeric value of an arithmetic expression AST (own evaluator)."""
    t = u(node)
    if t in env:
        return env[t]
    if isinstance(node, ast.Constant) and isinstance(node.value, (int, float)):
        return node.value
    if isinstance(node, ast.UnaryOp) and isinstance(node.op, ast.USub):
        return -numeval(node.operand, env)
    if isinstance(node, ast.BinOp):
        l, r = numeval(node.left, env), numeval(node.right, env)
        if isinstance(node.op, ast.Mult):
            return l * r
        if isinstance(node.op, ast.Add):
            return l + r
        if isinstance(node.op, ast.Sub):
            return l - r
        if isinstance(node.op, ast.Div):
            return l / r
        if isinstance(node.op, ast.Pow):
            return l ** r
    if isinstance(node, ast.Call):
        name = call_name(node) or ''
        args = [numeval(a, env) for a in node.args]
        fn = name.split('.')[-1]
        if fn == 'exp':
            return math.exp(args[0])
        if fn in ('abs', 'absolute', 'fabs'):
            return abs(args[0])
        if fn == 'power':
            return args[0] ** args[1]
        if fn == 'sqrt':
            return math.sqrt(args[0])
    raise ValueError(t)


def mask_formula(expr, resolve):
    """Boolean-matrix expression -> formula (~ & | are the connectives)."""
    if isinstance(expr, ast.UnaryOp) and isinstance(expr.op, ast.Invert):
        return flow.NOT(mask_formula(expr.operand, resolve))
    if isinstance(expr, ast.BinOp) and isinstance(expr.op, ast.BitAnd):
        return flow.AND(mask_formula(expr.left, resolve), mask_formula(expr.right, resolve))
    if isinstance(expr, ast.BinOp) and isinstance(expr.op, ast.BitOr):
        return flow.OR(mask_formula(expr.left, resolve), mask_formula(expr.right, resolve))
    if isinstance(expr, ast.Call) and call_name(expr) in ('np.logical_not', 'numpy.logical_not'):
        return flow.NOT(mask_formula(expr.args[0], resolve))
    if isinstance(expr, ast.Call) and call_name(expr) in ('np.logical_and', 'numpy.logical_and'):
        return flow.AND(*[mask_formula(a, resolve) for a in expr.args])
    return resolve(expr)


def known_attrs(ck):
    """Attributes an instance of Molecule certainly has, plus the prefixes its __getattr__ serves."""
    mol = ck.index.mod(MOL)
    cls = mol.cls('Molecule')
    nxg = ck.index.networkx_graph_module().cls('Graph')
    names = set()
    for c in (cls, nxg):
        for item in c.body:
            if isinstance(item, (ast.FunctionDef,)):
                names.add(item.name)
                if item.name == '__init__':
                    for n in ast.walk(item):
                        if isinstance(n, ast.Attribute) and isinstance(n.ctx, ast.Store) and isinstance(n.value, ast.Name) and n.value.id == 'self':
                            names.add(n.attr)
            elif isinstance(item, ast.Assign):
                for t in item.targets:
                    if isinstance(t, ast.Name):
                        names.add(t.id)
    ga = method(cls, '__getattr__')
    prefixes = []
    if ga is not None:
        for c in ast.walk(ga):
            if isinstance(c, ast.Call) and call_attr(c) == 'startswith' and c.args and isinstance(c.args[0], ast.Constant):
                prefixes.append(c.args[0].value)
    return names, prefixes


def run(ck):
    idx = ck.index
    mod = idx.mod(RB)
    arb = mod.func('apply_rubber_band')
    cfc = mod.func('compute_force_constants')
    dec = mod.func('compute_decay')
    bcm = mod.func('build_connectivity_matrix')
    bpm = mod.func('build_pair_matrix')
    for f in (arb, cfc, dec, bcm, bpm):
        ck.analysed(mod, f)
    P = param_names(arb)
    molp = P[0]

    # ------------------------------------------------------------ NORAISE: NaN bail-out
    nan_ifs = [n for n in arb.body if isinstance(n, ast.If) and 'isnan' in u(n.test)]
    ck.ob('NORAISE-nan', mod.loc(arb), len(nan_ifs) == 1, 'one NaN test guards the network construction ({} found)'.format(len(nan_ifs)), key='NORAISE-nan|test')
    if len(nan_ifs) == 1:
        ni = nan_ifs[0]
        ck.ob('NORAISE-nan', mod.loc(ni), 'np.any(np.isnan(coordinates))' in u(ni.test).replace('numpy', 'np') and isinstance(ni.body[-1], ast.Return) and
              (ni.body[-1].value is None), 'a selection with NaN coordinates leaves the function by a plain return (no network)', key='NORAISE-nan|return')
        names, prefixes = known_attrs(ck)
        bad = []
        nattr = 0
        for st in ni.body:
            for n in ast.walk(st):
                if isinstance(n, ast.Attribute) and isinstance(n.value, ast.Name) and n.value.id == molp:
                    nattr += 1
                    if n.attr not in names and not any(n.attr.startswith(p) for p in prefixes):
                        bad.append('{}.{}'.format(molp, n.attr))
                if isinstance(n, ast.Subscript) and not (isinstance(n.value, ast.Attribute) and n.value.attr in ('nodes',)):
                    if isinstance(n.slice, ast.Constant) and isinstance(n.slice.value, str) and base_name(n) == molp:
                        bad.append(u(n) + ' (KeyError when absent)')
                if isinstance(n, ast.Raise):
                    bad.append('raise')
        ck.ob('NORAISE-nan', mod.loc(ni), not bad,
              'nothing on the NaN path can raise by construction: attribute reads on the molecule are defined attributes of Molecule or served by its __getattr__ '
              '({} read(s){})'.format(nattr, '; offending: ' + ', '.join(bad) if bad else ''), key='NORAISE-nan|no-raise')
        logs = [c for st in ni.body for c in ast.walk(st) if isinstance(c, ast.Call) and call_attr(c) in ('warning', 'error', 'critical') and 'LOG' in u(c.func).upper()]
        ck.ob('NORAISE-nan', mod.loc(ni), len(logs) == 1 and kwarg(logs[0], 'type') is not None, 'the NaN path logs a typed warning', key='NORAISE-nan|warns')
        # the test comes before any matrix work
        pos = arb.body.index(ni)
        later = [s for s in arb.body[:pos] if any(isinstance(c, ast.Call) and call_name(c) in ('self_distance_matrix', 'compute_force_constants') for c in ast.walk(s))]
        ck.ob('NORAISE-nan', mod.loc(ni), not later, 'the NaN test precedes the distance and force-constant matrices', key='NORAISE-nan|first')

    # ------------------------------------------------------------ DT (mask form): which pairs survive
    cp = param_names(cfc)
    ck.need(len(cp) == 7, 'compute_force_constants signature changed')
    dm, lb, ub, dfac, dpow, base, minf = cp
    mat = None
    events = []
    for st in cfc.body:
        if isinstance(st, ast.Expr) and isinstance(st.value, ast.Constant):
            continue
        if interp._is_log_stmt(st):
            continue
        if isinstance(st, ast.Assign) and isinstance(st.targets[0], ast.Name) and isinstance(st.value, ast.Call) and call_name(st.value) == 'compute_decay':
            mat = st.targets[0].id
            events.append(('decay', st, [u(a) for a in st.value.args]))
        elif mat and isinstance(st, ast.Expr) and call_name(st.value) in ('np.fill_diagonal', 'numpy.fill_diagonal') and u(st.value.args[0]) == mat:
            events.append(('diag', st, try_fold(st.value.args[1], default='?')))
        elif mat and isinstance(st, ast.AugAssign) and u(st.target) == mat and isinstance(st.op, ast.Mult):
            events.append(('scale', st, u(st.value)))
        elif mat and isinstance(st, ast.Assign) and isinstance(st.targets[0], ast.Subscript) and u(st.targets[0].value) == mat:
            events.append(('mask', st, st.targets[0].slice, st.value))
        elif isinstance(st, ast.Return):
            events.append(('return', st, u(st.value)))
        else:
            events.append(('other', st, u(st)))
    kinds = [e[0] for e in events]
    ck.ob('DT-pair-filter', mod.loc(cfc), 'other' not in kinds and kinds.count('decay') == 1 and kinds[-1] == 'return' and events[-1][2] == mat,
          'compute_force_constants is a straight sequence of matrix operations on `{}`: {}'.format(mat, kinds), key='DT-pair-filter|shape')
    dargs = next((e[2] for e in events if e[0] == 'decay'), [])
    ck.ob('DT-pair-filter', mod.loc(cfc), dargs == [dm, lb, dfac, dpow], 'decay is computed from (distance, shift=lower_bound, rate=decay_factor, power=decay_power): {}'.format(dargs),
          key='DT-pair-filter|decay-args')
    survive = True
    order = {}
    cap_ok = False
    names = {}
    for i, e in enumerate(events):
        if e[0] == 'diag':
            survive = flow.AND(survive, flow.NOT(('atom', 'DIAG'))) if e[2] == 0 else survive
            order['diag'] = i
        elif e[0] == 'scale':
            order['scale'] = i
            ck.ob('DT-pair-filter', mod.loc(e[1]), e[2] == base, 'the decay factor is scaled by the base constant (`{}`)'.format(u(e[1])), key='DT-pair-filter|scale')
        elif e[0] == 'mask':
            m, val = e[2], e[3]
            v = try_fold(val, default=None)
            if isinstance(m, ast.Compare) and len(m.ops) == 1:
                a = flow.atom_of_compare(m.left, m.ops[0], m.comparators[0])
                key = a[1] if a[0] == 'atom' else a[1][1]
                if key == ('Gt', minf, mat) and a[0] == 'atom':
                    nm = 'LOWK'
                elif key == ('Gt', dm, ub) and a[0] == 'atom':
                    nm = 'UP'
                elif key == ('Gt', mat, base) and a[0] == 'atom':
                    nm = 'OVER'
                else:
                    nm = None
                if nm == 'OVER':
                    cap_ok = u(val) == base
                    order['cap'] = i
                elif nm in ('LOWK', 'UP') and v == 0:
                    survive = flow.AND(survive, flow.NOT(('atom', nm)))
                    order[nm] = i
                else:
                    survive = flow.AND(survive, flow.NOT(('atom', ('unrecognised mask', u(m), u(val)))))
            else:
                survive = flow.AND(survive, flow.NOT(('atom', ('unrecognised mask', u(m), u(val)))))
    ck.ob('DT-pair-filter', mod.loc(cfc), cap_ok, 'constants above the base constant are set back to the base constant (cap, not removal)', key='DT-pair-filter|cap')
    ck.ob('DT-pair-filter', mod.loc(cfc), 'scale' in order and all(order.get(k, -1) > order['scale'] for k in ('LOWK', 'cap')),
          'the minimum-force and cap comparisons are made on the scaled constants (order of operations {})'.format(order), key='DT-pair-filter|order')
    # apply_rubber_band: wiring and the connectivity/domain mask
    calls = calls_with_env(arb, lambda c: call_name(c) == 'compute_force_constants')
    ck.need(len(calls) == 1, 'apply_rubber_band: call to compute_force_constants not found')
    cargs = [u(a) for a in calls[0][0].args]
    ck.ob('DT-pair-filter', mod.loc(calls[0][0]), cargs[1:] == ['lower_bound', 'upper_bound', 'decay_factor', 'decay_power', 'base_constant', 'minimum_force'] and
          'self_distance_matrix(coordinates)' in u(flow.subst(calls[0][0].args[0], calls[0][3])),
          'the force constants are computed from the distance matrix of the selection and the six numeric parameters, in order', key='DT-pair-filter|wiring')
    kname = u(arb.body[[i for i, s in enumerate(arb.body) if any(c is calls[0][0] for c in ast.walk(s))][0]].targets[0])

    def resolve(expr):
        if isinstance(expr, ast.Name):
            d = single_def(arb, expr.id)
            if d is None:
                return ('atom', ('unresolved', expr.id))
            if isinstance(d, ast.Call) and call_name(d) == 'build_connectivity_matrix':
                a = [u(x) for x in d.args] + ['{}={}'.format(k.arg, u(k.value)) for k in d.keywords]
                ok = a in ([molp, 'res_min_dist', 'node_to_idx', 'selected_nodes=selection'], [molp, 'res_min_dist', 'node_to_idx', 'selection'])
                return ('atom', 'CONN' if ok else ('connectivity with other arguments', tuple(a)))
            if isinstance(d, ast.Call) and call_name(d) == 'build_pair_matrix':
                a = [u(x) for x in d.args] + ['{}={}'.format(k.arg, u(k.value)) for k in d.keywords]
                ok = a in ([molp, 'domain_criterion', 'idx_to_node', 'selected_nodes=selection'], [molp, 'domain_criterion', 'idx_to_node', 'selection'])
                return ('atom', 'DOM' if ok else ('pair matrix with other arguments', tuple(a)))
            return mask_formula(d, resolve)
        return ('atom', ('unrecognised matrix', u(expr)))
    mults = [s for s in arb.body if isinstance(s, ast.AugAssign) and u(s.target) == kname and isinstance(s.op, ast.Mult)]
    other_k = [s for s in arb.body if isinstance(s, (ast.Assign, ast.AugAssign)) and s not in mults and
               any(base_name(t) == kname for t in (s.targets if isinstance(s, ast.Assign) else [s.target])) and not any(c is calls[0][0] for c in ast.walk(s))]
    for s in mults:
        survive = flow.AND(survive, mask_formula(s.value, resolve))
    ck.ob('DT-pair-filter', mod.loc(arb), len(mults) == 1 and not other_k, 'the constants are multiplied once by the "can be linked" matrix and not modified otherwise',
          key='DT-pair-filter|mask-site')
    # emission
    emits = stmts_with_env(arb, lambda s: isinstance(s, ast.Expr) and call_attr(s.value) == 'add_interaction')
    ck.ob('MPT-emission', mod.loc(arb), len(emits) == 1, 'exactly one bond-emission site ({} found)'.format(len(emits)), key='MPT-emission|single')
    if len(emits) == 1:
        st, cond, env = emits[0]
        loop = mod.enclosing(st, ast.For)
        rel = stmts_with_env(arb, lambda s: s is st, stmts=loop.body)
        c, e = rel[0][1], rel[0][2]
        fi, ti = [u(x) for x in loop.target.elts] if isinstance(loop.target, ast.Tuple) else ('?', '?')
        ek = {}
        for k in flow.atoms_of(c):
            if k[0] == 'Gt' and k[1] == '{}[{}, {}]'.format(kname, fi, ti) and k[2] == 'minimum_force':
                ek[k] = 'EMIT'
        kept = flow.AND(survive, flow.rename(c, ek))
        want = flow.parse_formula('not DIAG and not LOWK and not UP and not CONN and DOM and EMIT')
        eq, cex, rows = flow.equivalent(kept, want)
        unknown = [k for k in flow.atoms_of(kept) if not isinstance(k, str)]
        ck.ob('DT-pair-filter', mod.loc(st), eq and not unknown,
              'a pair gets a bond exactly when: not the same atom, constant not below the minimum force, distance not above the upper bound, residues not within '
              'res_min_dist, same domain, and constant > minimum force ({} rows){}'.format(
                  rows, '' if eq and not unknown else ' -- found: ' + flow.show(kept)[:300]), key='DT-pair-filter|guard')
        ok = isinstance(loop.iter, ast.Call) and call_name(loop.iter) == 'zip' and len(loop.iter.args) == 1 and isinstance(loop.iter.args[0], ast.Starred) and \
            u(loop.iter.args[0].value) in ('np.triu_indices_from({})'.format(kname), 'numpy.triu_indices_from({})'.format(kname))
        ck.ob('MPT-emission', mod.loc(loop), ok, 'pairs are visited once each, over the upper triangle of the constants matrix (`{}`)'.format(u(loop.iter)), key='MPT-emission|triangle')
        call = st.value
        atoms = flow.subst(kwarg(call, 'atoms'), e)
        params = flow.subst(kwarg(call, 'parameters'), e)
        ok = u(atoms) == '(idx_to_node[selection[{}]], idx_to_node[selection[{}]])'.format(fi, ti)
        ck.ob('SIB-index-space', mod.loc(st), ok, 'matrix indices are translated to node keys through the selection, exactly once (`{}`)'.format(u(atoms)), key='SIB-index-space|emission')
        dmat = [s for s in arb.body if isinstance(s, ast.Assign) and u(s.targets[0]) == 'distance_matrix']
        ok = isinstance(params, ast.List) and len(params.elts) == 3 and u(params.elts[0]) == 'bond_type' and u(params.elts[2]) == '{}[{}, {}]'.format(kname, fi, ti) and \
            u(params.elts[1]) == 'distance_matrix[{}, {}]'.format(fi, ti) and any(u(s.value) == 'distance_matrix.round(5)' for s in dmat)
        ck.ob('MPT-emission', mod.loc(st), ok, 'the bond carries the bond type, the distance of that pair rounded to 5 decimals, and the constant of that pair', key='MPT-emission|parameters')
        ck.ob('MPT-emission', mod.loc(st), try_fold(kwarg(call, 'type_')) == 'bonds' and try_fold(kwarg(call, 'meta')) == {'group': 'Rubber band'},
              'bonds are emitted in the Rubber band group', key='MPT-emission|group')
    # decay formula
    ret = [s for s in dec.body if isinstance(s, ast.Return)]
    ck.need(len(ret) == 1, 'compute_decay: single return not found')
    d_, s_, r_, p_ = param_names(dec)
    bad = None
    n = 0
    for d, s, r, p in itertools.product((0.3, 0.5, 0.9), (0.0, 0.5, 0.7), (0.0, 0.8, 6.0), (0, 1, 2, 3)):
        n += 1
        try:
            got = numeval(ret[0].value, {d_: d, s_: s, r_: r, p_: p})
        except (ValueError, ZeroDivisionError, OverflowError) as err:
            bad = 'cannot evaluate {} ({})'.format(u(ret[0].value), err)
            break
        want_v = math.exp(-r * (d - s) ** p)
        if abs(got - want_v) > 1e-12 * max(1.0, abs(want_v)):
            bad = 'for d={}, lower={}, a={}, p={} the code gives {:.6g}, exp(-a(d-lower)^p) is {:.6g}'.format(d, s, r, p, got, want_v)
            break
    ck.ob('DT-decay', mod.loc(ret[0]), bad is None, 'the decay is exp(-a (d - lower)^p) on {} sample points{}'.format(n, '' if bad is None else ' -- ' + bad), key='DT-decay')

    # ------------------------------------------------------------ SIB: one index space
    loops = [n_ for n_ in arb.body if isinstance(n_, ast.For) and 'enumerate' in u(n_.iter) and 'nodes' in u(n_.iter)]
    ck.need(len(loops) == 1, 'apply_rubber_band: selection loop not found')
    sl = loops[0]
    iv = u(sl.target.elts[0])
    kv, av = [u(x) for x in sl.target.elts[1].elts]
    t1 = [s for s in sl.body if isinstance(s, ast.Assign) and u(s.targets[0]) == 'node_to_idx[{}]'.format(kv) and u(s.value) == iv]
    t2 = [s for s in sl.body if isinstance(s, ast.Assign) and u(s.targets[0]) == 'idx_to_node[{}]'.format(iv) and u(s.value) == kv]
    ck.ob('SIB-index-space', mod.loc(sl), len(t1) == 1 and len(t2) == 1 and unconditional_in(arb, sl.body, t1[0]) and unconditional_in(arb, sl.body, t2[0]),
          'every node gets one index, recorded in both directions, unconditionally', key='SIB-index-space|tables')
    sel_app = stmts_with_env(arb, lambda s: isinstance(s, ast.Expr) and call_attr(s.value) == 'append' and u(s.value.func.value) == 'selection', stmts=sl.body)
    crd_app = stmts_with_env(arb, lambda s: isinstance(s, ast.Expr) and call_attr(s.value) == 'append' and u(s.value.func.value) == 'coordinates', stmts=sl.body)
    ok = len(sel_app) == 1 and len(crd_app) == 1 and flow.equivalent(sel_app[0][1], crd_app[0][1])[0] and \
        flow.equivalent(sel_app[0][1], ('atom', ('truth', 'selector({})'.format(av))))[0] and u(sel_app[0][0].value.args[0]) == iv and \
        "{}.get('position')".format(av) in u(crd_app[0][0].value.args[0])
    ck.ob('SIB-index-space', mod.loc(sl), ok, 'the selection list and the coordinate list grow together, under the selector, with the index and position of the same atom',
          key='SIB-index-space|selection')
    for fn, what in ((bcm, 'connectivity'), (bpm, 'pair')):
        r = [s for s in fn.body if isinstance(s, ast.Return)]
        sp = param_names(fn)[-1]
        ok = len(r) == 1 and isinstance(r[0].value, ast.Subscript) and u(r[0].value.slice) == sp and u(r[0].value.value.slice) == '(slice(None, None, None), {})'.format(sp) \
            if False else (len(r) == 1 and u(r[0].value).endswith('[:, {0}][{0}]'.format(sp)))
        ck.ob('SIB-index-space', mod.loc(fn), ok, 'the {} matrix is restricted to the selection on both axes (`{}`)'.format(what, u(r[0].value) if r else '?'),
              key='SIB-index-space|restrict|' + what)
    # connectivity fill is symmetric and complete
    stores = [s for s in ast.walk(bcm) if isinstance(s, ast.Assign) and isinstance(s.targets[0], ast.Subscript) and u(s.targets[0].value) == 'connectivity']
    tops = [n_ for n_ in bcm.body if isinstance(n_, ast.For)]
    ok = len(stores) == 1 and len(tops) == 1 and try_fold(stores[0].value) is True and unconditional_in(bcm, tops[0].body, stores[0])
    dp = single_def(bcm, 'distance_pairs')
    ok = ok and dp is not None and u(dp) == 'nx.all_pairs_shortest_path_length(res_graph, cutoff={})'.format(param_names(bcm)[1]) and u(tops[0].iter) == 'distance_pairs'
    ok = ok and u(single_def(bcm, 'res_graph')) == 'make_residue_graph({})'.format(param_names(bcm)[0])
    if ok:
        ok = u(stores[0].targets[0].slice) == '(node_to_idx[origin], node_to_idx[target])' and 'itertools.product(origin_nodes, target_nodes)' in u(tops[0])
    if not ok and len(tops) == 1:
        # another spelling of the double loop: interpreted on two residues (2 and 1 atoms) that are within the separation of each other
        import itertools as _it

        class _G(interp.Model):
            def __init__(self, members):
                self._m = members

            def nodes(self):
                return list(self._m)

            def __iter__(self):
                return iter(self._m)
        conn_ = {}
        env_ = {'distance_pairs': [(1, {1: 0, 2: 1}), (2, {2: 0, 1: 1})], 'res_graph.nodes': {1: {'graph': _G(['a', 'b'])}, 2: {'graph': _G(['c'])}},
                'node_to_idx': {'a': 0, 'b': 1, 'c': 2}, 'connectivity': conn_, 'itertools.product': lambda *a: list(_it.product(*a)), 'product': lambda *a: list(_it.product(*a))}
        try:
            interp.run_stmts([tops[0]], env_)
            ok = set(conn_) == {(i, j) for i in range(3) for j in range(3)} and all(v is True for v in conn_.values()) and \
                u(single_def(bcm, 'res_graph')) == 'make_residue_graph({})'.format(param_names(bcm)[0]) and \
                (dp is not None and u(dp) == 'nx.all_pairs_shortest_path_length(res_graph, cutoff={})'.format(param_names(bcm)[1]))
        except (interp.Unsupported, interp.Returned, KeyError, TypeError):
            ok = False
    ck.ob('PROV-connectivity', mod.loc(bcm), ok, 'every pair of atoms of every two residues within the separation on the residue graph is marked connected, unconditionally (both orders)',
          key='PROV-connectivity|fill')
    st2 = [s for s in ast.walk(bpm) if isinstance(s, ast.Assign) and isinstance(s.targets[0], ast.Subscript) and u(s.targets[0].value) == 'share_domain']
    ok = len(st2) == 2 and any('criterion(graph, ' in u(s.value) for s in st2) and any(u(s.targets[0].slice) == '(jdx, kdx)' and u(s.value) == 'share_domain[kdx, jdx]' for s in st2)
    ck.ob('PROV-connectivity', mod.loc(bpm), ok and 'itertools.combinations(selected_nodes, 2)' in u(bpm),
          'the domain matrix holds the criterion for every selected pair, symmetrically', key='PROV-connectivity|domain')
    # ------------------------------------------------------------ the processor hands its settings on unchanged; only None falls back
    cls = mod.cls('ApplyRubberBand')
    rmol = ck.need(method(cls, 'run_molecule'), 'ApplyRubberBand.run_molecule vanished')
    ck.analysed(mod, rmol)
    calls = calls_with_env(rmol, lambda c: call_name(c) == 'apply_rubber_band')
    ok = len(calls) == 1
    if ok:
        c, st, cond, env = calls[0]
        want = {'lower_bound': 'self.lower_bound', 'upper_bound': 'self.upper_bound', 'decay_factor': 'self.decay_factor', 'decay_power': 'self.decay_power',
                'base_constant': 'self.base_constant', 'minimum_force': 'self.minimum_force', 'domain_criterion': 'self.domain_criterion'}
        ok = all(u(kwarg(c, k)) == v for k, v in want.items()) and [u(a) for a in c.args[:2]] == ['molecule', 'self.selector'] and flow.valid(cond)
    ck.ob('PROV-settings', mod.loc(rmol), ok, 'the numeric settings, the selector and the domain criterion reach apply_rubber_band exactly as configured', key='PROV-settings|passthrough')
    for name, var in (('res_min_dist', 'self.res_min_dist_variable'), ('bond_type', 'self.bond_type_variable')):
        good = bool(calls) and u(kwarg(calls[0][0], name)) == name
        if good:
            # what the local holds at the call, whichever way the choice is spelled (default then override, if/else, conditional expression)
            table = flow.value_table(rmol, name, lambda s_: s_ is calls[0][1])
            rows = {t: c_ for c_, t in (table or [])}
            plain = [c_ for t, c_ in rows.items() if t == 'self.' + name]
            fall = [c_ for t, c_ in rows.items() if 'force_field.variables.get(' + var in t]
            good = len(rows) == 2 and len(plain) == 1 and len(fall) == 1
            if good:
                names = {}
                for k in flow.atoms_of(fall[0]) | flow.atoms_of(plain[0]):
                    if k[0] == 'Is' and set(k[1:]) == {'None', 'self.' + name}:
                        names[k] = 'UNSET'
                good = flow.equivalent(flow.rename(fall[0], names), flow.parse_formula('UNSET'))[0] and len(names) == len(flow.atoms_of(fall[0])) and \
                    flow.equivalent(flow.rename(plain[0], names), flow.parse_formula('not UNSET'))[0]
        ck.ob('PROV-settings', mod.loc(rmol), good, '{} is the configured value; only when it is None (not merely 0) the force field variable / default is used'.format(name),
              key='PROV-settings|' + name)
    # domain criteria
    sc = mod.func('same_chain')
    ck.ob('DT-domain', mod.loc(sc), u(sc.body[-1].value) == "node_left.get('chain') == node_right.get('chain')" and
          u(single_def(sc, 'node_left')) == 'graph.nodes[left]' and u(single_def(sc, 'node_right')) == 'graph.nodes[right]',
          'chain domain: two atoms share a domain iff their chain attributes are equal', key='DT-domain|same_chain')
    mk = mod.func('make_same_region_criterion')
    inner = [f for f in mk.body if isinstance(f, ast.FunctionDef)]
    ok = len(inner) == 1 and isinstance(mk.body[-1], ast.Return) and u(mk.body[-1].value) == inner[0].name
    if ok:
        sr = inner[0]
        ck.analysed(mod, sr)
        lp = [n_ for n_ in sr.body if isinstance(n_, ast.For) and u(n_.iter) == 'regions']
        rets = stmts_with_env(sr, lambda s_: isinstance(s_, ast.Return))
        tr = [r for r in rets if try_fold(r[0].value, default=0) is True]
        fl = [r for r in rets if try_fold(r[0].value, default=1) is False]
        ok = len(lp) == 1 and len(tr) == 1 and len(fl) == 1 and sr.body[-1] is fl[0][0] and any(tr[0][0] is n_ for n_ in ast.walk(lp[0])) and len(rets) == 2
        if ok:
            rel = stmts_with_env(sr, lambda s_: s_ is tr[0][0], stmts=lp[0].body, env={k: v for st_, c_, e_ in stmts_with_env(sr, lambda s_: s_ is lp[0]) for k, v in e_.items()})
            names = {}
            lo, hi = 'min({})'.format(u(lp[0].target)), 'max({})'.format(u(lp[0].target))
            L = "graph.nodes[left].get('_old_resid', graph.nodes[left]['resid'])"
            R = "graph.nodes[right].get('_old_resid', graph.nodes[right]['resid'])"
            for k in flow.atoms_of(rel[0][1]):
                if k == ('GtE', L, lo):
                    names[k] = 'L_LO'
                elif k == ('GtE', hi, L):
                    names[k] = 'L_HI'
                elif k == ('GtE', R, lo):
                    names[k] = 'R_LO'
                elif k == ('GtE', hi, R):
                    names[k] = 'R_HI'
            ok = len(names) == len(flow.atoms_of(rel[0][1])) == 4 and flow.equivalent(flow.rename(rel[0][1], names), flow.parse_formula('L_LO and L_HI and R_LO and R_HI'))[0]
    if not ok and len(inner) == 1 and isinstance(mk.body[-1], ast.Return) and u(mk.body[-1].value) == inner[0].name:
        # any other spelling of the criterion: the closure is interpreted on every pair of residue numbers 0..10 against two regions (one written high-low)
        sr = inner[0]
        ck.analysed(mod, sr)
        regions_ = [(2, 5), (9, 7)]
        good = len(sr.args.args) == 3
        try:
            for a_ in range(0, 11):
                for b_ in range(0, 11):
                    nodes_ = {'x': {'resid': a_}, 'y': {'resid': 99, '_old_resid': b_}}
                    env_ = {mk.args.args[0].arg: regions_, sr.args.args[0].arg + '.nodes': nodes_, sr.args.args[1].arg: 'x', sr.args.args[2].arg: 'y'}
                    got = interp.call(sr.body, env_)
                    want = any(min(r_) <= a_ <= max(r_) and min(r_) <= b_ <= max(r_) for r_ in regions_)
                    if bool(got) is not want or not isinstance(got, bool):
                        good = False
        except (interp.Unsupported, KeyError, TypeError):
            good = False
        ok = good
    ck.ob('DT-domain', mod.loc(mk), ok, 'region domain: two atoms share a domain iff SOME region contains both input residue numbers (bounds inclusive, either order); '
          'every region is tried', key='DT-domain|same_region')
    cli_regions(ck)
    shared.truthy_zero(ck, [RB])
    shared.runs_every_molecule(ck, 'vermouth/processors/apply_rubber_band.py', 'ApplyRubberBand', 'MPT-every-molecule')
    shared.residue_graph_rules(ck, 'PROV-connectivity')
    ck.assume('matrix index arithmetic of numpy and the numeric values of the decay are not decided beyond the sample grid')


def cli_regions(ck):
    """bin/martinize2 -eunit <a>:<b>,<c>:<d>: the regions handed to make_same_region_criterion are the written intervals, sign included (input residue numbers may be
    negative).  The statement that builds `regions` is interpreted on sample option values."""
    from .. import interp
    cli = ck.index.mod('bin/martinize2')
    ent = cli.func('entry')
    defs = [s_ for s_ in walk_local(ent) if isinstance(s_, ast.Assign) and u(s_.targets[0]) == 'regions']
    ck.need(len(defs) == 1, 'bin/martinize2: the statement that builds `regions` from -eunit was not found')
    cases = {'12:26': [(12, 26)], '1:10,20:30': [(1, 10), (20, 30)], '12:26,-9:8': [(12, 26), (-9, 8)], '-20:-11': [(-20, -11)], '5:5': [(5, 5)], '0:3': [(0, 3)]}
    bad = None
    try:
        import re as _re
        for text, want in cases.items():
            env = {'args.rb_unit': text, 're.findall': _re.findall, 're.split': _re.split, 're.fullmatch': _re.fullmatch, 're.match': _re.match}
            interp.run_stmts([defs[0]], env)
            got = [tuple(r) for r in env.get('regions', [])]
            if got != want:
                bad = '-eunit {} gives the regions {} (written: {})'.format(text, got, want)
                break
    except interp.Unsupported as err:
        bad = 'could not be interpreted: {}'.format(err)
    except (ValueError, TypeError) as err:
        bad = 'fails on a well-formed option value: {}'.format(err)
    ck.ob('KW-wiring', cli.loc(defs[0]), bad is None, 'the residue intervals of -eunit reach the domain criterion as written, negative numbers included ({} option values interpreted){}'.format(
        len(cases), '' if bad is None else ' -- ' + bad), key='KW-wiring|eunit|regions')
    calls = [c for c in walk_local(ent) if isinstance(c, ast.Call) and u(c.func).endswith('make_same_region_criterion')]
    ck.ob('KW-wiring', cli.loc(defs[0]), len(calls) == 1 and [u(a) for a in calls[0].args] == ['regions'], 'those regions are what make_same_region_criterion receives',
          key='KW-wiring|eunit|passed')
