"""C16 -- structure files round-trip: writer format strings vs reader column tables."""
import ast

from ..index import AnalysisError, u, dotted, call_name, call_attr, base_name, walk_local
from .. import flow
from .common import method, unconditional_in
from ..fold import fold, try_fold, NotConstant
from ..fmt import layout
from ..util import (kwarg, assignments_to, single_def, param_defaults, calls_with_env, stmts_with_env, subscript_key,
                    loops_around, str_constants)

PDB = 'vermouth/pdb/pdb.py'
GRO = 'vermouth/gmx/gro.py'


def reader_fields(ck, module, fn, var='fields'):
    """[(name, typename, width, start, end)] from `fields = [(name, type, width), ...]`."""
    val = single_def(fn, var)
    if not isinstance(val, (ast.List, ast.Tuple)):
        # the other spelling: the table the cutting loop walks (a local or a class attribute), with explicit slices
        for loop in [l for l in walk_local(fn) if isinstance(l, ast.For) and isinstance(l.target, ast.Tuple) and len(l.target.elts) == 3]:
            src = loop.iter
            cand = single_def(fn, src.id) if isinstance(src, ast.Name) else src if isinstance(src, (ast.List, ast.Tuple)) else None
            if cand is None and isinstance(src, ast.Name) and isinstance(module.constants.get(src.id), (ast.List, ast.Tuple)):
                cand = module.constants[src.id]
            if isinstance(src, ast.Attribute) and isinstance(src.value, ast.Name) and src.value.id in ('self', 'cls'):
                cls = module.enclosing(fn, ast.ClassDef)
                for st in (cls.body if cls is not None else []):
                    if isinstance(st, ast.Assign) and any(isinstance(t, ast.Name) and t.id == src.attr for t in st.targets):
                        cand = st.value
            if isinstance(cand, (ast.List, ast.Tuple)) and cand.elts and all(isinstance(e, ast.Tuple) and len(e.elts) == 3 for e in cand.elts):
                val = cand
                break
    ck.need(isinstance(val, (ast.List, ast.Tuple)), '{}: reader column table `{}` not found in {}'.format(module.rel, var, fn.name))
    out = []
    col = 0
    reader_fields.spelling = 'widths'
    for elt in val.elts:
        ck.need(isinstance(elt, ast.Tuple) and len(elt.elts) == 3, 'reader table entry is not (name, type, width)')
        name = fold(elt.elts[0])
        third = elt.elts[2]
        if isinstance(third, ast.Call) and call_name(third) == 'slice' and len(third.args) == 2:
            start, end = fold(third.args[0]), fold(third.args[1])
            out.append((name, u(elt.elts[1]), end - start, start, end))
            col = end
            reader_fields.spelling = 'slices'
        else:
            width = fold(third)
            out.append((name, u(elt.elts[1]), width, col, col + width))
            col += width
    return out


def record_format_calls(ck, module, fn, extra_env=None):
    """Format calls whose result reaches an append/write sink inside a loop.
    Returns [(call, recv_kind, fmt_node_substituted, data_args, sink_stmt)]."""
    sink_names = set()
    sinks = []
    for node in walk_local(fn):
        if isinstance(node, ast.Call) and call_attr(node) in ('append', 'write') and isinstance(node.func, ast.Attribute) \
                and loops_around(module, node, fn) and node.args:
            sinks.append(node)
            for n in ast.walk(node.args[0]):
                if isinstance(n, ast.Name):
                    sink_names.add(n.id)
    found = []

    def is_fmt(call):
        return isinstance(call.func, ast.Attribute) and call.func.attr == 'format'

    for call, st, cond, env in calls_with_env(fn, is_fmt, env=extra_env):
        # does this call's value reach a sink?  either the statement is a sink
        # itself or it assigns/augments a name that a sink consumes.
        reaches = False
        if isinstance(st, ast.Expr) and any(s is st.value for s in sinks):
            reaches = True
        elif isinstance(st, (ast.Assign, ast.AugAssign)):
            targets = st.targets if isinstance(st, ast.Assign) else [st.target]
            reaches = any(isinstance(t, ast.Name) and t.id in sink_names for t in targets)
        if not reaches or not loops_around(module, call, fn):
            continue
        found.append((call, st, env))
    return found, sinks


def formatter_kind(ck, fn, call, module):
    """'trunc' when the receiver is a name bound to TruncFormatter(); 'str' otherwise."""
    recv = call.func.value
    if isinstance(recv, ast.Name):
        defs = assignments_to(fn, recv.id)
        if defs and all(isinstance(d, ast.Call) and (call_name(d) or '').split('.')[-1] == 'TruncFormatter' for d in defs):
            return 'trunc'
    if isinstance(recv, ast.Call) and (call_name(recv) or '').split('.')[-1] == 'TruncFormatter':
        return 'trunc'
    return 'str'


def fold_format(ck, fn, call, env, module, extra=None):
    """Format string(s) of a record format call: list of (label, string)."""
    kind = formatter_kind(ck, fn, call, module)
    node = call.args[0] if kind == 'trunc' and call.args else call.func.value
    node = flow.subst(node, env)
    base = dict(extra or {})
    try:
        return kind, [('', fold(node, base, module))]
    except Exception:
        pass
    # symbolic repeat count: len(<name>) for n = 1..4
    lens = sorted({u(n) for n in ast.walk(node) if isinstance(n, ast.Call) and call_name(n) == 'len'})
    outs = []
    if lens:
        for n in (1, 2, 3, 4):
            class T(ast.NodeTransformer):
                def visit_Call(self, c):  # noqa: N802
                    if call_name(c) == 'len':
                        return ast.Constant(value=n)
                    return self.generic_visit(c)
            try:
                outs.append(('len={}'.format(n), fold(T().visit(flow.clone(node)), base, module)))
            except Exception as err:  # pylint: disable=broad-except
                raise AnalysisError('{}: cannot fold format string {} ({})'.format(module.loc(call), u(node)[:80], err))
        return kind, outs
    raise AnalysisError('{}: cannot fold format string {}'.format(module.loc(call), u(node)[:80]))


def attr_of_arg(fn, arg):
    """Which node attribute does writer argument `arg` carry?  Returns a set of
    attribute names (from get_not_none(node, 'k', ..) / node['k'] definitions),
    or ('position', j) for a component of the unpacked position."""
    if not isinstance(arg, ast.Name):
        keys = {subscript_key(n) for n in ast.walk(arg)} - {None}
        return keys
    keys = set()
    for node in walk_local(fn):
        if isinstance(node, ast.Assign):
            for t in node.targets:
                if isinstance(t, ast.Name) and t.id == arg.id:
                    v = node.value
                    if isinstance(v, ast.Call) and call_name(v) == 'get_not_none' and len(v.args) >= 2 and isinstance(v.args[1], ast.Constant):
                        keys.add(v.args[1].value)
                    else:
                        k = {subscript_key(n) for n in ast.walk(v)} - {None}
                        keys |= k
                elif isinstance(t, (ast.Tuple, ast.List)):
                    for j, e in enumerate(t.elts):
                        if isinstance(e, ast.Name) and e.id == arg.id:
                            k = {subscript_key(n) for n in ast.walk(node.value)} - {None}
                            if len(k) == 1:
                                keys.add((next(iter(k)), j))
    return keys


ALL_FIELDS = []


def _classify_groups(pattern, verbose=False):
    """{group number: role} for the capture groups of the format-spec regex, from the regex's own parse tree (stdlib parser; nothing is matched)."""
    import re._parser as sp
    import re as _re
    tree = sp.parse(pattern, _re.VERBOSE if verbose else 0)
    roles = {}

    def lits(items):
        out = set()
        for op, av in items:
            if str(op) == 'LITERAL':
                out.add(chr(av))
            elif str(op) == 'IN':
                out |= lits(av)
        return out

    def walk(items, under_decimal):
        for op, av in items:
            name = str(op)
            if name == 'SUBPATTERN':
                num, _a, _b, sub = av
                kinds = [str(o) for o, _v in sub]
                has_nested = any(k == 'SUBPATTERN' or (k in ('MAX_REPEAT', 'MIN_REPEAT') and any(str(o2) == 'SUBPATTERN' for o2, _ in _v[2])) for k, (_v) in ((str(o), v) for o, v in sub))
                dec_here = any(str(o2) == 'SUBPATTERN' and lits(v2[3]) == {'.'} for o2, v2 in sub)
                if has_nested:
                    roles[num] = 'composite'
                    walk(sub, under_decimal or dec_here)
                    continue
                ls = lits(sub)
                cats = {str(v) for o, v_ in sub if str(o) == 'IN' for o2, v in v_ if str(o2) == 'CATEGORY'}
                digits = any(str(o) in ('MAX_REPEAT', 'MIN_REPEAT') and any(str(o2) == 'IN' and any(str(c[1]) == 'CATEGORY_DIGIT' for c in v2 if str(c[0]) == 'CATEGORY') for o2, v2 in v[2])
                             for o, v in sub)
                if digits:
                    roles[num] = 'precision' if under_decimal else 'width'
                elif {'CATEGORY_SPACE', 'CATEGORY_NOT_SPACE'} <= cats or kinds == ['ANY']:
                    roles[num] = 'fill'
                elif ls and ls <= set('<>=^') and '<' in ls:
                    roles[num] = 'align'
                elif ls and ls <= set('+- ') and '+' in ls:
                    roles[num] = 'sign'
                elif ls == {'#'}:
                    roles[num] = 'alt'
                elif ls == {'0'}:
                    roles[num] = 'zero_padding'
                elif ls and ls <= set(',_') and ',' in ls:
                    roles[num] = 'comma'
                elif ls == {'.'}:
                    roles[num] = 'decimal'
                elif {'s', 'd', 'f'} <= ls:
                    roles[num] = 'type'
                else:
                    roles[num] = 'other:' + ''.join(sorted(ls))[:8]
            elif name in ('MAX_REPEAT', 'MIN_REPEAT'):
                walk(av[2], under_decimal)
            elif name == 'BRANCH':
                for alt in av[1]:
                    walk(alt, under_decimal)
    walk(tree, False)
    # the fill character is only a fill character when an alignment character follows it (`{:>5}` has no fill, `{:*>5}` has): the fill group is optional
    # *inside* a group that requires the alignment group -- standing on its own it swallows the first digit of a width
    def seq_has(items, role):
        return any(str(op) == 'SUBPATTERN' and roles.get(av[0]) == role for op, av in items)

    def find_fill_context(items):
        for op, av in items:
            name = str(op)
            if name == 'SUBPATTERN':
                sub = av[3]
                inner_optional_fill = any(str(o2) in ('MAX_REPEAT', 'MIN_REPEAT') and seq_has(v2[2], 'fill') for o2, v2 in sub)
                if inner_optional_fill or seq_has(sub, 'fill'):
                    return seq_has(sub, 'align')
                got = find_fill_context(sub)
                if got is not None:
                    return got
            elif name in ('MAX_REPEAT', 'MIN_REPEAT'):
                if seq_has(av[2], 'fill'):
                    return False            # an optional fill on its own, not inside a group with the alignment
                got = find_fill_context(av[2])
                if got is not None:
                    return got
        return None
    roles['#fill-needs-align'] = find_fill_context(tree)
    return roles


def spec_parse_obligation(ck):
    """The fields of FormatSpec are filled from the capture groups that match them: the writer of the table (the regular expression) and its reader (the
    `.group(..)` index list, in the field order of the namedtuple) agree.  A new group in the expression shifts every later index."""
    tf = ck.index.mod('vermouth/truncating_formatter.py')
    fn = tf.func('TruncFormatter.format_field')
    cls = tf.cls('TruncFormatter')
    # the pattern: a string bound to format_spec_re, compiled in place or in a second statement, with or without re.VERBOSE
    pats, verbose = [], False
    for st in cls.body:
        if isinstance(st, ast.Assign) and u(st.targets[0]) == 'format_spec_re':
            v = st.value
            if isinstance(v, ast.Call) and (call_name(v) or '').split('.')[-1] == 'compile' and v.args:
                flags = ' '.join(u(a) for a in v.args[1:]) + ' ' + ' '.join(u(k.value) for k in v.keywords)
                verbose = verbose or 'VERBOSE' in flags or flags.strip() in ('re.X', 'X')
                v = v.args[0]
            if isinstance(v, ast.Constant) and isinstance(v.value, str):
                pats.append(v.value)
    fields = None
    for st in tf.tree.body:
        if isinstance(st, ast.Assign) and u(st.targets[0]) == 'FormatSpec' and isinstance(st.value, ast.Call) and len(st.value.args) == 2:
            f_ = try_fold(st.value.args[1], default=None)
            fields = f_.split() if isinstance(f_, str) else list(f_) if isinstance(f_, (list, tuple)) else None
    groups = [c for c in ast.walk(fn) if isinstance(c, ast.Call) and call_attr(c) in ('group', 'groups') and 'format_spec_re' in u(c.func.value)]
    ck.need(len(pats) == 1 and fields and len(groups) == 1, 'TruncFormatter: format_spec_re / FormatSpec / the .group(..) call were not found')
    try:
        roles = _classify_groups(pats[0], verbose)
    except Exception as err:  # pylint: disable=broad-except
        ck.need(False, 'TruncFormatter.format_spec_re could not be parsed: {}'.format(err))
    if call_attr(groups[0]) == 'groups':
        # .groups(): every capture group, in order
        idx = sorted(k for k in roles if isinstance(k, int))
    else:
        idx = [try_fold(a, default=None) for a in groups[0].args]
    got = [roles.get(i, 'no such group') for i in idx]
    ok = len(idx) == len(fields) and got == fields
    ck.ob('FMT-spec-parse', tf.loc(groups[0]), ok, 'FormatSpec{} is filled from the capture groups {} of format_spec_re, which match {}'.format(tuple(fields), tuple(idx), got),
          key='FMT-spec-parse|groups')
    ck.ob('FMT-spec-parse', tf.loc(groups[0]), roles.get('#fill-needs-align') is True, 'a fill character is only recognised together with the alignment character that follows it '
          '(the fill group is optional inside the group that holds the alignment group); on its own it would take the first digit of the width',
          key='FMT-spec-parse|fill-with-align')
    # the expression is used through fullmatch on the spec with the trailing `t` cut off
    ck.ob('FMT-spec-parse', tf.loc(groups[0]), call_attr(groups[0].func.value) == 'fullmatch' if isinstance(groups[0].func.value, ast.Call) else False,
          'the whole format spec is matched (fullmatch)', key='FMT-spec-parse|fullmatch')


def truncation_obligations(ck, fields):
    """Small-domain interpretation of TruncFormatter.format_field: for every
    field spec the writers use, an over-long formatted text comes out exactly
    `width` characters long."""
    from .. import interp
    tf = ck.index.mod('vermouth/truncating_formatter.py')
    fn = tf.func('TruncFormatter.format_field')
    ck.analysed(tf, fn)
    # the truncation part = everything after the statement that parses the format spec into `spec`
    parse_at = next((i for i, st in enumerate(fn.body) if isinstance(st, ast.Assign) and u(st.targets[0]) == 'spec' and isinstance(st.value, ast.Call)
                     and call_name(st.value) == 'FormatSpec'), None)
    start = parse_at + 1 if parse_at is not None and parse_at + 1 < len(fn.body) else None
    ck.ob('FMT-truncation-code', tf.loc(fn), start is not None, 'TruncFormatter.format_field: the truncation part (after the format spec is parsed into `spec`) was located', key='FMT-truncation-code|located')
    if start is None:
        return
    tail = fn.body[start:]
    head = u(ast.Module(body=fn.body[:start], type_ignores=[]))
    # the part before the standard formatting is interpreted: for every spelling of the spec, `truncate` says whether it ended in t and the t is gone
    std_at = next((i for i, st in enumerate(fn.body[:start]) if isinstance(st, ast.Assign) and u(st.targets[0]) == 'result'
                   and u(st.value) == 'super().format_field(value, format_spec)'), None)
    flag_ok = std_at is not None
    detail = ''
    if flag_ok:
        for given in ('8t', '8', '<5st', '>10.3ft', '', 't', 'tt', '^4'):
            env_h = {'format_spec': given}
            try:
                interp.run_stmts(fn.body[:std_at], env_h)
            except interp.Returned:
                flag_ok, detail = False, 'returns before the standard formatting'
                break
            except interp.Unsupported as err:
                flag_ok, detail = False, 'code outside the interpretable fragment: {}'.format(err)
                break
            want_spec = given[:-1] if given.endswith('t') else given
            if env_h.get('truncate') is not given.endswith('t') or env_h.get('format_spec') != want_spec:
                flag_ok, detail = False, 'for the spec {!r}: truncate={!r}, spec handed on={!r}'.format(given, env_h.get('truncate'), env_h.get('format_spec'))
                break
    ck.ob('FMT-truncation-code', tf.loc(fn), flag_ok,
          'the trailing t switches truncation on and is stripped before the standard formatting (8 spellings interpreted){}'.format(' -- ' + detail if detail else ''),
          key='FMT-truncation-code|flag')
    seen = set()
    for label, fld in fields:
        sig = (fld.align, fld.type, fld.width)
        if sig in seen or fld.width is None or not fld.trunc:
            continue
        seen.add(sig)
        sample = {'s': 'abcdefghijklmnopqrstuvwxyz', 'd': 1234567890123456, 'f': 1234567.891}.get(fld.type or 's', 'abcdefghij')
        text = '0123456789ABCDEFGHIJKLMNOPQRSTUVWXYZ'[:fld.width + 3]
        env = {'spec.width': str(fld.width), 'spec.type': fld.type, 'spec.align': fld.align, 'truncate': True, 'result': text, 'value': sample}
        try:
            out = interp.call(tail, env)
            ok = isinstance(out, str) and len(out) == fld.width
            detail = 'an over-long text {!r} comes out as {!r}'.format(text, out)
        except interp.Unsupported as err:
            ok = False
            detail = 'code outside the interpretable fragment: {}'.format(err)
        ck.ob('FMT-truncation-code', tf.loc(fn), ok, 'spec `{}{}{}t` ({}): {} (must be exactly {} characters)'.format(
            fld.align or '', fld.width, fld.type or '', label, detail, fld.width), key='FMT-truncation-code|{}{}{}'.format(fld.align or '', fld.width, fld.type or ''))


def run(ck):
    del ALL_FIELDS[:]
    idx = ck.index
    pdb = idx.mod(PDB)
    gro = idx.mod(GRO)

    # ------------------------------------------------------------------ PDB writer
    writers = [fn for name, fn in pdb.functions.items()
               if any(s.startswith('ATOM  ') and '{' in s for s in str_constants(fn))]
    ck.need(len(writers) == 1, 'PDB writer (function holding the ATOM record format) not found / ambiguous in ' + PDB)
    wfn = writers[0]
    ck.analysed(pdb, wfn)
    parser = pdb.cls('PDBParser')
    atom_reader = ck.need(next((f for f in parser.body if isinstance(f, ast.FunctionDef) and f.name == '_atom'), None),
                          'PDBParser._atom vanished')
    ck.analysed(pdb, atom_reader)
    rfields = reader_fields(ck, pdb, atom_reader)
    named = [f for f in rfields if f[0]]
    rspan = {f[0]: (f[3], f[4]) for f in named}
    # columns of the record name: the unnamed first entry of a table of widths, or what precedes the first field of a table of slices
    record_name_w = rfields[0][2] if not rfields[0][0] else min(f[3] for f in named)

    calls, sinks = record_format_calls(ck, pdb, wfn)
    ck.expect_count('FMT record format calls (PDB writer)', len(calls), 3)
    records = {}
    for call, st, env in calls:
        kind, fmts = fold_format(ck, wfn, call, env, pdb)
        where = pdb.loc(call)
        ck.ob('FMT-formatter', where, kind == 'trunc',
              'record line is formatted with TruncFormatter (found receiver `{}`)'.format(u(call.func.value)),
              key='FMT-formatter|write_pdb_string|' + (fmts[0][1][:6] if fmts else '?'))
        for label, fmt in fmts:
            fields, lits, total = layout(fmt)
            tag = fmt[:6]
            records.setdefault(tag, []).append((call, fmt, fields, lits, label))
            for fld in fields:
                ALL_FIELDS.append(('pdb ' + tag.strip(), fld))
                ok = fld.valid and fld.width is not None and fld.trunc
                ck.ob('FMT-trunc', where, ok,
                      'field {} `{{:{}}}` of record {!r} {} has explicit width and truncation flag'.format(
                          fld.index, fld.spec, tag.strip(), label),
                      key='FMT-trunc|pdb|{}|{}'.format(tag.strip(), fld.index))

    ck.need('ATOM  ' in records, 'ATOM record format call not found among the record sinks of the PDB writer')
    # ---- ATOM layout vs reader table
    call, fmt, fields, lits, _ = records['ATOM  '][0]
    args = call.args[1:]
    ck.ob('FMT-layout', pdb.loc(call), len(fields) == len(named) == len(args),
          'ATOM writer has {} fields / {} arguments, reader table has {} named fields'.format(len(fields), len(args), len(named)),
          key='FMT-layout|ATOM|count')
    ck.ob('FMT-layout', pdb.loc(call), lits and lits[0][0].startswith('ATOM  ') and record_name_w == 6,
          'record name occupies columns 0-6 on both sides', key='FMT-layout|ATOM|recname')
    for i, (fld, arg, rf) in enumerate(zip(fields, args, named)):
        name, _typ, width, start, end = rf
        ok_span = fld.start is not None and fld.end is not None and start <= fld.start and fld.end <= end
        ck.ob('FMT-layout', pdb.loc(call), ok_span,
              'writer field {} ({}) spans [{}, {}), reader `{}` reads [{}, {})'.format(i, u(arg), fld.start, fld.end, name, start, end),
              key='FMT-layout|ATOM|span|' + name)
        keys = attr_of_arg(wfn, arg)
        if name in ('x', 'y', 'z'):
            ok_name = ('position', 'xyz'.index(name)) in keys
        elif name == 'atomid':
            # the serial is the value stored in the serial table
            ok_name = any(isinstance(n, ast.Assign) and isinstance(n.targets[0], ast.Subscript)
                          and isinstance(n.value, ast.Name) and isinstance(arg, ast.Name) and n.value.id == arg.id
                          for n in walk_local(wfn))
        else:
            ok_name = keys == {name}
        ck.ob('FMT-layout', pdb.loc(call), ok_name,
              'writer argument {} `{}` carries node attribute(s) {} ; reader field at that position is `{}`'.format(
                  i, u(arg), sorted(map(str, keys)), name),
              key='FMT-layout|ATOM|attr|' + name)
    # reader accumulates the column for every field
    # (a table of widths needs the running column; a table of explicit slices has none to keep)
    width_loops = [l for l in walk_local(atom_reader) if isinstance(l, ast.For) and isinstance(l.target, ast.Tuple) and len(l.target.elts) == 3 and
                   any(isinstance(n, ast.Name) and n.id == 'start' and isinstance(n.ctx, ast.Store) for n in ast.walk(l))]
    by_width = reader_fields.spelling == 'widths'
    ck.ob('FMT-reader-accumulate', pdb.loc(atom_reader), bool(width_loops) or not by_width,
          'a reader table of widths is walked by a loop that keeps the running column', key='FMT-reader-accumulate|_atom|loop')
    for st, cond, env in stmts_with_env(atom_reader, lambda s: isinstance(s, (ast.AugAssign, ast.Assign)) and
                                        any(isinstance(t, ast.Name) and t.id == 'start' for t in
                                            ([s.target] if isinstance(s, ast.AugAssign) else s.targets))
                                        and loops_around(pdb, s, atom_reader),
                                        stmts=width_loops[0].body if width_loops else []):
        ck.ob('FMT-reader-accumulate', pdb.loc(st), flow.valid(cond) and 'width' in u(st),
              'column counter advances by the width of every field, named or not (`{}` under {})'.format(u(st), flow.show(cond)),
              key='FMT-reader-accumulate|_atom')

    # ---- serial widths
    serial_w = rspan['atomid'][1] - rspan['atomid'][0]
    atom_serial = fields[0]
    ck.ob('FMT-serial', pdb.loc(call), atom_serial.width == serial_w,
          'ATOM serial field width {} == reader atomid width {}'.format(atom_serial.width, serial_w), key='FMT-serial|ATOM')
    ck.need('TER   ' in records, 'TER record format call not found')
    tcall, tfmt, tfields, tlits, _ = records['TER   '][0]
    ck.ob('FMT-serial', pdb.loc(tcall), tfields and tfields[0].width == serial_w and tfields[0].start == rspan['atomid'][0],
          'TER serial field [{}, {}) matches the ATOM serial columns'.format(tfields[0].start, tfields[0].end), key='FMT-serial|TER')
    # TER layout: resname / chain / resid / icode inside the reader's columns (informational for readers that parse TER)
    ter_args = tcall.args[1:]
    ter_names = ['atomid', 'resname', 'chain', 'resid', 'insertion_code']
    ck.ob('FMT-layout', pdb.loc(tcall), len(tfields) == len(ter_args) == len(ter_names),
          'TER writer has {} fields / {} arguments (serial, resname, chain, resid, icode)'.format(len(tfields), len(ter_args)),
          key='FMT-layout|TER|count')
    for fld, nm in zip(tfields, ter_names):
        s, e = rspan[nm]
        ck.ob('FMT-layout', pdb.loc(tcall), fld.start is not None and s <= fld.start and fld.end <= e,
              'TER field `{}` spans [{}, {}) inside ATOM columns [{}, {})'.format(nm, fld.start, fld.end, s, e),
              key='FMT-layout|TER|span|' + nm)

    # CONECT reader constants
    do_conect = ck.need(next((f for f in parser.body if isinstance(f, ast.FunctionDef) and f.name == 'do_conect'), None),
                        'PDBParser.do_conect vanished')
    ck.analysed(pdb, do_conect)
    rng = [n for n in walk_local(do_conect) if isinstance(n, ast.Call) and call_name(n) == 'range' and len(n.args) == 3]
    ck.ob('FMT-serial', pdb.loc(do_conect), len(rng) == 1,
          'the CONECT reader cuts the record into fixed-width cells (a range(start, stop, width) loop over the columns); free-format splitting cannot separate abutting serials',
          key='FMT-serial|CONECT-reader-fixed')
    if len(rng) != 1:
        rng = None
    cenv = {}
    for name in ('start', 'width'):
        d = single_def(do_conect, name)
        if d is not None:
            cenv[name] = d
    r_start, r_stride = record_name_w, serial_w
    if rng:
        r_start = try_fold(rng[0].args[0], cenv)
        r_stride = try_fold(rng[0].args[2], cenv)
        # the loop over the cells: a `for` statement or a comprehension whose iterable is that range
        loop = None
        for anc in pdb.ancestors(rng[0]):
            if isinstance(anc, ast.For) and anc.iter is rng[0]:
                loop = anc
                break
            if isinstance(anc, (ast.ListComp, ast.GeneratorExp, ast.SetComp)) and any(g.iter is rng[0] for g in anc.generators):
                loop = anc
                break
        tgt = loop.target if isinstance(loop, ast.For) else next((g.target for g in loop.generators if g.iter is rng[0]), None) if loop is not None else None
        lv = tgt.id if isinstance(tgt, ast.Name) else None
        slices = [n for n in ast.walk(loop) if isinstance(n, ast.Subscript) and isinstance(n.slice, ast.Slice)] if loop is not None else []
        ok_slice = False
        for s in slices:
            lo, hi = s.slice.lower, s.slice.upper
            if isinstance(lo, ast.Name) and lo.id == lv and isinstance(hi, ast.BinOp) and isinstance(hi.op, ast.Add):
                w = try_fold(hi.right, cenv) if (isinstance(hi.left, ast.Name) and hi.left.id == lv) else None
                ok_slice = (w == r_stride)
        ck.ob('FMT-serial', pdb.loc(rng[0]), ok_slice and isinstance(r_start, int) and isinstance(r_stride, int) and r_stride == serial_w and r_start == record_name_w,
              'CONECT reader reads cells of width {} from column {} (serial width {}, record name width {})'.format(
                  r_stride, r_start, serial_w, record_name_w), key='FMT-serial|CONECT-reader')
        if not (isinstance(r_start, int) and isinstance(r_stride, int)):
            r_start, r_stride = record_name_w, serial_w
    ck.need('CONECT' in records, 'CONECT record format call not found')
    for ccall, cfmt, cfields, clits, label in records['CONECT']:
        prev_end = len('CONECT')
        lit0 = clits[0] if clits else ('', 0, 0)
        ok = lit0[0].startswith('CONECT')
        details = []
        for i, fld in enumerate(cfields):
            cell = (prev_end, fld.end)
            want = (r_start + r_stride * i, r_start + r_stride * (i + 1))
            good = fld.width == serial_w and cell == want
            details.append('operand {}: cell {} width {} (reader cell {})'.format(i, cell, fld.width, want))
            ok = ok and good
            prev_end = fld.end if fld.end is not None else -1
        ck.ob('FMT-serial', pdb.loc(ccall), ok,
              'CONECT {}: every operand is a full {}-digit serial in the reader\'s cell; {}'.format(label, serial_w, '; '.join(details)),
              key='FMT-serial|CONECT-writer')
    # chunking of the neighbour list: same constant in both slices
    ccall = records['CONECT'][0][0]
    cloop = [l for l in loops_around(pdb, ccall, wfn) if isinstance(l, ast.While)]
    chunk_ok = False
    chunk_txt = 'not found'
    if cloop:
        for st in cloop[0].body:
            if isinstance(st, ast.Assign) and isinstance(st.value, ast.Tuple) and len(st.value.elts) == 2:
                a, b = st.value.elts
                if all(isinstance(x, ast.Subscript) and isinstance(x.slice, ast.Slice) for x in (a, b)):
                    hi = a.slice.upper
                    lo = b.slice.lower
                    chunk_txt = u(st)
                    chunk_ok = (a.slice.lower is None and b.slice.upper is None and hi is not None and lo is not None
                                and u(hi) == u(lo) and u(a.value) == u(b.value))
    # the same decided by interpretation (any spelling of the chunk loop): a node with six higher neighbours, two of them with five-digit serials
    interp_ok = False
    try:
        from .. import interp
        around = [l for l in loops_around(pdb, ccall, wfn) if isinstance(l, ast.For)]
        m_at = next((i for i, l in enumerate(around) if 'molecules' in u(l.iter)), None)
        if m_at is not None and m_at >= 1:
            nloop, mloop = around[m_at - 1], around[m_at]
            tbl = next((u(n.value) for n in ast.walk(ccall) if isinstance(n, ast.Subscript) and isinstance(n.slice, ast.Tuple) and len(n.slice.elts) == 2), None) or \
                next((u(n.value) for n in ast.walk(nloop) if isinstance(n, ast.Subscript) and isinstance(n.slice, ast.Tuple) and len(n.slice.elts) == 2 and isinstance(n.ctx, ast.Load)), None)
            mvar, mobj = (mloop.target.elts[0].id, mloop.target.elts[1].id) if isinstance(mloop.target, ast.Tuple) else (None, None)
            if tbl and mvar and isinstance(nloop.target, ast.Name):
                serials = {(0, 'a'): 1, (0, 'n'): 77, (0, 'p'): 5, (0, 'q'): 3, (0, 'r'): 12345, (0, 's'): 4, (0, 't'): 99999, (0, 'u'): 6}
                out_ = []
                env_ = {tbl: serials, mvar: 0, nloop.target.id: 'n', mobj: {'n': ['a', 'p', 'q', 'r', 's', 't', 'u']}, 'out': out_, 'number_fmt': '{:>5dt}',
                        'formatter.format': lambda fmt, *a: (fmt.count('{'),) + a}
                for nm_ in ('number_fmt', 'format_string'):
                    d_ = single_def(wfn, nm_)
                    if d_ is not None and try_fold(d_, default=None) is not None:
                        env_[nm_] = try_fold(d_)
                interp.run_stmts(nloop.body, env_)
                interp_ok = out_ == [(5, 77, 3, 4, 5, 6), (4, 77, 12345, 99999)] or out_ == [(5, 77, 3, 4, 5, 6), (3, 77, 12345, 99999)]
    except Exception:  # pylint: disable=broad-except
        interp_ok = False
    chunk_ok = chunk_ok or interp_ok
    ck.ob('PROV-conect-chunks', pdb.loc(ccall), chunk_ok,
          'the bonded-atom list is cut into consecutive chunks with one constant (`{}`): nothing lost or repeated'.format(chunk_txt),
          key='PROV-conect-chunks')

    # ---- records known to the reader
    emitted = set(records)
    for node in walk_local(wfn):
        if isinstance(node, ast.Call) and call_attr(node) == 'append' and node.args and isinstance(node.args[0], ast.Constant) \
                and isinstance(node.args[0].value, str):
            emitted.add(node.args[0].value[:6])
    attrs = {}
    for st in parser.body:
        if isinstance(st, ast.FunctionDef):
            attrs[st.name] = st.name
        elif isinstance(st, ast.Assign):
            for t in st.targets:
                if isinstance(t, ast.Name):
                    attrs[t.id] = u(st.value)
    ck.ob('TAB-records', pdb.loc(wfn), emitted >= {'ATOM  ', 'TER   ', 'CONECT', 'END   '},
          'writer emits records {}'.format(sorted(emitted)), key='TAB-records|emitted')
    for rec in sorted(emitted):
        meth = rec.strip().lower()
        target = attrs.get(meth)
        seen = set()
        while target in attrs and target != attrs[target] and target not in seen:
            seen.add(target)
            target = attrs[target]
        ck.ob('TAB-records', pdb.loc(parser), target is not None and target not in ('_skip', '_unknown_line'),
              'record {!r} dispatches to PDBParser.{} -> {}'.format(rec, meth, target), key='TAB-records|' + meth)
    disp = next((f for f in parser.body if isinstance(f, ast.FunctionDef) and f.name == 'dispatch'), None)
    ck.need(disp is not None, 'PDBParser.dispatch vanished')
    sl = [n for n in ast.walk(disp) if isinstance(n, ast.Subscript) and isinstance(n.slice, ast.Slice)]
    ck.ob('TAB-records', pdb.loc(disp), any(s.slice.lower is None and try_fold(s.slice.upper) == 6 for s in sl)
          and 'lower' in u(disp) and 'strip' in u(disp),
          'dispatch keys on the first 6 columns, stripped and lower-cased', key='TAB-records|dispatch')

    # ---- one TER per molecule, serial bookkeeping
    mol_loops = [n for n in wfn.body if isinstance(n, ast.For) and 'molecules' in u(n.iter)]
    ck.need(mol_loops, 'molecule loop of the PDB writer not found')
    mloop = mol_loops[0]
    ter_sinks = stmts_with_env(wfn, lambda s: isinstance(s, ast.Expr) and isinstance(s.value, ast.Call)
                               and call_attr(s.value) == 'append' and s.value.args and isinstance(s.value.args[0], ast.Name)
                               and any(isinstance(t, ast.Name) and t.id == s.value.args[0].id for a in [tcall] for st2 in
                                       [pdb.stmt_of(tcall)] if isinstance(st2, ast.Assign) for t in st2.targets),
                               stmts=mloop.body)
    atom_loops = [n for n in mloop.body if isinstance(n, ast.For)]
    ok_ter = (len(ter_sinks) == 1 and flow.valid(ter_sinks[0][1]) and any(ter_sinks[0][0] is s for s in mloop.body)
              and atom_loops and mloop.body.index(ter_sinks[0][0]) > mloop.body.index(atom_loops[0]))
    ck.ob('MPT-ter', pdb.loc(mloop), ok_ter, 'exactly one TER line is appended per molecule, unconditionally, after the atom loop',
          key='MPT-ter')
    ck.need(atom_loops, 'atom loop of the PDB writer not found')
    aloop = atom_loops[0]
    serial_name = u(args[0]) if args else 'atomid'
    incs = stmts_with_env(wfn, lambda s: isinstance(s, ast.AugAssign) and u(s.target) == serial_name, stmts=aloop.body)
    ck.ob('MPT-serial-increment', pdb.loc(aloop),
          len(incs) == 1 and flow.valid(incs[0][1]) and isinstance(incs[0][0].op, ast.Add) and try_fold(incs[0][0].value) == 1,
          'serial `{}` is incremented by one exactly once per atom, unconditionally ({} site(s))'.format(serial_name, len(incs)),
          key='MPT-serial-increment')
    # serial table: store and format before the increment, same key shape as the CONECT lookups
    stores = [s for s in aloop.body if isinstance(s, ast.Assign) and isinstance(s.targets[0], ast.Subscript)
              and u(s.value) == serial_name]
    ck.need(len(stores) == 1, 'store of the serial into the (molecule, key) -> serial table not found')
    table = u(stores[0].targets[0].value)
    key_t = stores[0].targets[0].slice
    mol_var = mloop.target.elts[0].id if isinstance(mloop.target, ast.Tuple) and 'enumerate' in u(mloop.iter) else None
    node_var = u(aloop.target)
    ok_key = isinstance(key_t, ast.Tuple) and len(key_t.elts) == 2 and u(key_t.elts[0]) == mol_var and u(key_t.elts[1]) == node_var
    inc_pos = aloop.body.index(incs[0][0]) if incs and any(incs[0][0] is s for s in aloop.body) else -1
    fmt_stmt = pdb.stmt_of(call)
    ok_order = inc_pos > aloop.body.index(stores[0]) and any(fmt_stmt is s for s in aloop.body) and inc_pos > aloop.body.index(fmt_stmt)
    ck.ob('PROV-serial-table', pdb.loc(stores[0]), ok_key and ok_order,
          'table `{}` is keyed (molecule index, node key) and filled with the serial that the ATOM line prints (both before the increment)'.format(table),
          key='PROV-serial-table|store')
    # CONECT operands
    cst = pdb.stmt_of(ccall)
    cmol = [l for l in loops_around(pdb, ccall, wfn) if isinstance(l, ast.For)]
    ck.need(len(cmol) >= 2, 'CONECT loops (molecules, nodes) not found')
    # innermost first: [chunk loop when it is a `for`,] node loop, molecule loop
    mol_at = next((i for i, l in enumerate(cmol) if 'molecules' in u(l.iter)), None)
    ck.need(mol_at is not None and mol_at >= 1, 'CONECT loops (molecules, nodes) not found')
    c_node_loop, c_mol_loop = cmol[mol_at - 1], cmol[mol_at]
    c_mol_var = c_mol_loop.target.elts[0].id if isinstance(c_mol_loop.target, ast.Tuple) and 'enumerate' in u(c_mol_loop.iter) else None
    c_mol_obj = c_mol_loop.target.elts[1].id if isinstance(c_mol_loop.target, ast.Tuple) else None
    c_node_var = u(c_node_loop.target)
    first = ccall.args[1] if len(ccall.args) > 1 else None
    ok_first = (isinstance(first, ast.Subscript) and u(first.value) == table and isinstance(first.slice, ast.Tuple)
                and [u(e) for e in first.slice.elts] == [c_mol_var, c_node_var])
    ck.ob('PROV-serial-table', pdb.loc(ccall), ok_first and 'molecules' in u(c_mol_loop.iter) and u(c_node_loop.iter).split('.')[0] == c_mol_obj,
          'CONECT origin operand is {}[(molecule index, node)] for each node of each molecule'.format(table),
          key='PROV-serial-table|conect-origin')
    gens = [n for n in ast.walk(c_node_loop) if isinstance(n, (ast.GeneratorExp, ast.ListComp)) and table in u(n.elt)]
    ok_gen = False
    gtxt = 'not found'
    if len(gens) == 1:
        g = gens[0]
        gtxt = u(g)
        gen = g.generators[0]
        var = u(gen.target)
        elt = g.elt
        ok_elt = (isinstance(elt, ast.Subscript) and u(elt.value) == table and isinstance(elt.slice, ast.Tuple)
                  and [u(e) for e in elt.slice.elts] == [c_mol_var, var])
        ok_iter = u(gen.iter) in ('{}[{}]'.format(c_mol_obj, c_node_var), '{}.neighbors({})'.format(c_mol_obj, c_node_var),
                                  '{}.adj[{}]'.format(c_mol_obj, c_node_var))
        ok_if = True
        for cond in gen.ifs:
            ok_if = ok_if and (isinstance(cond, ast.Compare) and len(cond.ops) == 1 and isinstance(cond.ops[0], (ast.Gt, ast.Lt))
                               and {u(cond.left), u(cond.comparators[0])} == {var, c_node_var})
        ok_gen = ok_elt and ok_iter and ok_if and len(g.generators) == 1
    star = [a for a in ccall.args if isinstance(a, ast.Starred)]
    ck.ob('PROV-serial-table', pdb.loc(ccall), ok_gen and len(star) == 1,
          'CONECT partner operands are the table entries of the node\'s neighbours, each bond kept by a strict key order test (`{}`)'.format(gtxt[:160]),
          key='PROV-serial-table|conect-partners')

    # every bond gets its record: nothing between the partner list and the chunk loop may drop a node or a partner
    jumps = [n for n in ast.walk(c_node_loop) if isinstance(n, (ast.Continue, ast.Break, ast.Return))]
    wl_loops = [l for l in loops_around(pdb, ccall, wfn) if isinstance(l, ast.While)]
    work = u(wl_loops[0].test) if wl_loops and isinstance(wl_loops[0].test, ast.Name) else None
    wdefs = []
    if work is not None:
        for st_ in ast.walk(c_node_loop):
            if isinstance(st_, ast.Assign):
                for t_ in st_.targets:
                    if any(isinstance(x, ast.Name) and x.id == work and isinstance(x.ctx, ast.Store) for x in ast.walk(t_)):
                        wdefs.append(st_)
    plain = [d for d in wdefs if len(gens) == 1 and any(n is gens[0] for n in ast.walk(d.value)) and isinstance(d.value, ast.Call) and call_name(d.value) in ('sorted', 'list', 'tuple')]
    chunked = [d for d in wdefs if wl_loops and any(d is s_ for s_ in wl_loops[0].body)]
    emit = [s_ for s_ in (wl_loops[0].body if wl_loops else []) if isinstance(s_, ast.Expr) and call_attr(s_.value) == 'append' and u(s_.value.func.value) == 'out']
    ok_all = interp_ok or work is not None and not jumps and len(wdefs) == 2 and len(plain) == 1 and len(chunked) == 1 and len(emit) == 1 and \
        unconditional_in(wfn, c_node_loop.body, wl_loops[0]) and unconditional_in(wfn, c_mol_loop.body, c_node_loop)
    ck.ob('MPT-conect-all', pdb.loc(c_node_loop), ok_all,
          'every bond of every molecule is written: the partner list of a node goes to the chunk loop as built (no node skipped, no partner filtered out: {} jump(s), {} assignment(s) to the '
          'work list), and every chunk is appended'.format(len(jumps), len(wdefs)), key='MPT-conect-all')

    # ------------------------------------------------------------------ GRO
    gw = gro.func('write_gro')
    gr = gro.func('read_gro')
    ck.analysed(gro, gw)
    ck.analysed(gro, gr)
    defaults = param_defaults(gw)
    genv = {k: v for k, v in defaults.items()}
    gcalls, gsinks = record_format_calls(ck, gro, gw, extra_env=None)
    ck.expect_count('FMT record format calls (GRO writer)', len(gcalls), 2)
    def table_value(name):
        d_ = single_def(gr, name)
        if isinstance(d_, ast.Name) and d_.id in gro.constants:
            d_ = gro.constants[d_.id]          # a module-level table named locally (whether it may be written into is the STATE lint's business)
        v_ = try_fold(d_)
        return list(v_) if isinstance(v_, (list, tuple)) else v_
    widths = table_value('field_widths')
    names = table_value('field_names')
    ck.need(isinstance(widths, list) and isinstance(names, list), 'GRO reader tables field_widths / field_names not found')
    pos_w = None
    for gcall, st, env in gcalls:
        kind, fmts = fold_format(ck, gw, gcall, env, gro, extra=genv)
        where = gro.loc(gcall)
        label, fmt = fmts[0]
        fields, lits, total = layout(fmt)
        is_vel = isinstance(st, ast.AugAssign)
        tag = 'velocity' if is_vel else 'atom'
        ck.ob('FMT-formatter', where, kind == 'trunc', 'GRO {} line is formatted with TruncFormatter'.format(tag),
              key='FMT-formatter|write_gro|' + tag)
        for fld in fields:
            ALL_FIELDS.append(('gro ' + tag, fld))
            ck.ob('FMT-trunc', where, fld.valid and fld.width is not None and fld.trunc,
                  'field {} `{{:{}}}` of GRO {} line has explicit width and truncation flag'.format(fld.index, fld.spec, tag),
                  key='FMT-trunc|gro|{}|{}'.format(tag, fld.index))
        ck.ob('FMT-layout', where, not any(l[0] for l in lits), 'GRO {} line has no literal text between fields'.format(tag),
              key='FMT-layout|gro|{}|literals'.format(tag))
        if not is_vel:
            head = [f.width for f in fields[:len(widths)]]
            ck.ob('FMT-layout', where, head == widths, 'GRO writer prefix widths {} == reader field_widths {}'.format(head, widths),
                  key='FMT-layout|gro|prefix')
            gargs = gcall.args[1:]
            got = []
            for a in gargs:
                keys = attr_of_arg(gw, a)
                if isinstance(a, ast.Name) and not keys:
                    got.append(a.id)
                elif len(keys) == 1:
                    k = next(iter(keys))
                    got.append('xyz'[k[1]] if isinstance(k, tuple) and k[0] == 'position' else k)
                else:
                    got.append(str(sorted(map(str, keys))))
            ck.ob('FMT-layout', where, got == names[:len(got)] and len(got) == len(fields) == 7,
                  'GRO writer argument attributes {} == reader field_names {}'.format(got, names), key='FMT-layout|gro|order')
            pw = {f.width for f in fields[len(widths):]}
            pos_w = next(iter(pw)) if len(pw) == 1 else None
            prec = {f.precision for f in fields[len(widths):]}
            pdef = try_fold(defaults.get('precision'))
            ck.ob('FMT-layout', where, pos_w is not None and isinstance(pdef, int) and pos_w == pdef + 1 and len(prec) == 1,
                  'GRO coordinate fields share one width {} = precision + 1 (so the reader\'s dot-distance rule recovers it)'.format(pos_w),
                  key='FMT-layout|gro|coord-width')
        else:
            vw = {f.width for f in fields}
            ck.ob('FMT-layout', where, len(vw) == 1 and next(iter(vw)) == pos_w and len(fields) == 3,
                  'GRO velocity fields have the coordinate field width {} (reader assumes one width for both)'.format(pos_w),
                  key='FMT-layout|gro|vel-width')
    # the column of every field is the sum of the widths before it, skipped (negative) fields included: the statements that turn the width table into
    # slices are interpreted on a sample table
    from .. import interp as _interp
    blk = None
    for node_ in ast.walk(gr):
        for fld_ in ('body', 'orelse', 'finalbody'):
            sub_ = getattr(node_, fld_, None)
            if isinstance(sub_, list) and any(isinstance(s_, ast.Assign) and any(isinstance(t_, ast.Name) and t_.id == 'slices' for t_ in s_.targets) for s_ in sub_):
                blk = sub_
    okacc, detail = blk is not None, 'the construction of `slices` was not found'
    if okacc:
        first = next(i for i, s_ in enumerate(blk) if any(isinstance(n_, ast.Name) and n_.id in ('slices', 'start', 'field_widths') for n_ in ast.walk(s_)) and
                     not any(isinstance(c_, ast.Call) and call_attr(c_) == 'extend' for c_ in ast.walk(s_)))
        last = max(i for i, s_ in enumerate(blk) if any(isinstance(n_, ast.Name) and n_.id == 'slices' and (isinstance(n_.ctx, ast.Store) or True) for n_ in ast.walk(s_))
                   and not any(isinstance(c_, ast.Call) and call_name(c_) == 'zip' and 'field_names' in u(c_) for c_ in ast.walk(s_)))
        import itertools as _it
        env_ = {'field_widths': [5, 5, -2, 8, 8, -3, 4], 'slice': lambda a_, b_: ('S', a_, b_), 'accumulate': lambda xs: list(_it.accumulate(xs)),
                'itertools.accumulate': lambda xs: list(_it.accumulate(xs)), 'map': lambda f_, xs: [f_(x_) for x_ in xs]}
        try:
            _interp.run_stmts(blk[first:last + 1], env_)
            got = list(env_.get('slices') or [])
            okacc = got == [('S', 0, 5), ('S', 5, 10), ('S', 12, 20), ('S', 20, 28), ('S', 31, 35)]
            detail = 'widths [5, 5, -2, 8, 8, -3, 4] give {}'.format(got)
        except (_interp.Unsupported, _interp.Returned, KeyError, TypeError) as err:
            okacc, detail = False, 'outside the interpretable fragment: {}'.format(err)
    ck.ob('FMT-reader-accumulate', gro.loc(gr), okacc, 'GRO reader: every field starts where the widths before it (skipped fields included) end -- ' + detail,
          key='FMT-reader-accumulate|read_gro')
    truncation_obligations(ck, ALL_FIELDS)
    spec_parse_obligation(ck)
    atom_record_values(ck)
    conect_records_all_used(ck)
    # the default helper: only None is replaced
    gnn = pdb.func('get_not_none')
    ck.analysed(pdb, gnn)
    # interpreted on every kind of stored value: only an absent attribute or a stored None gives the default
    from .. import interp
    ok = len(gnn.args.args) == 3
    if ok:
        n_, a_, d_ = [x.arg for x in gnn.args.args]
        try:
            for stored in ('absent', None, 0, 0.0, '', 'X', 7, False, [], ()):
                node_ = {} if stored == 'absent' and isinstance(stored, str) else {'k': stored}
                got = interp.call(gnn.body, {n_: node_, a_: 'k', d_: 'DEFAULT'})
                want = 'DEFAULT' if (isinstance(stored, str) and stored == 'absent') or stored is None else stored
                if got != want or type(got) is not type(want):
                    ok = False
        except (interp.Unsupported, KeyError, TypeError):
            ok = False
    ck.ob('DT-default', pdb.loc(gnn), ok, 'a written attribute is replaced by its default only when it is absent or None -- 0 and empty strings are written as they are', key='DT-default|get_not_none')
    from . import shared
    shared.truthy_zero(ck, [PDB, GRO, 'vermouth/truncating_formatter.py'])
    # the GRO header is System.num_particles: the count of the molecules as they are now, not one remembered from an earlier call
    shared.no_new_state(ck, ['vermouth/system.py'])
    shared.pure_writer(ck, pdb, wfn, [wfn.args.args[0].arg])
    shared.pure_writer(ck, gro, gw, [gw.args.args[0].arg])
    # GRO reader: the coordinate width is measured between decimal points *after* the four fixed 5-column fields (a "." in a name must not count)
    grf = gro.func('read_gro')
    fd = single_def(grf, 'first_dot')
    sd = single_def(grf, 'second_dot')
    start = try_fold(fd.args[1], default=None) if isinstance(fd, ast.Call) and call_attr(fd) == 'find' and len(fd.args) == 2 else None
    ok = isinstance(start, int) and start >= 20 and sd is not None and u(sd) == "first_line.find('.', first_dot + 1)" and u(single_def(grf, 'precision')) == 'second_dot - first_dot'
    ck.ob('FMT-gro-width', gro.loc(grf), ok, 'the GRO reader measures the coordinate column width as the distance between two consecutive decimal points searched from column {} on '
          '(>= 20: past resid, resname, atomname, atomid), so dots inside names cannot disturb it'.format(start), key='FMT-gro-width|search-start')
    # GRO writer: velocities are written only when every molecule has them (else positions only) -- a molecule without velocities never makes the writer fail
    gwf = gro.func('write_gro')
    hv = single_def(gwf, 'has_vel')
    ok = isinstance(hv, ast.Call) and call_name(hv) == 'all' and hv.args and isinstance(hv.args[0], ast.GeneratorExp) and \
        u(hv.args[0].generators[0].iter) == 'system.molecules' and "'velocity' in" in u(hv.args[0].elt) and not hv.args[0].generators[0].ifs
    reads = [n for n in walk_local(gwf) if isinstance(n, ast.Subscript) and try_fold(n.slice, default=None) == 'velocity' and isinstance(n.ctx, ast.Load)]
    guarded = all(any(isinstance(a, ast.If) and u(a.test) == 'has_vel' for a in gro.ancestors(r)) for r in reads)
    ck.ob('FMT-gro-width', gro.loc(gwf), ok and guarded and bool(reads), 'the GRO writer decides "with velocities" over all molecules of the system and reads a velocity only under that decision',
          key='FMT-gro-width|velocities-all-molecules')
    # CONECT reader: every partner listed on a record gets its bond (the writer lists each bond once, in either serial order)
    dsc = ck.need(method(ck.index.mod('vermouth/pdb/pdb.py').cls('PDBParser'), '_do_single_conect'), 'PDBParser._do_single_conect vanished')
    pdbm = ck.index.mod('vermouth/pdb/pdb.py')
    ck.analysed(pdbm, dsc)
    pl = [l for l in dsc.body if isinstance(l, ast.For) and u(l.iter) == 'conect_record[1:]']
    ok = len(pl) == 1
    if ok:
        adds = stmts_with_env(dsc, lambda s_: isinstance(s_, ast.Expr) and call_attr(s_.value) == 'add_edge', stmts=pl[0].body)
        # the only thing that may stand between a listed partner and its bond is "that atom was not read" (a search that found nothing: a for/else, or a
        # `<found> is None` test) -- never a comparison of the two serials
        def only_not_found(formula):
            return all(k[0] == 'Is' and 'None' in k[1:] for k in flow.atoms_of(formula))
        ok = len(adds) == 1 and (flow.valid(adds[0][1]) or only_not_found(adds[0][1])) and [u(a) for a in adds[0][0].value.args[:2]] == ['atomidx0', 'atomidx']
        skips = [n for n in pl[0].body if isinstance(n, (ast.If,)) and any(isinstance(x, (ast.Continue, ast.Break)) for x in ast.walk(n))
                 and not only_not_found(flow.to_formula(n.test))]
        ok = ok and not skips
    ck.ob('PROV-conect-reader', pdbm.loc(dsc), ok, 'every atom listed after the first on a CONECT record is bonded to the first (only atoms that were not read are skipped); '
          'the serial order of the two plays no part', key='PROV-conect-reader|every-partner')
    # reading back through the processors: by default nothing is filtered, and the settings reach the readers unchanged
    for rel_, cname, reader, extra in (('vermouth/processors/pdb_reader.py', 'PDBInput', 'read_pdb', ['modelidx']), ('vermouth/processors/gro_reader.py', 'GROInput', 'gro.read_gro', [])):
        pm = ck.index.mod(rel_)
        pc = pm.cls(cname)
        init = ck.need(method(pc, '__init__'), cname + '.__init__ vanished')
        rsys = ck.need(method(pc, 'run_system'), cname + '.run_system vanished')
        ck.analysed(pm, rsys)
        dfl = param_defaults(init)
        ok = try_fold(dfl.get('exclude'), default='?') in ((), [], set()) and try_fold(dfl.get('ignh'), default='?') is False
        ck.ob('PROV-reader-defaults', pm.loc(init), ok, '{}: by default no residue is excluded and hydrogens are kept (exclude={}, ignh={})'.format(
            cname, u(dfl.get('exclude')) if dfl.get('exclude') is not None else '?', u(dfl.get('ignh')) if dfl.get('ignh') is not None else '?'), key='PROV-reader-defaults|' + cname)
        rc = [c for c in walk_local(rsys) if isinstance(c, ast.Call) and u(c.func) == reader]
        ok = len(rc) == 1 and all(kwarg(rc[0], k) is not None and u(kwarg(rc[0], k)) == 'self.' + k for k in ['exclude', 'ignh'] + extra) and u(rc[0].args[0]) == 'self.filename' and \
            all('self.{0} = {0}'.format(k) in u(init) for k in ['filename', 'exclude', 'ignh'] + extra)
        ck.ob('PROV-reader-defaults', pm.loc(rsys), ok, '{} hands file name and filter settings to {} exactly as configured'.format(cname, reader), key='PROV-reader-defaults|passthrough|' + cname)
        adds = [c for c in walk_local(rsys) if isinstance(c, ast.Call) and call_attr(c) == 'add_molecule']
        ck.ob('PROV-reader-defaults', pm.loc(rsys), len(adds) == 1 and not any(isinstance(n, (ast.If, ast.Break, ast.Continue)) for n in ast.walk(rsys)),
              '{} adds every molecule the reader returns to the system'.format(cname), key='PROV-reader-defaults|all-molecules|' + cname)
    shared.sorted_nodes_rule(ck, 'FMT-order')
    shared.pdb_atom_record_rules(ck, 'PROV-record')
    ck.assume('PDB/GRO layouts are compared between the writer format strings and the reader column tables of the same tree; '
              'numeric precision of the round trip is not decided')


def atom_record_values(ck):
    """PDBParser._atom: the text of every column becomes the value it spells -- a residue number written `  -4` is read as -4, `   0` as 0, an empty numeric column as
    the type's zero.  The statements from the column table to the filled `properties` dictionary are interpreted on sample records laid out column by column."""
    from .. import interp
    pdb = ck.index.mod(PDB)
    fn = ck.need(pdb.functions.get('PDBParser._atom'), 'PDBParser._atom vanished')
    ck.analysed(pdb, fn)
    loops = [i for i, st in enumerate(fn.body) if isinstance(st, ast.For) and 'properties[' in u(st)]
    ck.need(bool(loops), 'PDBParser._atom: the loop that fills `properties` was not found')
    # everything from the top of the method to that loop (the column table may be a local, a class attribute or a module constant)
    stmts = [st for st in fn.body[:loops[0] + 1] if not (isinstance(st, ast.Expr) and isinstance(st.value, ast.Constant))]
    consts = {}
    for name_, value_ in list(pdb.constants.items()):
        if any(isinstance(n_, ast.Name) and n_.id == name_ for st in stmts for n_ in ast.walk(st)):
            try:
                consts[name_] = interp.ev(value_, {})
            except interp.Unsupported:
                pass
    cls_ = pdb.cls('PDBParser')
    for st in cls_.body:
        if isinstance(st, ast.Assign) and isinstance(st.targets[0], ast.Name):
            try:
                consts['self.' + st.targets[0].id] = interp.ev(st.value, {})
            except interp.Unsupported:
                pass

    def record(atomid, name, resname, chain, resid, x, y, z):
        return 'ATOM  ' + atomid + ' ' + name + ' ' + resname + chain + resid + ' ' + '   ' + x + y + z + '  1.00' + '  0.00' + ' ' * 10 + ' C' + '  '
    cases = [(record('   12', ' CA ', 'LYS ', 'A', '  -4', '   1.000', '   2.000', '  -3.000'), {'atomid': 12, 'atomname': 'CA', 'resname': 'LYS', 'chain': 'A', 'resid': -4, 'x': 1.0, 'y': 2.0, 'z': -3.0}),
             (record('    0', ' N  ', 'GLY ', ' ', '   0', '   0.000', '  -0.500', '  10.000'), {'atomid': 0, 'atomname': 'N', 'chain': '', 'resid': 0, 'x': 0.0, 'y': -0.5, 'z': 10.0}),
             (record('99999', 'HD21', 'ASN ', 'B', '9999', '9999.999', '-999.999', '   0.001'), {'atomid': 99999, 'atomname': 'HD21', 'resid': 9999, 'x': 9999.999, 'y': -999.999}),
             (record('     ', ' O  ', 'HOH ', 'W', '    ', '   1.000', '   1.000', '   1.000'), {'atomid': 0, 'resid': 0}),
             (record('  -12', ' CA ', 'ALA ', 'A', '-123', '   1.000', '   1.000', '   1.000'), {'atomid': -12, 'resid': -123})]
    bad = None
    try:
        for line, want in cases:
            env = dict(consts, line=line, properties={})
            env['self._skipahead'] = False
            interp.run_stmts(stmts, env)
            got = env.get('properties', {})
            wrong = {k: got.get(k) for k, v in want.items() if got.get(k) != v or type(got.get(k)) is not type(v)}
            if wrong:
                bad = 'the record {!r} is read with {} (written: {})'.format(line[:30], wrong, {k: want[k] for k in wrong})
                break
    except interp.Unsupported as err:
        bad = 'could not be interpreted: {}'.format(err)
    except (ValueError, TypeError, KeyError) as err:
        bad = 'fails on a well-formed record: {!r}'.format(err)
    ck.ob('FMT-reader-values', pdb.loc(fn), bad is None, 'PDBParser._atom reads every column as the value it spells, negative and zero numbers included ({} records interpreted){}'.format(
        len(cases), '' if bad is None else ' -- ' + bad), key='FMT-reader-values|PDBParser._atom')


def conect_records_all_used(ck):
    """PDBParser.do_conect: every CONECT line that was kept contributes its bonds -- an atom with more than four partners is written on several lines that start with
    the same serial, and all of them count.  do_conect is interpreted on sample lines with a recorder in place of _do_single_conect."""
    from .. import interp
    from .helpers import FakeGraph
    pdb = ck.index.mod(PDB)
    fn = ck.need(pdb.functions.get('PDBParser.do_conect'), 'PDBParser.do_conect vanished')
    ck.analysed(pdb, fn)

    def line(*serials):
        return 'CONECT' + ''.join('{:>5d}'.format(x) for x in serials)
    cases = [[line(1, 2, 3, 4, 5), line(1, 6, 7), line(2, 1)], [line(3, 4)], [], [line(10, 11, 12, 13, 14), line(10, 15), line(11, 10), line(10, 16, 17, 18, 19)]]
    bad = None
    try:
        for lines in cases:
            seen = []
            env = {'self._conects': list(lines), 'self.molecules': [FakeGraph({0: {'atomid': 1}, 1: {'atomid': 2}})],
                   'self._do_single_conect': lambda record, table, _seen=seen: _seen.append(list(record))}
            interp.run_stmts(fn.body, env)
            want = sorted((int(l[6:11]), int(l[k:k + 5])) for l in lines for k in range(11, len(l), 5))
            got = sorted((r[0], p) for r in seen for p in r[1:])
            if got != want:
                bad = 'of the bonds {} written on {} CONECT line(s) only {} are handed on'.format(want, len(lines), got)
                break
    except interp.Unsupported as err:
        bad = 'could not be interpreted: {}'.format(err)
    except interp.Returned:
        pass
    except (ValueError, TypeError, KeyError, IndexError) as err:
        bad = 'fails on well-formed CONECT lines: {!r}'.format(err)
    ck.ob('FMT-reader-values', pdb.loc(fn), bad is None, 'PDBParser.do_conect hands every (atom, partner) pair of every kept CONECT line on to the bond maker ({} sets of lines interpreted){}'.format(
        len(cases), '' if bad is None else ' -- ' + bad), key='FMT-reader-values|PDBParser.do_conect')
