"""C17 -- per-residue annotations land on the intended residues and translate correctly."""
import ast

from ..index import u, call_name, call_attr, walk_local
from .. import flow
from ..fold import try_fold
from ..util import stmts_with_env, calls_with_env, assignments_to, single_def, param_names
from . import shared
from .common import method, guarded_by_raise, raise_condition_is, has_atom, comp_signature, comp_element, unconditional_in

DSSP = 'vermouth/dssp/dssp.py'
MARTINI_SS = set('FEH123TSC')


def zip_sites(ck, module, fn, qual):
    """SIB-zip: operands of one zip that derive from the same root sequence
    must carry the same filters."""
    n = 0
    for node in walk_local(fn):
        if isinstance(node, ast.Call) and isinstance(node.func, ast.Name) and node.func.id == 'zip' and len(node.args) >= 2:
            sigs = [comp_signature(fn, a) for a in node.args if not isinstance(a, ast.Starred)]
            roots = {}
            for (src, filt), a in zip(sigs, node.args):
                roots.setdefault(src, []).append((filt, u(a)))
            for src, group in roots.items():
                if len(group) < 2:
                    continue
                n += 1
                same = len({g[0] for g in group}) == 1
                ck.ob('SIB-zip', module.loc(node), same,
                      'zip in {}: operands {} all derive from `{}`; filters {}'.format(
                          qual, [g[1] for g in group], src, [sorted(g[0]) for g in group]),
                      key='SIB-zip|{}|{}'.format(qual, src))
    return n


def run(ck):
    idx = ck.index
    mod = idx.mod(DSSP)
    cls = mod.cls('AnnotateResidues')
    rs = ck.need(method(cls, 'run_system'), 'AnnotateResidues.run_system vanished')
    rm = ck.need(method(cls, 'run_molecule'), 'AnnotateResidues.run_molecule vanished')
    ann = mod.func('annotate_residues_from_sequence')
    ck.analysed(mod, rs)
    ck.analysed(mod, ann)

    # ---- the sequence the processor works on is the one it was given: the length tests of run_system / run_molecule are tests on the user's sequence
    # (a constructor that shortens or pads it decides the repetition rule before those tests see the real length)
    init = ck.need(method(cls, '__init__'), 'AnnotateResidues.__init__ vanished')
    ck.analysed(mod, init)
    stores = [s_ for s_ in walk_local(init) if isinstance(s_, ast.Assign) and any(u(t_) == 'self.sequence' for t_ in s_.targets)]
    rebinds = [s_ for s_ in walk_local(init) if isinstance(s_, (ast.Assign, ast.AugAssign)) and
               any(isinstance(t_, ast.Name) and t_.id == 'sequence' for t_ in (s_.targets if isinstance(s_, ast.Assign) else [s_.target]))]
    ok = len(stores) == 1 and u(stores[0].value) == 'sequence' and not rebinds and 'sequence' in param_names(init)
    ck.ob('PROV-sequence', mod.loc(init), ok, 'AnnotateResidues keeps the sequence it was given, unchanged ({} store(s) of self.sequence, {} rebinding(s) of the argument)'.format(
        len(stores), len(rebinds)), key='PROV-sequence|constructor-verbatim')
    # ---- a sequence given for a selection that selects nothing is an error, not a silent no-op: the "no molecule" error is raised exactly when the sequence is
    # non-empty and nothing was selected -- no earlier exit for an empty selection
    raises_ = [(st_, c_) for st_, c_, _e in stmts_with_env(rs, lambda s_: isinstance(s_, ast.Raise)) if 'no molecule' in u(st_).lower()]
    okr = len(raises_) == 1
    if okr:
        names_ = {}
        for k_ in flow.atoms_of(raises_[0][1]):
            if k_[0] == 'truth' and k_[1] == 'self.sequence':
                names_[k_] = 'SEQ'
            elif k_[0] == 'truth' and (k_[1] in ('molecule_lengths', 'selected_molecules') or 'molecule_selector(' in k_[1]):       # (the condition is read with locals substituted)
                names_[k_] = 'SEL'
        okr = len(names_) == len(flow.atoms_of(raises_[0][1])) and flow.equivalent(flow.rename(raises_[0][1], names_), flow.parse_formula('SEQ and not SEL'))[0]
    ck.ob('DT-mismatch', mod.loc(rs), okr, 'run_system raises "no molecule to which to apply the sequence" exactly when the sequence is non-empty and no molecule is '
          'selected (the reaching condition of the raise, earlier exits included, is `sequence and not selection`)', key='DT-mismatch|empty-selection')
    # ---- SIB-zip: package-wide sweep (cheap), anchored instance must exist
    total = 0
    anchored = 0
    for module, qual, fn in idx.all_functions():
        k = zip_sites(ck, module, fn, qual)
        total += k
        if fn is rs:
            anchored = k
    ck.expect_count('SIB-zip (AnnotateResidues.run_system)', anchored, 1)
    ck.extra['zip_sites_with_shared_source'] = total

    # the loop that hands each selected molecule its slice (whatever its form)
    acalls = [c for c in walk_local(rs) if isinstance(c, ast.Call) and call_name(c) == 'annotate_residues_from_sequence']
    loops = [l for c in acalls for l in [mod.enclosing(c, ast.For)] if l is not None]
    ck.ob('PROV-selected-only', mod.loc(rs), len(acalls) == 1 and len(loops) == 1, 'run_system annotates molecules at one site, inside a loop over molecules ({} call(s))'.format(len(acalls)),
          key='PROV-selected-only|site')
    if len(acalls) != 1 or len(loops) != 1:
        return
    loop = loops[0]
    acall = acalls[0]
    ast_stmt = mod.stmt_of(acall)
    rel = stmts_with_env(rs, lambda s: s is ast_stmt, stmts=loop.body)
    c_call = rel[0][1]
    molv = u(acall.args[0])
    it = loop.iter
    first = it.args[0] if isinstance(it, ast.Call) and call_name(it) == 'zip' else it
    src, filt = comp_signature(rs, first)
    by_filter = src == 'system.molecules' and any('molecule_selector' in f for f in filt) and flow.valid(c_call)
    sel_atoms = [k for k in flow.atoms_of(c_call) if k[0] == 'truth' and k[1] == 'self.molecule_selector({})'.format(molv)]
    by_test = src == 'system.molecules' and not filt and len(sel_atoms) == 1 and flow.equivalent(c_call, ('atom', sel_atoms[0]))[0]
    ck.ob('PROV-selected-only', mod.loc(loop), by_filter or by_test,
          'molecules annotated by run_system are exactly the molecules of system.molecules accepted by the molecule selector (source {}, filters {}, call under {})'.format(
              src, sorted(filt), flow.show(c_call)[:60]), key='PROV-selected-only|run_system')
    gate = stmts_with_env(rm, lambda s: isinstance(s, ast.Expr) and call_name(s.value) == 'annotate_residues_from_sequence')
    ck.ob('PROV-selected-only', mod.loc(rm), len(gate) == 1 and any('molecule_selector' in ' '.join(map(str, a)) for a in flow.atoms_of(gate[0][1]))
          and flow.implies(gate[0][1], ('atom', ('truth', 'self.molecule_selector(molecule)')))[0],
          'run_molecule annotates only under the molecule selector', key='PROV-selected-only|run_molecule')

    # ---- MPT: mismatch is an error, before any assignment
    guarded_by_raise(ck, mod, ann, lambda s: isinstance(s, ast.Assign) and isinstance(s.targets[0], ast.Subscript) and 'attribute' in u(s.targets[0]),
                     has_atom('Eq', 'len(sequence)'), 'length mismatch (per molecule)', 'MPT-mismatch|annotate_residues_from_sequence', rule='MPT-mismatch')
    # ... and it is a mismatch in *either* direction (a sequence that is too long would be cut silently by zip: a shift for whoever counted residues differently)
    def _len_class(k):
        if k[0] == 'Eq' and set(k[1:]) == {'len(sequence)', '1'}:
            return 'ONE'
        if k[0] == 'Eq' and set(k[1:]) in ({'len(sequence)', 'len(residues)'}, {'len(sequence)', 'len(list(molecule.iter_residues()))'}):
            return 'SAME'
        return None
    raise_condition_is(ck, mod, ann, lambda st_, c_: True, _len_class, 'not ONE and not SAME', 'per-molecule annotation: a sequence of another length than the number of residues (and not a single element)',
                       'DT-mismatch|annotate_residues_from_sequence', rule='DT-mismatch')
    guarded_by_raise(ck, mod, rs, lambda s: s is loop, has_atom('Eq', 'len(self.sequence)', 'sum('), 'length mismatch (system)',
                     'MPT-mismatch|run_system', rule='MPT-mismatch')
    # the documented repetition rules
    seq_defs = stmts_with_env(rs, lambda s: isinstance(s, ast.Assign) and u(s.targets[0]) == 'sequence')
    ok_rep = False
    ok_one = False
    ok_plain = False
    for st, cond, env in seq_defs:
        v = st.value
        txt = u(v)
        atoms = [' '.join(map(str, a)) for a in flow.atoms_of(cond)]
        if isinstance(v, ast.BinOp) and isinstance(v.op, ast.Mult):
            mult = u(flow.subst(v.right, env))
            if mult.startswith('len(') and 'molecule_lengths' in u(v.right):
                # repeated per molecule: needs equal lengths and len(seq) == lengths[0]
                need = [a for a in atoms if 'are_all_equal' in a] and [a for a in atoms if a.startswith('Eq') and 'len(self.sequence)' in a and '[0]' in a]
                ok_rep = bool(need) and flow.implies(cond, flow.AND(*[('atom', k) for k in flow.atoms_of(cond)
                                                                    if 'are_all_equal' in ' '.join(map(str, k))
                                                                    or ('[0]' in ' '.join(map(str, k)) and k[0] == 'Eq')]))[0]
            elif mult.startswith('sum('):
                one = [k for k in flow.atoms_of(cond) if k[0] == 'Eq' and 'len(self.sequence)' in ' '.join(map(str, k)) and '1' in k]
                ok_one = bool(one) and flow.implies(cond, ('atom', one[0]))[0]
        elif txt == 'self.sequence':
            ok_plain = True
    ck.ob('PROV-repetition', mod.loc(rs), ok_rep, 'a one-molecule-long sequence is repeated per molecule only when all selected molecules have that length',
          key='PROV-repetition|per-molecule')
    ck.ob('PROV-repetition', mod.loc(rs), ok_one, 'a one-element sequence is repeated for every residue (multiplier sum of lengths) only when its length is 1',
          key='PROV-repetition|one-element')
    ck.ob('PROV-repetition', mod.loc(rs), ok_plain, 'otherwise the sequence is used as given', key='PROV-repetition|plain')
    # slicing per molecule: the offsets advance exactly when a molecule is annotated, by its number of residues
    sl = [a for a in acall.args if isinstance(a, ast.Subscript) and isinstance(a.slice, ast.Slice)]
    ok_slice = False
    detail = 'slice not found'
    if sl and sl[0].slice.lower is not None and sl[0].slice.upper is not None:
        lo, hi = u(sl[0].slice.lower), u(sl[0].slice.upper)
        upd = stmts_with_env(rs, lambda s_: isinstance(s_, (ast.Assign, ast.AugAssign)) and
                             any(u(t) in (lo, hi) for t in (s_.targets if isinstance(s_, ast.Assign) else [s_.target])), stmts=loop.body)
        same_cond = bool(upd) and all(flow.equivalent(c, c_call)[0] for s_, c, e in upd)
        init = {n: try_fold(single_def_outside(rs, n, loop)) for n in (lo, hi)}
        # amount: the number of residues of that molecule
        nres_names = set()
        if isinstance(loop.target, ast.Tuple) and isinstance(it, ast.Call) and call_name(it) == 'zip' and len(it.args) == 2:
            s2, f2 = comp_signature(rs, it.args[1])
            e2 = comp_element(rs, it.args[1]) or ''
            if s2 == src and f2 == filt and e2.startswith('len(list(') and e2.endswith('.iter_residues()))'):
                nres_names.add(u(loop.target.elts[1]))
        amounts_ok = True
        order_ok = True
        pos = {id(s_): i for i, s_ in enumerate(loop.body)}
        for s_, c, e in upd:
            val = u(s_.value)
            good = any(n in val for n in nres_names) or 'len(list({}.iter_residues()))'.format(molv) in val or val in (lo, hi)
            amounts_ok = amounts_ok and good
        hi_upd = [s_ for s_, c, e in upd if u(s_.targets[0] if isinstance(s_, ast.Assign) else s_.target) == hi]
        lo_upd = [s_ for s_, c, e in upd if u(s_.targets[0] if isinstance(s_, ast.Assign) else s_.target) == lo]
        order_ok = len(hi_upd) == 1 and len(lo_upd) == 1 and hi_upd[0].lineno < ast_stmt.lineno < lo_upd[0].lineno
        ok_slice = same_cond and amounts_ok and order_ok and init.get(lo) == 0
        detail = 'slice [{}:{}]; offsets updated under the same condition as the annotation: {}; by the residue count of that molecule: {}; upper before / lower after the call: {}'.format(
            lo, hi, same_cond, amounts_ok, order_ok)
    ck.ob('PROV-slice', mod.loc(acall), ok_slice, 'each annotated molecule receives the slice of its own residues, and molecules that are not annotated consume nothing ({})'.format(detail),
          key='PROV-slice|run_system')

    # ---- MPT: whole residue
    stores = [s for s in walk_local(ann) if isinstance(s, ast.Assign) and isinstance(s.targets[0], ast.Subscript) and 'attribute' in u(s.targets[0])]
    ck.need(len(stores) == 1, 'annotate_residues_from_sequence: attribute store not found')
    store = stores[0]
    inner = mod.enclosing(store, ast.For)
    outer = mod.enclosing(inner, ast.For) if inner is not None else None
    ok = False
    if inner is not None and outer is not None and isinstance(outer.iter, ast.Call) and call_name(outer.iter) == 'zip' and isinstance(outer.target, ast.Tuple):
        res_var, val_var = [u(e) for e in outer.target.elts]
        ok = (u(inner.iter) == res_var and u(store.value) == val_var
              and u(store.targets[0]) == 'molecule.nodes[{}][attribute]'.format(u(inner.target))
              and unconditional_in(ann, inner.body, store) and unconditional_in(ann, outer.body, inner)
              and [u(a) for a in outer.iter.args] == ['residues', 'sequence']
              and u(single_def(ann, 'residues')) in ('list(molecule.iter_residues())', 'tuple(molecule.iter_residues())'))
    ck.ob('MPT-whole-residue', mod.loc(store), ok, 'the k-th value is stored on every node of the k-th residue, unconditionally', key='MPT-whole-residue')
    # ... and that order is input order: the residue graph numbers its residues by their lowest atom key (partition_graph)
    shared.partition_graph_rule(ck, 'MPT-whole-residue')
    # which molecules are annotated at all: "protein" means every atom carries a residue name of the protein set (an atom without a name is not protein);
    # interpreted on five molecules, with a faithful stand-in for networkx.get_node_attributes
    from .. import interp as _interp
    sel = ck.index.mod('vermouth/selectors.py')
    isp = sel.func('is_protein')
    ck.analysed(sel, isp)
    prot = try_fold(sel.constants.get('PROTEIN_RESIDUES'), default=None)
    okp = prot is not None and len(isp.args.args) == 1

    class _Mol(_interp.Model):
        def __init__(self, nodes):
            self.nodes = nodes

        def __iter__(self):
            return iter(self.nodes)

        def __len__(self):
            return len(self.nodes)
    if okp:
        some = sorted(prot)[:2]
        samples = [({0: {'resname': some[0]}, 1: {'resname': some[1]}}, True), ({0: {'resname': some[0]}, 1: {'resname': 'W'}}, False),
                   ({0: {'resname': some[0]}, 1: {}}, False), ({0: {'resname': None}}, False), ({}, True)]
        try:
            for nodes_, want_ in samples:
                m_ = _Mol(nodes_)
                got_ = _interp.call(isp.body, {isp.args.args[0].arg: m_, 'PROTEIN_RESIDUES': set(prot),
                                               'nx.get_node_attributes': lambda g_, a_: {n_: d_[a_] for n_, d_ in g_.nodes.items() if a_ in d_}})
                if got_ is not want_:
                    okp = False
        except (_interp.Unsupported, TypeError, KeyError, AttributeError):
            okp = False
    ck.ob('PROV-selected-only', sel.loc(isp), okp, 'is_protein: true exactly when every atom has a residue name of the protein set (an atom without a residue name makes the '
          'molecule a non-protein)', key='PROV-selected-only|is_protein')
    # iter_residues is ordered
    mol = idx.mod('vermouth/molecule.py')
    ir = mol.func('Molecule.iter_residues')
    ck.ob('MPT-whole-residue', mol.loc(ir), 'sorted(residue_graph.nodes)' in u(ir) and "['graph'].nodes" in u(ir),
          'iter_residues yields the node tuples of the residues in sorted residue-graph order', key='MPT-whole-residue|iter_residues')
    body = [s_ for s_ in ir.body if not (isinstance(s_, ast.Expr) and isinstance(s_.value, ast.Constant))]
    stores = [n for n in ast.walk(ir) if isinstance(n, ast.Attribute) and isinstance(n.ctx, ast.Store)]
    ck.ob('MPT-whole-residue', mol.loc(ir), len(body) >= 2 and u(body[0]) == 'residue_graph = graph_utils.make_residue_graph(self)' and isinstance(body[-1], ast.Return) and not stores and
          all(isinstance(s_, ast.Assign) and all(isinstance(t_, ast.Name) for t_ in s_.targets) for s_ in body[1:-1]),
          'iter_residues recomputes the residues from the current node attributes on every call (no cache that residue edits could leave stale)', key='MPT-whole-residue|no-cache')
    # reading a per-residue sequence back: one value per residue, in residue order, nothing skipped
    sfr = mod.func('sequence_from_residues')
    ck.analysed(mod, sfr)
    lp = [l for l in sfr.body if isinstance(l, ast.For)]
    ys = [n for n in ast.walk(sfr) if isinstance(n, (ast.Yield, ast.YieldFrom))]
    ok = len(lp) == 1 and u(lp[0].iter) == 'molecule.iter_residues()' and len(ys) == 1 and not any(isinstance(n, (ast.If, ast.Continue, ast.Break, ast.Return)) for n in ast.walk(lp[0]))
    if ok:
        env_ = {}
        for st_ in lp[0].body:
            if isinstance(st_, ast.Assign) and isinstance(st_.targets[0], ast.Name):
                env_[st_.targets[0].id] = flow.subst(st_.value, env_)
        ok = u(flow.subst(ys[0].value, env_)) == 'molecule.nodes[{}[0]].get(attribute, default)'.format(u(lp[0].target))
    ck.ob('PROV-read-back', mod.loc(sfr), ok, 'sequence_from_residues yields exactly one value per residue of iter_residues(), unconditionally: the attribute of the residue\'s first atom '
          '(or the default)', key='PROV-read-back|sequence_from_residues')
    cda = mod.func('convert_dssp_annotation_to_martini')
    ck.analysed(mod, cda)
    calls = calls_with_env(cda, lambda c: call_name(c) == 'annotate_residues_from_sequence')
    ok = len(calls) == 1
    if ok:
        c_, st_, cond_, env_ = calls[0]
        args = [u(flow.subst(a, env_)) for a in c_.args]
        ok = args == ['molecule', 'to_attribute', 'list(convert_dssp_to_martini(list(sequence_from_residues(molecule, from_attribute))))'] or \
            args == ['molecule', 'to_attribute', 'list(convert_dssp_to_martini(dssp_sequence))']
        ats = list(flow.atoms_of(cond_))
        ok = ok and len(ats) == 1 and ats[0][0] == 'In' and ats[0][1] == 'None' and flow.equivalent(cond_, ('not', ('atom', ats[0])))[0]
    rs_ = [st_ for st_, c2, e2 in stmts_with_env(cda, lambda s_: isinstance(s_, ast.Raise))]
    ck.ob('PROV-read-back', mod.loc(cda), ok and len(rs_) == 1, 'the Martini classes are the translation of the whole per-residue DSSP sequence of the same molecule, written to the target '
          'attribute exactly when every residue has an assignment; a partial assignment is an error', key='PROV-read-back|convert_annotation')
    ad = mod.func('annotate_dssp')
    ck.analysed(mod, ad)
    calls = calls_with_env(ad, lambda c: call_name(c) == 'annotate_residues_from_sequence')
    ok = len(calls) == 1
    if ok:
        c_, st_, cond_, env_ = calls[0]
        args = [u(a) for a in c_.args]
        sec = single_def(ad, 'secstructs')
        cp = single_def(ad, 'clean_pos')
        ok = args == ['molecule', 'attribute', 'secstructs'] and sec is not None and u(sec) == 'callable(system)' and cp is not None and \
            u(cp) == 'molecule.subgraph(filter_minimal(molecule, selector=selector_has_position))' and 'system.add_molecule(clean_pos)' in u(ad)
    # only proteins are annotated, and "protein" is said of the molecule that gets annotated (not of its positioned part: a ligand without coordinates is filtered out of that)
    prot_ok = len(calls) == 1 and flow.implies(calls[0][2], ('atom', ('truth', 'is_protein({})'.format(param_names(ad)[0]))))[0]
    ck.ob('PROV-read-back', mod.loc(ad), prot_ok, 'annotate_dssp annotates only when the molecule itself is a protein (`is_protein({})` holds on the way to the assignment)'.format(param_names(ad)[0]),
          key='PROV-read-back|annotate_dssp|protein-test')
    ck.ob('PROV-read-back', mod.loc(ad), ok, 'annotate_dssp assigns the sequence computed for the positioned atoms of this very molecule to this molecule through '
          'annotate_residues_from_sequence (whose length test turns a dropped residue into an error, not a shift)', key='PROV-read-back|annotate_dssp')
    # every consumer of "the k-th residue" uses the same residue order
    users = {}
    for name in ('annotate_residues_from_sequence', 'sequence_from_residues'):
        f = mod.func(name)
        users[name] = [u(c) for c in walk_local(f) if isinstance(c, ast.Call) and call_attr(c) in ('iter_residues',) or
                       (isinstance(c, ast.Call) and (call_name(c) or '').split('.')[-1] in ('collect_residues', 'make_residue_graph'))]
    users['AnnotateResidues.run_system'] = [u(c) for c in walk_local(rs) if isinstance(c, ast.Call) and (call_attr(c) == 'iter_residues' or
                                                                                                        (call_name(c) or '').split('.')[-1] in ('collect_residues', 'make_residue_graph'))]
    ck.ob('SIB-residue-order', mod.loc(ann), all(v == ['molecule.iter_residues()'] for v in users.values()),
          'counting, assigning and reading back per-residue values all enumerate residues through molecule.iter_residues(): {}'.format(users), key='SIB-residue-order')

    shared.truthy_zero(ck, [DSSP])

    # ---- TAB: alphabet and translation table
    rd = mod.func('read_dssp2')
    ck.analysed(mod, rd)
    alphabet = None
    for node in walk_local(rd):
        if isinstance(node, ast.Compare) and isinstance(node.ops[0], ast.NotIn) and isinstance(node.comparators[0], ast.Constant) \
                and isinstance(node.comparators[0].value, str) and 'secondary_structure' in u(node.left):
            alphabet = node.comparators[0].value
    ck.need(alphabet, 'read_dssp2: accepted alphabet literal not found')
    guarded_by_raise(ck, mod, rd, lambda s: isinstance(s, ast.Expr) and call_attr(s.value) == 'append' and 'secstructs' in u(s),
                     has_atom('In', 'line[16]'), 'unknown DSSP class', 'TAB-alphabet|reject', rule='TAB-alphabet')
    rewrites = {}
    for st, cond, env in stmts_with_env(rd, lambda s: isinstance(s, ast.Assign) and u(s.targets[0]) == 'secondary_structure' and isinstance(s.value, ast.Constant)):
        for a in flow.atoms_of(cond):
            if a[0] == 'Eq' and any(isinstance(x, str) and x.startswith("'") and len(x) == 3 for x in a[1:]):
                lit = [x for x in a[1:] if x.startswith("'") and len(x) == 3][0][1]
                rewrites[lit] = st.value.value
    produced = {rewrites.get(c, c) for c in alphabet}
    table = try_fold(mod.constants.get('SS_CG'))
    ck.need(isinstance(table, dict), 'SS_CG table vanished')
    ck.ob('TAB-alphabet', mod.loc(rd), produced <= set(table), 'classes produced by read_dssp2 {} are keys of SS_CG {}'.format(sorted(produced), sorted(table)),
          key='TAB-alphabet|covered')
    ck.ob('TAB-alphabet', DSSP, set(table.values()) <= MARTINI_SS, 'SS_CG values {} are Martini classes'.format(sorted(set(table.values()))), key='TAB-alphabet|values')
    expect = {'H': 'H', 'G': 'H', 'I': 'H', 'B': 'E', 'E': 'E', 'T': 'T', 'S': 'S', 'C': 'C'}
    ck.ob('TAB-alphabet', DSSP, all(table.get(k) == v for k, v in expect.items()),
          'documented translation: helices (H, G, I) -> H, B and E -> E, T/S/C unchanged', key='TAB-alphabet|documented')
    for k in ('1', '2', '3'):
        ck.ob('TAB-alphabet', DSSP, table.get(k) == 'H', 'Martini helix class {} maps to H (idempotent re-translation)'.format(k), key='TAB-alphabet|' + k)
    # helix rewrite table
    conv = mod.func('convert_dssp_to_martini')
    ck.analysed(mod, conv)
    pat = single_def(conv, 'patterns')
    pairs = None
    if isinstance(pat, ast.Call) and pat.args:
        pairs = try_fold(pat.args[0])
    elif pat is not None:
        val = try_fold(pat)
        pairs = list(val.items()) if isinstance(val, dict) else val
    if not pairs:
        # the table is constructed rather than written out: interpret the constructing statements (constants only)
        from .. import interp
        build = []
        for st in conv.body:
            stores = any((isinstance(n, ast.Name) and n.id == 'patterns' and isinstance(n.ctx, ast.Store)) or
                         (isinstance(n, ast.Subscript) and isinstance(n.ctx, ast.Store) and u(n.value) == 'patterns') or
                         (isinstance(n, ast.Call) and isinstance(n.func, ast.Attribute) and u(n.func.value) == 'patterns' and n.func.attr in ('update', 'setdefault', 'pop', 'move_to_end'))
                         for n in ast.walk(st))
            if stores:
                build.append(st)
        env = {'collections.OrderedDict': dict, 'OrderedDict': dict, 'range': range, 'dict': dict}
        try:
            interp.run_stmts(build, env)
            if isinstance(env.get('patterns'), dict):
                pairs = list(env['patterns'].items())
                pat = build[0]
                ck.note('convert_dssp_to_martini: pattern table is constructed by {} statement(s); interpreted to {} patterns'.format(len(build), len(pairs)))
        except (interp.Unsupported, interp.Returned, TypeError, ValueError, KeyError) as err:
            ck.note('pattern table construction outside the interpretable fragment: {}'.format(err))
    if not pairs:
        ck.ob('TAB-helix', mod.loc(conv), False, 'convert_dssp_to_martini: the helix rewrite table could not be determined (neither a literal nor constructed from constants)',
              key='TAB-helix|table')
        return
    if pat is None or not hasattr(pat, 'lineno'):
        pat = conv
    ck.expect_count('TAB-helix patterns', len(pairs), 9)
    for p, r in pairs:
        same_len = len(p) == len(r)
        dots = [i for i, c in enumerate(p) if c == '.'] == [i for i, c in enumerate(r) if c == '.']
        noh = 'H' not in r
        only = set(p) <= set('.H') and set(r) <= set('.123')
        ck.ob('TAB-helix', mod.loc(pat), same_len and dots and noh and only,
              'pattern {!r} -> {!r}: same length, same wildcard positions, no H left, helix classes only'.format(p, r), key='TAB-helix|' + p)
    full = {p: r for p, r in pairs if p.startswith('.') and p.endswith('.')}
    for n in range(1, 8):
        p = '.' + 'H' * n + '.'
        ck.ob('TAB-helix', mod.loc(pat), p in full, 'a maximal helical run of length {} has a dedicated pattern'.format(n), key='TAB-helix|run{}'.format(n))
    doc = {1: '3', 2: '33', 3: '333', 4: '3333', 5: '13332', 6: '113322', 7: '1113222'}
    for n, want in doc.items():
        ck.ob('TAB-helix', mod.loc(pat), full.get('.' + 'H' * n + '.', '')[1:-1] == want,
              'run of {} -> {} (documented start/end/short-helix rule)'.format(n, want), key='TAB-helix|doc{}'.format(n))
    opens = dict(pairs)
    ck.ob('TAB-helix', mod.loc(pat), opens.get('.HHHH') == '.1111' and opens.get('HHHH.') == '2222.',
          'long helices: four start residues -> 1, four end residues -> 2', key='TAB-helix|long')
    order = [p for p, _ in pairs]
    ck.ob('TAB-helix', mod.loc(pat), order.index('.HHHH') > max(order.index(p) for p in full) and order.index('HHHH.') > max(order.index(p) for p in full),
          'closed (short) patterns are applied before the open-ended ones', key='TAB-helix|order')
    # each pattern is applied until it no longer occurs: neighbouring short helices share their delimiter, and str.replace skips overlapping occurrences
    reps = [c for c in walk_local(conv) if isinstance(c, ast.Call) and call_attr(c) == 'replace' and u(c.func.value) == 'wildcard_sequence']
    ok_rep = False
    if len(reps) == 1:
        wl_ = [w for w in mod.ancestors(reps[0]) if isinstance(w, ast.While)]
        fl_ = [f for f in mod.ancestors(reps[0]) if isinstance(f, ast.For)]
        tdef = single_def(conv, 'patterns')
        # the table is a mapping (walked through .items()) or a sequence of (pattern, replacement) pairs (walked directly): both keep the written order
        as_pairs = isinstance(tdef, (ast.Tuple, ast.List)) and all(isinstance(e, (ast.Tuple, ast.List)) and len(e.elts) == 2 for e in tdef.elts)
        walk_ok = len(fl_) == 1 and u(fl_[0].iter) == ('patterns' if as_pairs else 'patterns.items()') and [u(e) for e in getattr(fl_[0].target, 'elts', [])] == ['pattern', 'replacement']
        ok_rep = len(wl_) == 1 and u(wl_[0].test) in ('pattern in wildcard_sequence',) and walk_ok and \
            [u(a) for a in reps[0].args] == ['pattern', 'replacement'] and not any(isinstance(n, (ast.Break, ast.Continue)) for n in ast.walk(fl_[0]))
    ck.ob('TAB-helix', mod.loc(conv), ok_rep, 'every pattern, in table order, is substituted repeatedly until no occurrence is left (a single str.replace misses occurrences that '
          'overlap in their delimiting dot)', key='TAB-helix|exhaustive-replace')
    # flanking dots and their removal; recombination keeps length
    src = u(conv)
    flank = [s for s in walk_local(conv) if isinstance(s, ast.Assign) and isinstance(s.value, ast.BinOp) and u(s.targets[0]) == 'wildcard_sequence']
    flank_ok = any(try_fold(s.value.left.left if isinstance(s.value.left, ast.BinOp) else None) == '.' and try_fold(s.value.right) == '.' for s in flank)
    strip_ok = any(isinstance(s, ast.Assign) and isinstance(s.value, ast.Subscript) and isinstance(s.value.slice, ast.Slice)
                   and try_fold(s.value.slice.lower) == 1 and try_fold(s.value.slice.upper) == -1 and u(s.targets[0]) == 'wildcard_sequence'
                   for s in walk_local(conv))
    ck.ob('TAB-helix', mod.loc(conv), flank_ok and strip_ok, 'one flanking dot is added on each side and removed again ([1:-1])', key='TAB-helix|flank')
    rec = [n for n in walk_local(conv) if isinstance(n, ast.GeneratorExp) and isinstance(n.elt, ast.IfExp)]
    ok_rec = False
    if rec:
        g = rec[0]
        it = g.generators[0].iter
        ok_rec = (isinstance(it, ast.Call) and call_name(it) == 'zip' and [u(a) for a in it.args] == ['wildcard_sequence', 'cg_sequence']
                  and u(g.elt) in ("wildcard if wildcard != '.' else cg", "cg if wildcard == '.' else wildcard") and not g.generators[0].ifs)
    ck.ob('TAB-helix', mod.loc(conv), ok_rec, 'result takes the rewritten class where there is one and the table class elsewhere, position by position', key='TAB-helix|recombine')
    wd = [v for v in assignments_to(conv, 'wildcard_sequence') if any(isinstance(n, ast.GeneratorExp) for n in ast.walk(v))]
    ok_w = len(wd) == 1
    if ok_w:
        g = [n for n in ast.walk(wd[0]) if isinstance(n, ast.GeneratorExp)][0]
        v = u(g.generators[0].target)
        ok_w = u(g.generators[0].iter) == 'cg_sequence' and u(g.elt) == "'H' if {} == 'H' else '.'".format(v) and not g.generators[0].ifs
    ck.ob('TAB-helix', mod.loc(conv), ok_w, 'the helix mask is taken from the table-translated sequence (everything the table calls H, the Martini helix classes 1/2/3 included)',
          key='TAB-helix|mask-source')
    cg = single_def(conv, 'cg_sequence')
    ck.ob('TAB-helix', mod.loc(conv), cg is not None and 'SS_CG[' in u(cg) and 'for secstruct in sequence' in u(cg) and ' if ' not in u(cg),
          'every input class is translated through SS_CG, none skipped', key='TAB-helix|translate-all')
    shared.runs_every_molecule(ck, 'vermouth/dssp/dssp.py', 'AnnotateMartiniSecondaryStructures', 'MPT-every-molecule')
    shared.runs_every_molecule(ck, 'vermouth/dssp/dssp.py', 'AnnotateDSSP', 'MPT-every-molecule')
    ck.assume('the rewriting outcome for every string is not decided; only table shape, coverage and length preservation')


def single_def_outside(fn, name, loop):
    vals = []
    for node in walk_local(fn):
        if isinstance(node, ast.Assign) and any(isinstance(t, ast.Name) and t.id == name for t in node.targets):
            if not any(n is node for n in ast.walk(loop)):
                vals.append(node.value)
    return vals[0] if len(vals) == 1 else None
