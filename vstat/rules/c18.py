"""C18 -- Go-model sites and contacts mirror the backbone and the contact map."""
import ast

from ..index import u, call_name, call_attr, walk_local
from .. import flow
from ..fold import try_fold
from ..util import stmts_with_env, calls_with_env, assignments_to, single_def, kwarg, param_defaults
from .common import method, unconditional_in

VS = 'vermouth/rcsu/go_vs_includes.py'
SB = 'vermouth/rcsu/go_structure_bias.py'


def run(ck):
    idx = ck.index
    vs = idx.mod(VS)
    sb = idx.mod(SB)

    # ------------------------------------------------------------ virtual sites
    cls = vs.cls('VirtualSiteCreator')
    av = ck.need(method(cls, 'add_virtual_sites'), 'VirtualSiteCreator.add_virtual_sites vanished')
    ck.analysed(vs, av)
    loops = [n for n in av.body if isinstance(n, ast.For) and 'molecule.nodes' in u(n.iter)]
    ck.need(len(loops) == 1, 'add_virtual_sites: loop over the atoms not found')
    loop = loops[0]
    node_var, atom_var = [u(e) for e in loop.target.elts] if isinstance(loop.target, ast.Tuple) else ('?', '?')
    ck.ob('PROV-site', vs.loc(loop), u(loop.iter) in ('molecule.nodes(data=True)', 'molecule.nodes.items()', 'molecule.nodes.data()'),
          'the site loop visits every atom of the molecule with its attributes (`{}`)'.format(u(loop.iter)), key='PROV-site|loop')
    # the record, wherever the backbone branch puts it (`if bb: ...` or `if not bb: continue` + ...)
    rec = None
    rec_cond = None
    for st_, cond_, _e in stmts_with_env(av, lambda s_: isinstance(s_, ast.Expr) and call_attr(s_.value) == 'append', stmts=loop.body):
        a = st_.value.args[0] if st_.value.args else None
        if isinstance(a, ast.Tuple) and len(a.elts) == 2 and isinstance(a.elts[1], ast.Dict):
            rec = (st_, a)
            rec_cond = cond_
    body = []
    if rec is not None:
        def block_of(stmts):
            for s_ in stmts:
                if s_ is rec[0]:
                    return stmts
                for fld in ('body', 'orelse'):
                    sub = getattr(s_, fld, None)
                    if isinstance(sub, list) and sub and isinstance(sub[0], ast.stmt):
                        got = block_of(sub)
                        if got is not None:
                            return got
            return None
        body = block_of(loop.body) or []
    want_guard = flow.to_formula(ast.parse("{}.get('atomname') == backbone".format(atom_var), mode='eval').body)
    ok_guard = rec_cond is not None and flow.equivalent(rec_cond, want_guard)[0]
    ck.ob('PROV-site', vs.loc(loop), ok_guard, 'a site is made exactly for atoms whose atomname is the backbone name (condition of the record: {})'.format(
        flow.show(rec_cond)[:80] if rec_cond is not None else '?'), key='PROV-site|guard')
    appends = [s for s in body if isinstance(s, ast.Expr) and call_attr(s.value) == 'append']
    ck.need(rec is not None, 'add_virtual_sites: (key, attributes) record of the new site not found')
    rec_stmt, rec_tuple = rec
    key_name = u(rec_tuple.elts[0])
    fields = {try_fold(k): v for k, v in zip(rec_tuple.elts[1].keys, rec_tuple.elts[1].values)}
    for f in ('resid', 'resname', 'chain', 'position', '_old_resid'):
        ck.ob('PROV-site', vs.loc(rec_stmt), f in fields and u(fields[f]) == "{}['{}']".format(atom_var, f),
              'site attribute {!r} is the backbone particle\'s own (`{}`)'.format(f, u(fields.get(f))), key='PROV-site|field|' + f)
    ck.ob('PROV-site', vs.loc(rec_stmt), 'mass' in fields and try_fold(fields['mass'], default=1) == 0, 'site mass is zero', key='PROV-site|field|mass')
    cdef = param_defaults(av).get('charge')
    ck.ob('PROV-site', vs.loc(rec_stmt), 'charge' in fields and u(fields['charge']) == 'charge' and try_fold(cdef, default=1) == 0,
          'site charge is the `charge` parameter, default 0', key='PROV-site|field|charge')
    at = fields.get('atype')
    ok = isinstance(at, ast.Call) and call_attr(at) == 'format' and try_fold(at.func.value) == '{}_{}' and \
        [u(a) for a in at.args] == ['prefix', "{}['resid']".format(atom_var)]
    ck.ob('PROV-site', vs.loc(rec_stmt), ok, 'site type is "<prefix>_<resid>" of the (unique, renumbered) residue number (`{}`)'.format(u(at)), key='PROV-site|field|atype')
    ck.ob('PROV-site', vs.loc(rec_stmt), 'atomname' in fields and u(fields['atomname']) == 'atomname', 'site atom name is the requested one', key='PROV-site|field|atomname')
    # keys start after the maximum, one increment per site
    init = single_def(av, key_name)
    incs = [s for s in body if isinstance(s, ast.AugAssign) and u(s.target) == key_name]
    ok = init is not None and u(init) in ('max(molecule.nodes)', 'max(molecule)', 'max(molecule.nodes())') and len(incs) == 1 and \
        isinstance(incs[0].op, ast.Add) and try_fold(incs[0].value) == 1 and body.index(incs[0]) < body.index(rec_stmt) and \
        not [s for s in walk_local(av) if isinstance(s, ast.AugAssign) and u(s.target) == key_name and s is not incs[0]]
    ck.ob('PROV-site', vs.loc(av), ok, 'new keys start after the current highest key and grow by one per site, before use', key='PROV-site|keys')
    # one interaction per site, constructed from [site, backbone]
    inter = [s for s in appends if s is not rec_stmt and 'Interaction(' in u(s)]
    ok = len(inter) == 1
    if ok:
        c = inter[0].value.args[0]
        atoms = kwarg(c, 'atoms')
        ok = atoms is not None and [u(e) for e in atoms.elts] == [key_name, node_var] and try_fold(kwarg(c, 'parameters')) == ['1']
    ck.ob('PROV-site', vs.loc(av), ok, 'one construction per site: virtual_sitesn over [site, its backbone particle], function type 1', key='PROV-site|construction')
    atyp = [s for s in body if isinstance(s, ast.Expr) and 'atomtypes' in u(s) and call_attr(s.value) == 'append']

    def same_cond(stmt):
        got = stmts_with_env(av, lambda s_: s_ is stmt, stmts=loop.body)
        return bool(got) and flow.equivalent(got[0][1], rec_cond)[0]
    ck.ob('PROV-site', vs.loc(av), len(atyp) == 1 and all(same_cond(s) for s in [rec_stmt] + inter + atyp + incs),
          'record, construction, atom type and key increment are unconditional within the backbone branch (exactly one of each per backbone particle)',
          key='PROV-site|one-each')
    # insertion after the loop
    after = av.body[av.body.index(loop) + 1:]
    target = u(rec_stmt.value.func.value)
    ilist = u(inter[0].value.func.value) if inter else '?'
    ok = any(isinstance(s, ast.Expr) and call_attr(s.value) == 'add_nodes_from' and u(s.value.args[0]) == target for s in after) and \
        any(isinstance(s, ast.AugAssign) and "interactions['virtual_sitesn']" in u(s.target) and u(s.value) == ilist for s in after)
    ck.ob('PROV-site', vs.loc(av), ok, 'all collected sites and constructions are inserted after the loop (sites come after all existing atoms)', key='PROV-site|insert')

    # ------------------------------------------------------------ contact criteria
    cg = sb.cls('ComputeStructuralGoBias')
    sel = ck.need(method(cg, 'contact_selector'), 'ComputeStructuralGoBias.contact_selector vanished')
    comp = ck.need(method(cg, 'compute_go_interaction'), 'ComputeStructuralGoBias.compute_go_interaction vanished')
    runm = ck.need(method(cg, 'run_molecule'), 'ComputeStructuralGoBias.run_molecule vanished')
    init_m = ck.need(method(cg, '__init__'), 'ComputeStructuralGoBias.__init__ vanished')
    for m in (sel, comp, runm):
        ck.analysed(sb, m)
    cloops = [n for n in sel.body if isinstance(n, ast.For) and 'go_map' in u(n.iter)]
    ck.need(len(cloops) == 1, 'contact_selector: loop over the contact map not found')
    cl = cloops[0]
    ret = [s for s in sel.body if isinstance(s, ast.Return)]
    ck.need(len(ret) == 1 and isinstance(ret[0].value, ast.Name), 'contact_selector: single `return <list>` not found')
    sym = ret[0].value.id
    pre_env = {}
    for st, c, e in stmts_with_env(sel, lambda s: s is cl):
        pre_env = e
    sinks = stmts_with_env(sel, lambda s: isinstance(s, ast.Expr) and call_attr(s.value) == 'append' and u(s.value.func.value) == sym, stmts=cl.body, env=pre_env)
    ck.ob('DT-contact', sb.loc(cl), len(sinks) == 1, 'exactly one site adds a contact to the returned list ({} found)'.format(len(sinks)), key='DT-contact|single-site')
    ck.ob('DT-contact', sb.loc(cl), not any(isinstance(n, (ast.Break, ast.Return)) for n in ast.walk(cl)),
          'every entry of the contact map is examined: nothing ends the loop early (an entry that cannot be resolved is skipped, the ones after it still count)', key='DT-contact|all-entries')
    excl = stmts_with_env(sel, lambda s: isinstance(s, ast.Expr) and call_attr(s.value) == 'append' and "interactions['exclusions']" in u(s), stmts=cl.body, env=pre_env)
    if len(sinks) == 1:
        st, cond, env = sinks[0]
        unpack = [s for s in cl.body if isinstance(s, ast.Assign) and isinstance(s.targets[0], ast.Tuple) and u(s.value) == u(cl.target)]
        ck.need(len(unpack) == 1 and len(unpack[0].targets[0].elts) == 4, 'contact_selector: unpacking of a contact (resid A, chain A, resid B, chain B) not found')
        ra, ca, rb, cb = [u(e) for e in unpack[0].targets[0].elts]
        look_a = 'self._chain_id_to_resnode({}, {})'.format(ca, ra)
        look_b = 'self._chain_id_to_resnode({}, {})'.format(cb, rb)
        entry = u(flow.subst(st.value.args[0], env))
        names = {}
        dist_txt = None
        for k in flow.atoms_of(cond):
            t = ' '.join(map(str, k))
            if k[0] == 'Is' and 'None' in k[1:]:
                other = [x for x in k[1:] if x != 'None'][0]
                names[k] = 'NA' if other == look_a else ('NB' if other == look_b else None)
            elif k[0] == 'In' and k[1] == look_b and 'connected' in k[2] or (k[0] == 'In' and k[1] == look_b and look_a in k[2]):
                # resB in <table of residues within res_dist of resA>[resA]
                table = k[2]
                names[k] = 'NEAR' if table.endswith('[{}]'.format(look_a)) and 'all_pairs_shortest_path_length(self.res_graph, cutoff=self.res_dist)' in table else None
            elif k[0] == 'Gt' and k[1] == 'self.cutoff_long':
                names[k] = 'HI'
                dist_txt = k[2]
            elif k[0] == 'Gt' and k[2] == 'self.cutoff_short':
                names[k] = 'LO'
                dist_txt = dist_txt or k[1]
            elif k[0] == 'In' and k[1].startswith('(') and 'contact_matrix' in k[2] or (k[0] == 'In' and k[1].startswith('(') and k[1].count(',') == 2):
                names[k] = ('REV', k)
            else:
                names[k] = None
        # the distance of both cut-off tests is the backbone-backbone distance of the two residues
        ok_dist = False
        if dist_txt:
            ok_dist = dist_txt.startswith('np.linalg.norm(') and dist_txt.count("['position']") == 2 and look_a in dist_txt and look_b in dist_txt \
                and dist_txt.count('select_backbone') == 2 and dist_txt.count('bb_atomname=self.backbone') == 2 and ' - ' in dist_txt
            ok_dist = ok_dist and all((k[2] if v == 'HI' else k[1]) == dist_txt for k, v in names.items() if v in ('HI', 'LO'))
        # reversed listing: (b, a, dist) in the list that receives (a, b, dist)
        rev = [k for k, v in names.items() if isinstance(v, tuple) and v[0] == 'REV']
        ok_rev = False
        if len(rev) == 1:
            k = rev[0]
            probe = ast.parse(k[1], mode='eval').body
            one_dir = k[2]
            firsts = stmts_with_env(sel, lambda s: isinstance(s, ast.Expr) and call_attr(s.value) == 'append' and u(s.value.func.value) == one_dir, stmts=cl.body, env=pre_env)
            if len(firsts) == 1 and isinstance(probe, ast.Tuple) and len(probe.elts) == 3:
                stored = flow.subst(firsts[0][0].value.args[0], firsts[0][2])
                got = ast.parse(entry, mode='eval').body
                if isinstance(stored, ast.Tuple) and len(stored.elts) == 3 and isinstance(got, ast.Tuple) and len(got.elts) == 3:
                    s0, s1, s2 = [u(e) for e in stored.elts]
                    p0, p1, p2 = [u(e) for e in probe.elts]
                    g0, g1, g2 = [u(e) for e in got.elts]
                    ok_rev = (p0, p1, p2) == (s1, s0, s2) and (g0, g1, g2) == (s0, s1, s2) and s0 != s1 and s2 == dist_txt
                    # the one-directional list receives the entry exactly when the reversed one is not there yet
                    c_first = flow.rename(firsts[0][1], {k: 'REV'})
                    c_sym = flow.rename(cond, {k: 'REV'})
                    same_rest = flow.equivalent(flow.rename(c_first, {'REV': False}), flow.rename(c_sym, {'REV': True}))[0]
                    ok_rev = ok_rev and same_rest
            names[k] = 'REV' if ok_rev else None
        bad = [k for k, v in names.items() if not isinstance(v, str)]
        f = flow.rename(cond, {k: v for k, v in names.items() if isinstance(v, str)})
        want = flow.parse_formula('not NA and not NB and not NEAR and LO and HI and REV')
        eq, cex, rows = flow.equivalent(f, want)
        have = {v for v in names.values() if isinstance(v, str)}
        detail = ''
        if bad:
            detail = ' -- unrecognised condition(s): ' + '; '.join(' '.join(map(str, b))[:100] for b in bad)
        elif not eq:
            detail = ' -- differs for {}'.format(cex)
        ck.ob('DT-contact', sb.loc(st), eq and not bad and have == {'NA', 'NB', 'NEAR', 'LO', 'HI', 'REV'} and ok_dist,
              'a Go contact is emitted exactly when both residues are found, they are further apart than res_dist on the residue graph, the backbone '
              'distance is strictly between the cut-offs and the reverse listing was seen before ({} rows over {}; distance operand ok: {}){}'.format(
                  rows, sorted(have), ok_dist, detail), key='DT-contact|guard')
        ok_ex = len(excl) == 1 and flow.equivalent(excl[0][1], cond)[0]
        if ok_ex:
            ecall = flow.subst(excl[0][0].value.args[0], excl[0][2])
            a = kwarg(ecall, 'atoms') if isinstance(ecall, ast.Call) else None
            ok_ex = a is not None and isinstance(a, ast.Tuple) and dist_txt is not None and all(u(flow.subst(e, excl[0][2])) in dist_txt for e in a.elts) and len(a.elts) == 2
        ck.ob('DT-contact', sb.loc(cl), ok_ex, 'the two backbone particles are excluded from each other under exactly the same condition', key='DT-contact|exclusion')
        tup = ast.parse(entry, mode='eval').body
        ok_t = isinstance(tup, ast.Tuple) and len(tup.elts) == 3 and all('get_go_type_from_attributes' in u(e) for e in tup.elts[:2]) and \
            look_a in u(tup.elts[0]) and look_b in u(tup.elts[1]) and ('prefix=self.moltype' in u(tup.elts[0]) or ", self.moltype, " in u(tup.elts[0]))
        ck.ob('DT-contact', sb.loc(st), ok_t, 'the emitted entry carries the Go site types of residue A and residue B and that distance', key='DT-contact|entry')
    # sigma / epsilon
    cf = [s for s in walk_local(init_m) if isinstance(s, ast.Assign) and u(s.targets[0]) == 'self.conversion_factor']
    ok = len(cf) == 1 and abs((try_fold(cf[0].value, default=0) or 0) - 2 ** (1 / 6)) < 1e-12
    floop = [n for n in comp.body if isinstance(n, ast.For)]
    ok2 = len(floop) == 1 and u(floop[0].iter) == comp.args.args[1].arg
    if ok2:
        a, b, d = [u(e) for e in floop[0].target.elts]
        sig = single_def(comp, 'sigma')
        nb = [c for c in walk_local(comp) if isinstance(c, ast.Call) and call_name(c) == 'NonbondParam']
        # sigma as a local or written straight into the call
        sig_txt = u(sig) if sig is not None else (u(kwarg(nb[0], 'sigma')) if len(nb) == 1 and kwarg(nb[0], 'sigma') is not None else '?')
        ok2 = sig_txt == '{} / self.conversion_factor'.format(d) and len(nb) == 1 and u(kwarg(nb[0], 'sigma')) in ('sigma', sig_txt) and \
            u(kwarg(nb[0], 'epsilon')) == 'self.go_eps' and u(kwarg(nb[0], 'atoms')) == '({}, {})'.format(a, b)
        app = [s for s in floop[0].body if isinstance(s, ast.Expr) and call_attr(s.value) == 'append' and 'nonbond_params' in u(s)]
        ok2 = ok2 and len(app) == 1 and unconditional_in(comp, floop[0].body, app[0])
    ck.ob('PROV-sigma', sb.loc(comp), ok and ok2, 'every selected contact gets sigma = distance / 2**(1/6) and the requested depth, unconditionally', key='PROV-sigma')
    wiring = u(runm)
    ck.ob('PROV-sigma', sb.loc(runm), 'contacts = self.contact_selector(molecule)' in wiring and 'self.compute_go_interaction(contacts)' in wiring and
          'self.res_graph = make_residue_graph(molecule)' in wiring, 'the pair potentials are computed from exactly the selected contacts of this molecule',
          key='PROV-sigma|wiring')
    # residue lookup: per-instance table over all residues, keyed (chain, input resid)
    lk = ck.need(method(cg, '_chain_id_to_resnode'), 'ComputeStructuralGoBias._chain_id_to_resnode vanished')
    ck.analysed(sb, lk)
    lp = [n for n in lk.body if isinstance(n, ast.For) and u(n.iter) == 'self.res_graph.nodes']
    ok = len(lp) == 1
    if ok:
        st = [s_ for s_ in lp[0].body if isinstance(s_, ast.Assign) and isinstance(s_.targets[0], ast.Subscript) and 'chain_id_to_resnode' in u(s_.targets[0])]
        ok = len(st) == 1 and unconditional_in(lk, lp[0].body, st[0]) and not any(isinstance(n, (ast.Continue, ast.Break)) for n in ast.walk(lp[0]))
        if ok:
            key = u(flow.subst(st[0].targets[0].slice, {k: v for s2, c2, e2 in stmts_with_env(lk, lambda s_: s_ is st[0], stmts=lp[0].body) for k, v in e2.items()}))
            ok = key == "(self.res_graph.nodes[{0}].get('chain', None), self.res_graph.nodes[{0}].get('_old_resid'))".format(u(lp[0].target)) and u(st[0].value) == u(lp[0].target)
    ck.ob('PROV-lookup', sb.loc(lk), ok, 'every residue of the molecule is entered in the lookup table under (chain, input residue number) -- none skipped (residue number 0 included)',
          key='PROV-lookup|table')
    cls_level = [s_ for s_ in cg.body if isinstance(s_, ast.Assign) and isinstance(s_.value, (ast.Dict, ast.List, ast.Set))]
    init_tbl = [s_ for s_ in walk_local(init_m) if isinstance(s_, ast.Assign) and 'chain_id_to_resnode' in u(s_.targets[0]) and u(s_.value) == '{}']
    ck.ob('PROV-lookup', sb.loc(cg), not cls_level and len(init_tbl) == 1, 'the table is created per processor instance (no class-level mutable state shared between runs)',
          key='PROV-lookup|per-instance')
    from . import shared
    # the Go pipeline first merges all molecules into one (MergeAllMolecules -> Molecule.merge_molecule): site types are `<molecule>_<resid>` and contacts are looked
    # up by residue, so the merge must keep every atom and give the newcomer's residues numbers above the receiver's (C12's merge clause, evaluated here too)
    from .c12 import merge_rules
    merge_rules(ck)
    shared.truthy_zero(ck, [SB, VS, 'vermouth/rcsu/go_utils.py', 'vermouth/rcsu/go_pipeline.py'])
    # ------------------------------------------------------------ KW: the settings given to GoPipeline.run_system reach the processors by *name*
    gp = ck.index.mod('vermouth/rcsu/go_pipeline.py')
    cli = ck.index.mod('bin/martinize2')
    pl = gp.constants.get('GoPipeline')
    procs = [u(e) for e in pl.args[0].elts] if isinstance(pl, ast.Call) and pl.args and isinstance(pl.args[0], ast.List) else []
    ck.ob('KW-wiring', 'vermouth/rcsu/go_pipeline.py', procs == ['SetMoleculeMeta', 'VirtualSiteCreator', 'ComputeStructuralGoBias'],
          'the Go pipeline is meta -> virtual sites -> structural bias ({})'.format(procs), key='KW-wiring|order')
    ctor = {}
    for name in procs:
        hits = [(m_, q_, f_) for m_, q_, f_ in ck.index.all_functions() if q_ == name + '.__init__']
        if len(hits) == 1:
            f_ = hits[0][2]
            pos_ = [a.arg for a in f_.args.args[1:]]
            nd = len(f_.args.defaults)
            ctor[name] = (pos_, set(pos_[:len(pos_) - nd]) if nd else set(pos_), f_.args.kwarg is not None)
    calls = [c for c in ast.walk(cli.tree) if isinstance(c, ast.Call) and u(c.func) == 'GoPipeline.run_system']
    ok = len(calls) == 1 and len(ctor) == len(procs) > 0
    passed = {k.arg for k in calls[0].keywords if k.arg} if calls else set()
    unconsumed = sorted(k for k in passed if not any(k in pos_ or kw_ for pos_, req_, kw_ in ctor.values()))
    missing = sorted((name, r) for name, (pos_, req_, kw_) in ctor.items() for r in req_ if r not in passed)
    ck.ob('KW-wiring', cli.loc(calls[0]) if calls else 'bin/martinize2', ok and not unconsumed and not missing,
          'the pipeline hands each processor the run_system keywords whose *names* its constructor declares (others are dropped silently): every keyword the CLI passes '
          '({}) is declared by some constructor (undeclared: {}), and every required constructor parameter is passed (missing: {})'.format(sorted(passed), unconsumed, missing),
          key='KW-wiring|consumed')
    shared_names = ['go_anchor_bead']
    for nm in shared_names:
        users = [name for name, (pos_, req_, kw_) in ctor.items() if nm in pos_]
        ck.ob('KW-wiring', 'vermouth/rcsu/go_pipeline.py', set(users) >= {'VirtualSiteCreator', 'ComputeStructuralGoBias'},
              'both the site creator and the contact selector take the backbone particle name under the keyword `{}` (declared by: {}) -- sites and contacts use the same particle'.format(nm, users),
              key='KW-wiring|' + nm)
    prep = ck.need(method(gp.cls('GoProcessorPipeline'), 'prepare_run'), 'GoProcessorPipeline.prepare_run vanished')
    ck.analysed(gp, prep)
    sets = [s_ for s_ in walk_local(prep) if isinstance(s_, ast.Assign) and u(s_.targets[0]) == "molecule.meta['moltype']"]
    ok = len(sets) == 1 and u(sets[0].value) == 'moltype' and unconditional_in(prep, prep.body, sets[0]) and u(single_def(prep, 'molecule')) == 'system.molecules[0]' and \
        'vermouth.MergeAllMolecules().run_system(system)' in u(prep)
    ck.ob('KW-wiring', gp.loc(prep), ok, 'the merged molecule is given the requested molecule-type name unconditionally (the site creator names the site types after the molecule\'s name, '
          'the contact selector after the requested name: they must be the same)', key='KW-wiring|moltype')
    rsys = ck.need(method(gp.cls('GoProcessorPipeline'), 'run_system'), 'GoProcessorPipeline.run_system vanished')
    ck.analysed(gp, rsys)
    src = u(rsys)
    ok = 'process_args = inspect.getfullargspec(processor).args' in src and 'processor(**process_args_values).run_system(system)' in src and \
        'for processor in self.processor_list:' in src and not any(isinstance(n, (ast.Break, ast.Continue, ast.Return)) for l in ast.walk(rsys) if isinstance(l, ast.For) for n in ast.walk(l))
    ck.ob('KW-wiring', gp.loc(rsys), ok, 'every processor of the list is constructed from the matching keywords and run on the system, in order', key='KW-wiring|run')
    # every processor runs for every contact list (an empty list still needs its sites): no return before or inside the loop
    rets_ = [r_ for r_ in walk_local(rsys) if isinstance(r_, ast.Return)]
    ck.ob('KW-wiring', gp.loc(rsys), len(rets_) == 1 and rsys.body[-1] is rets_[0], 'the pipeline has no early exit: its only return is the last statement ({} return(s))'.format(len(rets_)),
          key='KW-wiring|run|no-early-exit')
    # the site types are `<molecule type>_<resid>` with the *renumbered* residue numbers (unique in the merged molecule): the input numbering (-resid input) is
    # put back only once, after every step that names or looks up residues
    cli_entry = cli.func('entry')
    restores = [c for c in walk_local(cli_entry) if isinstance(c, ast.Call) and call_name(c) in ('nx.set_node_attributes', 'networkx.set_node_attributes')
                and len(c.args) >= 3 and try_fold(c.args[2], default=None) == 'resid']
    gocalls = [c for c in walk_local(cli_entry) if isinstance(c, ast.Call) and call_attr(c) == 'run_system' and 'GoPipeline' in u(c.func.value)]
    ok = len(restores) == 1 and len(gocalls) == 1 and restores[0].lineno > gocalls[0].lineno
    ck.ob('ORD-resid-restore', cli.loc(restores[0]) if restores else 'bin/martinize2', ok, 'the input residue numbers are restored in one place, after the Go pipeline ran '
          '({} restoring site(s))'.format(len(restores)), key='ORD-resid-restore')
    # the keywords handed to a processor: every given option the constructor accepts, with its value -- selected by name only (0 and '' are values)
    pav = single_def(rsys, 'process_args_values')
    ok = isinstance(pav, ast.DictComp) and len(pav.generators) == 1
    if ok:
        g_ = pav.generators[0]
        it_ = u(g_.iter)
        if isinstance(g_.target, ast.Tuple) and len(g_.target.elts) == 2 and it_ in ('kwargs.items()', 'self.kwargs.items()'):
            kv_, vals_ = u(g_.target.elts[0]), {u(g_.target.elts[1])}
        else:
            kv_, vals_ = u(g_.target), set()
            ok = it_ in ('kwargs', 'kwargs.keys()', 'self.kwargs', 'self.kwargs.keys()')
        vals_ |= {'kwargs[{}]'.format(kv_), 'self.kwargs[{}]'.format(kv_)}
        ok = ok and u(pav.key) == kv_ and u(pav.value) in vals_ and [u(c) for c in g_.ifs] == ['{} in process_args'.format(kv_)]
    ck.ob('KW-wiring', gp.loc(rsys), ok, 'a processor receives every option it accepts, whatever its value: the keywords are filtered by name only (`{}`)'.format(u(pav)[:140] if pav is not None else '?'),
          key='KW-wiring|run|by-name-only')
    # ------------------------------------------------------------ SIB: every producer of the contact list uses the layout the consumer unpacks
    cmm = ck.index.mod('vermouth/rcsu/contact_map.py')
    rgm_ = cmm.func('read_go_map')
    gc = cmm.func('_get_contacts')
    for f_ in (rgm_, gc):
        ck.analysed(cmm, f_)
    want_names = [ra, ca, rb, cb] if len(sinks) == 1 else ['resIDA', 'chainA', 'resIDB', 'chainB']
    # reader: (int(resid col), chain col, int(resid col), chain col); columns per the documented header R ID I1 AA C I(PDB) I2 AA C I(PDB) DCA OV CSU oCSU rCSU ...
    app = [c for c in walk_local(rgm_) if isinstance(c, ast.Call) and call_attr(c) == 'append' and u(c.func.value) == 'contacts']
    ok = len(app) == 1 and u(app[0].args[0]) == '(int(tokens[5]), tokens[4], int(tokens[9]), tokens[8])'
    ck.ob('SIB-contact-layout', cmm.loc(rgm_), ok, 'read_go_map stores a contact as (resid A, chain A, resid B, chain B) = columns (5, 4, 9, 8) of an "R" line -- the order '
          'contact_selector unpacks ({})'.format(', '.join(want_names)), key='SIB-contact-layout|reader')
    if len(app) == 1:
        found = stmts_with_env(rgm_, lambda s_: isinstance(s_, ast.Expr) and s_.value is app[0])
        names = {}
        for k in flow.atoms_of(found[0][1]) if found else []:
            t = ' '.join(map(str, k))
            if k[0] == 'Eq' and t.endswith('[11]') and "'1'" in k[1:]:
                names[k] = 'OV'
            elif k[0] == 'Eq' and t.endswith('[11]') and "'0'" in k[1:]:
                names[k] = 'NOOV'
            elif k[0] == 'Eq' and t.endswith('[14]') and "'1'" in k[1:]:
                names[k] = 'RCSU'
            elif k[0] == 'Eq' and t.endswith('[0]') and "'R'" in k[1:]:
                names[k] = 'ISR'
            elif k[0] == 'Eq' and 'len(' in t and '18' in k[1:]:
                names[k] = 'N18'
            elif k[0] == 'Eq' and 'len(' in t and '0' in k[1:]:
                names[k] = 'EMPTY'
        okf = bool(found) and flow.equivalent(flow.rename(found[0][1], names), flow.parse_formula('ISR and N18 and (OV or (NOOV and RCSU))'),
                                              flow.parse_formula('not (OV and NOOV) and not (EMPTY and N18)'))[0]
        ck.ob('SIB-contact-layout', cmm.loc(rgm_), okf, 'read_go_map keeps a line exactly when it is an 18-column "R" line that is an overlap contact, or no overlap but a net rCSU contact '
              '(same criterion as the built-in generator)', key='SIB-contact-layout|reader-filter')
    gapp = [c for c in walk_local(gc) if isinstance(c, ast.Call) and call_attr(c) == 'append' and u(c.func.value) == 'contacts_list']
    ok = len(gapp) == 1 and u(gapp[0].args[0]) == "(int(G.nodes[a]['resid']), G.nodes[a]['chain'], int(G.nodes[b]['resid']), G.nodes[b]['chain'])"
    ck.ob('SIB-contact-layout', cmm.loc(gc), ok, 'the built-in generator stores a contact in the same layout, from the residue attributes of the two residues of that contact',
          key='SIB-contact-layout|generator')
    if len(gapp) == 1:
        found = stmts_with_env(gc, lambda s_: isinstance(s_, ast.Expr) and s_.value is gapp[0])
        names = {}
        for k in flow.atoms_of(found[0][1]) if found else []:
            t = ' '.join(map(str, k))
            if k[0] == 'Eq' and '1' in k[1:] and any(x.startswith('overlaps[') for x in k[1:]):
                names[k] = 'OV'
            elif k[0] == 'Eq' and '0' in k[1:] and any(x.startswith('overlaps[') for x in k[1:]):
                names[k] = 'NOOV'
            elif k[0] == 'Gt' and k[2] == '0' and k[1].replace(' ', '') == 'stabilisers[i1,i2]-destabilisers[i1,i2]':
                names[k] = 'RCSU'
            elif k[0] == 'Gt' and k[2] == '0' and k[1].startswith('overlaps['):
                names[k] = 'ANY_O'
            elif k[0] == 'Gt' and k[2] == '0' and k[1].startswith('contacts['):
                names[k] = 'ANY_C'
            elif k[0] == 'Eq' and set(k[1:]) == {'i1', 'i2'}:
                names[k] = 'SELF'
        okf = bool(found) and flow.implies(flow.parse_formula('(OV or (NOOV and RCSU))'), flow.parse_formula('OV or NOOV'))[0] and \
            flow.equivalent(flow.rename(found[0][1], names), flow.parse_formula('not SELF and (ANY_O or ANY_C) and (OV or (NOOV and RCSU))'))[0]
        ck.ob('SIB-contact-layout', cmm.loc(gc), okf, 'the generator keeps a residue pair exactly when it overlaps, or does not overlap but has a net rCSU contact', key='SIB-contact-layout|generator-filter')
    gcm = cmm.cls('GenerateContactMap')
    grs = method(gcm, 'run_system')
    ok = grs is not None and 'for molecule in system.molecules:' in u(grs) and "system.go_params['go_map'].append(contacts)" in u(grs) and 'contacts = self.run_molecule(molecule)' in u(grs)
    ck.ob('SIB-contact-layout', cmm.loc(gcm), ok and "system.go_params['go_map'].append(contacts)" in u(rgm_),
          'both producers append one contact list to go_params["go_map"]; the consumer reads entry [0]', key='SIB-contact-layout|store')
    ck.assume('residue lookup by (chain, input resid) and float equality of the two listed directions are not decided')
