"""C19 -- mutation and modification requests hit exactly the residues they name."""
import ast

from ..index import u, call_name, call_attr, walk_local, base_name
from .. import flow
from ..fold import try_fold
from ..util import stmts_with_env, calls_with_env, assignments_to, single_def, kwarg, param_names
from . import shared
from .common import method, guarded_by_raise, has_atom, unconditional_in, evaluated_whenever_statement_runs

AM = 'vermouth/processors/annotate_mut_mod.py'
RG = 'vermouth/processors/repair_graph.py'


def flag_rule(ck, module, fn, qual):
    """FLAG: a variable assigned a constant at the top of each iteration and
    read after the loop reflects the last iteration only."""
    n = 0
    for loop in [l for l in walk_local(fn) if isinstance(l, (ast.For, ast.While))]:
        if any(loop is inner for outer in walk_local(fn) if isinstance(outer, (ast.For, ast.While)) and outer is not loop for inner in ast.walk(outer)):
            continue   # only outermost loops
        # names assigned a bool/None constant somewhere in the loop
        consts = {}
        for node in ast.walk(loop):
            if isinstance(node, ast.Assign) and len(node.targets) == 1 and isinstance(node.targets[0], ast.Name) and isinstance(node.value, ast.Constant) \
                    and isinstance(node.value.value, (bool, type(None))):
                consts.setdefault(node.targets[0].id, []).append(node)
        for name, assigns in consts.items():
            # read after the loop?
            after = []
            seen = False
            parent_body = module.enclosing(loop, (ast.FunctionDef, ast.If, ast.For, ast.While, ast.With, ast.Try))
            for st in fn.body:
                if seen:
                    after += [x for x in ast.walk(st) if isinstance(x, ast.Name) and x.id == name and isinstance(x.ctx, ast.Load)]
                if any(x is loop for x in ast.walk(st)):
                    seen = True
            if not after:
                continue
            # monotone flags (only ever set to one constant inside the loop, initialised to the other before) aggregate correctly
            values_in = {a.value.value for a in assigns}
            pre = [v for v in assignments_to(fn, name) if not any(v is x for x in ast.walk(loop))]
            monotone = len(values_in) == 1 and pre and all(isinstance(v, ast.Constant) and v.value not in values_in for v in pre)
            n += 1
            ck.ob('FLAG-aggregate', module.loc(assigns[0]), monotone,
                  '{}: `{}` is re-assigned {} inside a loop and read after it: {}'.format(
                      qual, name, sorted(map(str, values_in)),
                      'monotone flag (set one way only, initialised before the loop)' if monotone else
                      'it reflects the last iteration(s) only, yet decides something about all of them'),
                  key='FLAG-aggregate|{}|{}'.format(qual, name))
    return n


def surplus_rule(ck, rule):
    """repair_graph(): an unrecognised atom is dropped exactly when its own residue carries a request -- shared by C19 and C04."""
    rg = ck.index.mod(RG)
    rgf = rg.func('repair_graph')
    ck.analysed(rg, rgf)
    rem = stmts_with_env(rgf, lambda s: isinstance(s, ast.Expr) and call_attr(s.value) == 'remove_node')
    ok = len(rem) == 1
    if ok:
        st, c, e = rem[0]
        loop = rg.enclosing(st, ast.For)
        rel = stmts_with_env(rgf, lambda s: s is st, stmts=loop.body)
        names = {}
        for k in flow.atoms_of(rel[0][1]):
            if k[0] == 'truth' and k[1] == "molecule.nodes[{}].get('mutation')".format(u(loop.target)):
                names[k] = 'MUT'
            elif k[0] == 'truth' and k[1] == "molecule.nodes[{}].get('modification')".format(u(loop.target)):
                names[k] = 'MOD'
        ok = flow.equivalent(flow.rename(rel[0][1], names), flow.parse_formula('MUT or MOD'))[0] and u(st.value.args[0]) == u(loop.target)
        src = single_def(rgf, u(loop.iter)) if isinstance(loop.iter, ast.Name) else loop.iter
        ok = ok and src is not None and u(src) == 'set(found.nodes) - set(match.values())'
    ck.ob(rule, rg.loc(rgf), ok, 'an atom of the old residue that the requested block/modification does not account for is removed exactly when the residue '
          'carries a mutation or modification request', key=rule)


def run(ck):
    idx = ck.index
    mod = idx.mod(AM)
    rg = idx.mod(RG)
    ann = mod.func('annotate_modifications')
    resiter = mod.func('_resiter')
    rmatch = mod.func('residue_matches')
    term = mod.func('_terminal_matches')
    parse = mod.func('parse_residue_spec')
    cls = mod.cls('AnnotateMutMod')
    rs = ck.need(method(cls, 'run_system'), 'AnnotateMutMod.run_system vanished')
    for f in (ann, resiter, rmatch, term, parse, rs):
        ck.analysed(mod, f)

    # ------------------------------------------------------------ FLAG: the not-found report
    n = 0
    for qual, fn in mod.functions.items():
        n += flag_rule(ck, mod, fn, qual)
    ck.extra['flag_candidates_in_module'] = n
    # every request's outcome is recorded, and every unmatched request is reported
    rec = stmts_with_env(ann, lambda s: isinstance(s, ast.Expr) and call_attr(s.value) == 'append' and 'resspec_counts' in u(s))
    fail = [r for r in rec if "'success': False" in u(r[0])]
    ok_fail = len(fail) == 1 and any(k[0] == 'truth' and k[1].startswith('_resiter(') for k in flow.atoms_of(fail[0][1]))
    ck.ob('MPT-report', mod.loc(ann), ok_fail, 'a request that matches no residue of a molecule is recorded as a failure for that molecule', key='MPT-report|record-failure')
    # the consumer (run_system) reads "some entry says success" as "nothing to report for this molecule": a success entry is therefore written once per
    # molecule, after all requests were tried -- not once per request that matched (which would hide every request that did not)
    succ = [r for r in rec if "'success': True" in u(r[0])]
    ok_succ = len(succ) == 1 and not [l for l in mod.ancestors(succ[0][0]) if isinstance(l, (ast.For, ast.While))]
    ck.ob('MPT-report', mod.loc(ann), ok_succ, 'the "all fine" entry of a molecule is written once, after the loops over the requests ({} site(s){})'.format(
        len(succ), '' if ok_succ or not succ else ', inside a loop'), key='MPT-report|success-once')
    warn = [c for c in walk_local(rs) if isinstance(c, ast.Call) and call_attr(c) == 'warning']
    per_request = False
    if warn:
        loops = [l for l in mod.ancestors(warn[0]) if isinstance(l, (ast.For, ast.While))]
        per_request = bool(loops)
    ck.ob('MPT-report', mod.loc(rs), len(warn) >= 1 and per_request,
          'run_system reports every request that was found in no molecule (the warning is issued per unmatched request, not once for the whole run)',
          key='MPT-report|per-request')

    # ------------------------------------------------------------ MPT: unknown target is an error; all atoms annotated
    stores = [s for s in ast.walk(resiter) if isinstance(s, ast.Assign) and isinstance(s.targets[0], ast.Subscript) and 'molecule.nodes[' in u(s.targets[0])]
    ck.need(len(stores) == 1, '_resiter: annotation store not found')
    store = stores[0]
    guarded_by_raise(ck, mod, resiter, lambda s: s is mod.enclosing(store, ast.For), has_atom('In', 'mod', 'library'), 'unknown mutation/modification target',
                     'MPT-unknown-target', rule='MPT-unknown-target')
    rc = [(st, c) for st, c, e in stmts_with_env(resiter, lambda s: isinstance(s, ast.Raise))]
    ok = len(rc) == 1
    if ok:
        names = {}
        for k in flow.atoms_of(rc[0][1]):
            t = ' '.join(map(str, k))
            if k[0] == 'truth' and k[1].startswith('residue_matches('):
                names[k] = 'MATCH'
            elif k[0] == 'In' and k[1] == 'mod' and k[2] == 'library':
                names[k] = 'KNOWN'
            elif k[0] == 'Eq' and "'none'" in k[1:] and 'mod' in k[1:]:
                names[k] = 'NONE'
        ok = flow.equivalent(flow.rename(rc[0][1], names), flow.parse_formula('MATCH and not NONE and not KNOWN'))[0] and len(names) == 3
    ck.ob('MPT-unknown-target', mod.loc(resiter), ok, 'the error is raised exactly for a matching residue whose target is neither "none" nor in the library', key='MPT-unknown-target|exact')
    inner = mod.enclosing(store, ast.For)
    outer = mod.enclosing(inner, ast.For)
    ok = u(inner.iter) == "res['graph']" and unconditional_in(resiter, inner.body, store) and \
        u(store.targets[0]) == 'molecule.nodes[{}][key]'.format(u(inner.target)) and u(store.value) == 'molecule.nodes[{}].get(key, []) + [mod]'.format(u(inner.target))
    ck.ob('MPT-all-atoms', mod.loc(store), ok, 'every atom of a matched residue is annotated, unconditionally, appending to what it already carries', key='MPT-all-atoms')
    rel = stmts_with_env(resiter, lambda s: s is inner, stmts=outer.body)
    atoms = flow.atoms_of(rel[0][1])
    m = [k for k in atoms if k[0] == 'truth' and k[1].startswith('residue_matches(resspec, residue_graph, ')]
    ok = len(m) == 1 and flow.implies(rel[0][1], ('atom', m[0]))[0] and u(outer.iter) == 'residue_graph' and \
        all(k is m[0] or k[0] in ('In', 'Eq') for k in atoms)
    ck.ob('MPT-all-atoms', mod.loc(outer), ok, 'exactly the residues accepted by residue_matches are annotated (all residues of the graph are tried)', key='MPT-all-atoms|matched-only')
    rgdef = single_def(ann, 'residue_graph')
    ck.ob('MPT-all-atoms', mod.loc(ann), rgdef is not None and u(rgdef) == 'make_residue_graph(molecule)', 'residues are those of the canonical residue graph of the molecule',
          key='MPT-all-atoms|residue-graph')
    # every request of both lists is tried
    loops = [l for l in ann.body if isinstance(l, ast.For)]
    ok = len(loops) == 1 and u(loops[0].iter) == 'associations'
    if ok:
        inner2 = [l for l in loops[0].body if isinstance(l, ast.For)]
        ok = len(inner2) == 1 and u(inner2[0].iter) == u(loops[0].target.elts[0]) and len(loops[0].body) == 1
        calls = [s for s in inner2[0].body if any(isinstance(c, ast.Call) and call_name(c) == '_resiter' for c in ast.walk(s))] if ok else []
        ok = ok and len(calls) == 1 and unconditional_in(ann, inner2[0].body, calls[0])
        if ok:
            rc_ = [c for c in ast.walk(calls[0]) if isinstance(c, ast.Call) and call_name(c) == '_resiter']
            ok = len(rc_) == 1 and evaluated_whenever_statement_runs(mod, rc_[0], calls[0]) and \
                [u(a) for a in rc_[0].args] == ['mod', 'residue_graph', 'resspec', 'library', 'key', 'molecule']
    assoc = single_def(ann, 'associations')
    ok = ok and assoc is not None and "(modifications, 'modification', molecule.force_field.modifications)" in u(assoc) and \
        "(mutations, 'mutation', molecule.force_field.blocks)" in u(assoc)
    ck.ob('MPT-all-atoms', mod.loc(ann), ok, 'every modification request is looked up among the modifications and every mutation among the blocks of the force field, unconditionally',
          key='MPT-all-atoms|all-requests')

    # every request given to the processor is kept
    init = ck.need(method(cls, '__init__'), 'AnnotateMutMod.__init__ vanished')
    ck.analysed(mod, init)
    for param, attr in (('modifications', 'self.modifications'), ('mutations', 'self.mutations')):
        lps = [l for l in init.body if isinstance(l, ast.For) and u(l.iter) == param]
        ok = len(lps) == 1
        if ok:
            app = [s_ for s_ in lps[0].body if isinstance(s_, ast.Expr) and call_attr(s_.value) == 'append' and u(s_.value.func.value) == attr]
            a0, a1 = [u(e) for e in lps[0].target.elts] if isinstance(lps[0].target, ast.Tuple) else ('?', '?')
            ok = len(app) == 1 and len(lps[0].body) == 1 and u(app[0].value.args[0]) == '(parse_residue_spec({}), {})'.format(a0, a1)
        ck.ob('MPT-all-requests', mod.loc(init), ok, 'every {} request handed to the processor is parsed and kept, whatever its target'.format(param[:-1]), key='MPT-all-requests|' + param)
    rmm = ck.need(method(cls, 'run_molecule'), 'AnnotateMutMod.run_molecule vanished')
    ck.ob('MPT-all-requests', mod.loc(rmm), 'annotate_modifications(molecule, self.modifications, self.mutations, self.resspec_counts)' in u(rmm),
          'and all of them are applied to every molecule', key='MPT-all-requests|run_molecule')
    # all residues are tried for every request (no early exit from the residue loop)
    rl = [l for l in resiter.body if isinstance(l, ast.For) and u(l.iter) == 'residue_graph']
    ok = len(rl) == 1 and not any(isinstance(n, (ast.Break, ast.Return)) for n in ast.walk(rl[0]))
    ck.ob('MPT-all-atoms', mod.loc(resiter), ok, 'the residue loop runs over all residues: several residues can match one request (e.g. insertion codes)', key='MPT-all-atoms|no-early-exit')

    # ------------------------------------------------------------ DT: terminal rule
    rets = stmts_with_env(term, lambda s: isinstance(s, ast.Return))
    by = {}
    for st, c, e in rets:
        val = flow.to_formula(st.value, e) if not isinstance(st.value, ast.Constant) else st.value.value
        by[u(st.value)] = (c, val, e)
    want_n = ('atom', ('Gt', "residue_graph.nodes[list(residue_graph[res_idx])[0]].get('resid', 0)", "residue_graph.nodes[res_idx].get('resid', 0)"))
    ok_n = ok_c = ok_np = False
    for txt, (c, val, e) in by.items():
        atoms = {k: ' '.join(map(str, k)) for k in flow.atoms_of(c)}
        is_n = [k for k, t in atoms.items() if k[0] == 'Eq' and "'nter'" in k[1:]]
        is_c = [k for k, t in atoms.items() if k[0] == 'Eq' and "'cter'" in k[1:]]
        prot = [k for k, t in atoms.items() if k[0] == 'truth' and k[1].startswith('is_protein(')]
        if val is False:
            ok_np = bool(prot) and flow.equivalent(c, flow.NOT(('atom', prot[0])))[0] and "residue_graph.nodes[res_idx]['graph']" in prot[0][1]
        elif isinstance(val, tuple) and val[0] == 'atom' and val[1][0] == 'Gt':
            lo, hi = val[1][2], val[1][1]   # hi > lo
            own = "residue_graph.nodes[res_idx].get('resid', 0)"
            nb = "residue_graph.nodes[list(residue_graph[res_idx])[0]].get('resid', 0)"
            if is_n and flow.implies(c, ('atom', is_n[0]))[0]:
                ok_n = (lo, hi) == (own, nb)
            elif is_c and flow.implies(c, ('atom', is_c[0]))[0]:
                ok_c = (lo, hi) == (nb, own)
    ck.ob('DT-terminal', mod.loc(term), ok_n, 'nter: the residue number is strictly lower than that of its single neighbour', key='DT-terminal|nter')
    ck.ob('DT-terminal', mod.loc(term), ok_c, 'cter: the residue number is strictly higher than that of its single neighbour', key='DT-terminal|cter')
    ck.ob('DT-terminal', mod.loc(term), ok_np, 'a non-protein residue is never a terminus', key='DT-terminal|protein')
    ck.ob('DT-terminal', mod.loc(term), isinstance(term.body[-1], ast.Raise), 'any other terminal name is an error', key='DT-terminal|other')
    tcall = calls_with_env(rmatch, lambda c: call_name(c) == '_terminal_matches')
    ok = len(tcall) == 1
    if ok:
        c = tcall[0][2]
        names = {}
        for k in flow.atoms_of(c):
            if k[0] == 'Eq' and 'residue_graph.degree[res_idx]' in k[1:] and '1' in k[1:]:
                names[k] = 'DEG1'
            elif k[0] == 'In' and "resspec.get('resname')" == k[1]:
                names[k] = 'TERMNAME'
        ok = flow.equivalent(flow.rename(c, names), flow.parse_formula('DEG1 and TERMNAME'))[0]
    ck.ob('DT-terminal', mod.loc(rmatch), ok, 'the terminal rule applies exactly to residues with a single neighbour when nter/cter is asked for', key='DT-terminal|degree')
    # whatever else is asked (a terminus), the remaining parts of the request -- the chain -- are still compared: every way of saying "matches" ends in _subdict
    rets_ = [r_ for r_ in walk_local(rmatch) if isinstance(r_, ast.Return)]
    ok = bool(rets_) and all(try_fold(r_.value, default=1) is False or (isinstance(r_.value, ast.Call) and call_name(r_.value) == '_subdict' and u(r_.value.args[1]) == 'residue')
                             for r_ in rets_)
    ck.ob('DT-terminal', mod.loc(rmatch), ok, 'a residue is accepted only through the comparison of the remaining request parts with its chain, number, name and insertion code '
          '(`return _subdict(<request>, residue)`), also when a terminus was asked for', key='DT-terminal|chain-still-compared')
    sub = mod.func('_subdict')
    ck.analysed(mod, sub)
    def mismatch_formula(f):
        names = {}
        for k in flow.atoms_of(f):
            if k[0] == 'In' and k[1] == 'key' and k[2] == 'dict2':
                names[k] = 'HAS'
            elif k[0] == 'Eq' and 'dict2[key]' in k[1:] and 'val' in k[1:]:
                names[k] = 'SAME'
        return len(names) == len(flow.atoms_of(f)) and flow.equivalent(flow.rename(f, names), flow.parse_formula('not HAS or not SAME'))[0]
    fr = stmts_with_env(sub, lambda s: isinstance(s, ast.Return) and try_fold(s.value, default=1) is False)
    # (one `return False` under the whole mismatch test, or one per way of not matching: the union of their conditions is what counts)
    ok = len(fr) >= 1 and mismatch_formula(flow.OR(*[c_ for _s, c_, _e in fr])) and try_fold(sub.body[-1].value, default=0) is True
    if not ok:
        # the same decision as one expression: `not any(<mismatch> for key, val in dict1.items())` / `all(<match> for ...)`
        rets = [r for r in walk_local(sub) if isinstance(r, ast.Return)]
        if len(rets) == 1 and rets[0].value is not None:
            v = rets[0].value
            neg = isinstance(v, ast.UnaryOp) and isinstance(v.op, ast.Not)
            callv = v.operand if neg else v
            if isinstance(callv, ast.Call) and call_name(callv) in ('any', 'all') and callv.args and isinstance(callv.args[0], ast.GeneratorExp):
                g = callv.args[0]
                over_items = len(g.generators) == 1 and u(g.generators[0].iter) == 'dict1.items()' and not g.generators[0].ifs and u(g.generators[0].target) == '(key, val)'
                f = flow.to_formula(g.elt)
                if call_name(callv) == 'any' and neg:
                    ok = over_items and mismatch_formula(f)
                elif call_name(callv) == 'all' and not neg:
                    ok = over_items and mismatch_formula(flow.NOT(f))
    ck.ob('DT-terminal', mod.loc(sub), ok, 'a residue matches when every given part (chain, resname, resid) is present and equal; parts not given do not restrict',
          key='DT-terminal|all-parts')
    ret = [s for s in rmatch.body if isinstance(s, ast.Return) and isinstance(s.value, ast.Call)]
    rd = single_def(rmatch, 'residue')
    ck.ob('DT-terminal', mod.loc(rmatch), len(ret) == 1 and u(ret[0].value) == '_subdict(resspec, residue)' and rd is not None and
          isinstance(rd, ast.DictComp) and len(rd.generators) == 1 and not rd.generators[0].ifs and
          list(try_fold(rd.generators[0].iter, default=None) or ()) == ['chain', 'resid', 'resname', 'insertion_code'] and
          u(rd.key) == u(rd.generators[0].target) and u(rd.value) == 'res_node.get({})'.format(u(rd.generators[0].target)),
          'the parts are compared with chain, resid, resname and insertion code of the residue', key='DT-terminal|fields')

    # ------------------------------------------------------------ specification parser: the explicit separator
    star = [(i, st) for i, st in enumerate(parse.body) if isinstance(st, ast.Assign) and isinstance(st.targets[0], ast.Tuple)
            and any(isinstance(e, ast.Starred) for e in st.targets[0].elts) and "rsplit('#', 1)" in u(st.value)]
    ok = len(star) == 1
    if ok:
        i, st = star[0]
        rest = [u(e.value) for e in st.targets[0].elts if isinstance(e, ast.Starred)][0]
        nxt = parse.body[i + 1] if i + 1 < len(parse.body) else None
        ok = isinstance(nxt, ast.If) and u(nxt.test) == rest and any(isinstance(x, ast.Assign) and u(x.targets[0]) == 'resname' and u(x.value) == u(st.targets[0].elts[0])
                                                                   for x in nxt.body)
        ok = ok and any(isinstance(x, ast.Assign) and u(x.targets[0]) == rest and u(x.value) == rest + '[0]' for x in nxt.body)
    ck.ob('PROV-spec-separator', mod.loc(parse), ok,
          'a specification with an explicit "#" takes everything before it as the residue name (the branch is decided by the presence of the separator, '
          'not by what follows it)', key='PROV-spec-separator')
    chain = [st for st in parse.body if isinstance(st, ast.Assign) and "split('-', 1)" in u(st.value)]
    ck.ob('PROV-spec-separator', mod.loc(parse), len(chain) == 1 and isinstance(chain[0].targets[0], ast.Tuple) and isinstance(chain[0].targets[0].elts[0], ast.Starred),
          'the chain is what precedes the first "-", when there is one', key='PROV-spec-separator|chain')

    # ------------------------------------------------------------ DT: the request specification is read as documented (interpreted on 21 spellings: residue number 0, an explicitly empty chain, a residue name that ends in a digit)
    from .. import interp as _interp
    cases_ = {'A-LYS2': {'chain': 'A', 'resname': 'LYS', 'resid': 2}, 'PO4#2': {'resname': 'PO4', 'resid': 2}, 'A-13': {'chain': 'A', 'resid': 13}, '14': {'resid': 14},
              'LYS': {'resname': 'LYS'}, 'A-LYS': {'chain': 'A', 'resname': 'LYS'}, 'nter': {'resname': 'nter'}, 'A-PO4#12': {'chain': 'A', 'resname': 'PO4', 'resid': 12},
              'X5': {'resname': 'X', 'resid': 5}, 'B-GLY100': {'chain': 'B', 'resname': 'GLY', 'resid': 100}, '7': {'resid': 7}, 'A-7': {'chain': 'A', 'resid': 7},
              'cter': {'resname': 'cter'}, 'AB-HIS1234': {'chain': 'AB', 'resname': 'HIS', 'resid': 1234},
              'A-SER0': {'chain': 'A', 'resname': 'SER', 'resid': 0}, '0': {'resid': 0}, 'A-0': {'chain': 'A', 'resid': 0},
              '-PHE2': {'chain': '', 'resname': 'PHE', 'resid': 2}, '-GLY': {'chain': '', 'resname': 'GLY'}, 'CYS2#': {'resname': 'CYS2'}, 'A-CYS2#14': {'chain': 'A', 'resname': 'CYS2', 'resid': 14}}
    bad_ = None
    try:
        for spec_, want_ in cases_.items():
            got_ = _interp.call(parse.body, {parse.args.args[0].arg: spec_})
            if got_ != want_:
                bad_ = '{!r} is read as {} (documented: {})'.format(spec_, got_, want_)
                break
    except (_interp.Unsupported, ValueError, TypeError, KeyError) as err_:
        bad_ = 'could not be interpreted: {}'.format(err_)
    ck.ob('DT-spec', mod.loc(parse), bad_ is None, 'a request "[<chain>-][<resname>][[#]<resid>]" is split into its parts as documented ({} spellings interpreted){}'.format(
        len(cases_), '' if bad_ is None else ' -- ' + bad_), key='DT-spec|parse_residue_spec')
    # ------------------------------------------------------------ PROV: surplus atoms of a mutated residue are dropped
    surplus_rule(ck, 'PROV-surplus')
    shared.reference_residue_rules(ck, 'MPT-all-requests')
    shared.rebuilt_atom_identity(ck, 'PROV-rebuilt')
    shared.truthy_zero(ck, [AM, RG])
    shared.runs_every_molecule(ck, 'vermouth/processors/annotate_mut_mod.py', 'AnnotateMutMod', 'MPT-every-molecule')
    shared.runs_every_molecule(ck, 'vermouth/processors/repair_graph.py', 'RepairGraph', 'MPT-every-molecule')
    ck.assume('specification parsing ambiguities and terminal detection on branched residue graphs are not decided')
