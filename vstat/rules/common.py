"""Rule building blocks shared by several properties."""
import ast

from ..index import u, walk_local
from .. import flow
from ..util import stmts_with_env


def method(cls, name):
    for item in cls.body:
        if isinstance(item, ast.FunctionDef) and item.name == name:
            return item
    return None


def raise_conditions(fn):
    return stmts_with_env(fn, lambda s: isinstance(s, ast.Raise))


def has_atom(*frags):
    def pred(key):
        text = ' '.join(str(k) for k in key)
        return all(f in text for f in frags)
    return pred


def atom_text(key):
    return ' '.join(str(k) for k in key)


def guarded_by_raise(ck, module, fn, sink_pred, atom_pred, what, key, rule='MPT-reject'):
    """Every sink is unreachable when the faulty condition (a raise whose
    reaching condition mentions an atom accepted by atom_pred) holds."""
    sinks = stmts_with_env(fn, sink_pred)
    if not sinks:
        # the construct the clause is about is gone from a function that still exists: the structural clause is false on this tree
        ck.ob(rule, module.loc(fn), False, '{}: the statement that takes effect ("{}") was not found in {} -- the rejection cannot be shown to precede it'.format(
            module.rel, what, fn.name), key=key)
        return
    raises = [(st, c) for st, c, _e in raise_conditions(fn)
              if any(atom_pred(a) for a in flow.atoms_of(c))]
    ck.analysed(module, fn)
    for st, cond, _env in sinks:
        ok = False
        why = 'no raise with the faulty condition found'
        for rst, rcond in raises:
            good, _cex, _rows = flow.implies(cond, flow.NOT(rcond))
            if good:
                ok = True
                why = 'raise at line {} under {}'.format(rst.lineno, flow.show(rcond)[:140])
                break
            why = 'sink reachable together with the faulty condition {}'.format(flow.show(rcond)[:120])
        ck.ob(rule, module.loc(st), ok, '{}: `{}` is dominated by the rejection ({})'.format(what, u(st)[:70], why), key=key)


def unconditional_in(fn, body, stmt):
    """stmt (a statement somewhere below `body`) is executed on every path
    through body that does not leave it: reaching condition valid."""
    found = stmts_with_env(fn, lambda s: s is stmt, stmts=body)
    return bool(found) and flow.valid(found[0][1])


def comp_signature(fn, node, depth=0):
    """(root source text, frozenset of filters) of an expression that is, or is
    a name bound once to, a single-generator comprehension chain."""
    from ..util import assignments_to
    if depth > 5:
        return u(node), frozenset()
    if isinstance(node, ast.Name):
        defs = assignments_to(fn, node.id)
        if len(defs) == 1 and isinstance(defs[0], (ast.ListComp, ast.GeneratorExp, ast.SetComp)):
            return comp_signature(fn, defs[0], depth + 1)
        if len(defs) == 1 and isinstance(defs[0], ast.Call) and isinstance(defs[0].func, ast.Name) and defs[0].func.id in ('list', 'tuple') \
                and len(defs[0].args) == 1:
            return comp_signature(fn, defs[0].args[0], depth + 1)
        # the loop spelling of the same thing: `name = []` and one `for v in src: [if c:] name.append(v)`
        if len(defs) == 1 and ((isinstance(defs[0], (ast.List, ast.Set)) and not defs[0].elts) or
                               (isinstance(defs[0], ast.Call) and isinstance(defs[0].func, ast.Name) and defs[0].func.id in ('list', 'set') and not defs[0].args)):
            import re
            from ..index import walk_local
            fills = []
            for loop in [l for l in walk_local(fn) if isinstance(l, ast.For) and isinstance(l.target, ast.Name)]:
                def visit(stmts, conds, loop=loop):
                    for st in stmts:
                        if isinstance(st, ast.Expr) and isinstance(st.value, ast.Call) and isinstance(st.value.func, ast.Attribute) and st.value.func.attr in ('append', 'add') \
                                and isinstance(st.value.func.value, ast.Name) and st.value.func.value.id == node.id:
                            fills.append((loop, st.value, list(conds)))
                        elif isinstance(st, ast.If) and not st.orelse:
                            visit(st.body, conds + [st.test])
                visit(loop.body, [])
            if len(fills) == 1 and len(fills[0][1].args) == 1:
                loop, _call, conds = fills[0]
                src, filters = comp_signature(fn, loop.iter, depth + 1)
                var = loop.target.id
                own = {re.sub(r'\b{}\b'.format(re.escape(var)), '_', u(c)) for c in conds}
                return src, frozenset(filters | own)
        return node.id, frozenset()
    if isinstance(node, (ast.ListComp, ast.GeneratorExp, ast.SetComp)) and len(node.generators) == 1:
        gen = node.generators[0]
        src, filters = comp_signature(fn, gen.iter, depth + 1)
        var = u(gen.target)
        own = set()
        for cond in gen.ifs:
            text = u(cond)
            # normalise the comprehension variable
            import re
            own.add(re.sub(r'\b{}\b'.format(re.escape(var)), '_', text))
        return src, frozenset(filters | own)
    return u(node), frozenset()


def comp_element(fn, node):
    """Source text of what a name bound once to a comprehension (or filled by one `for ..: name.append(e)` loop) collects per element."""
    from ..util import assignments_to
    from ..index import walk_local
    if not isinstance(node, ast.Name):
        return u(node.elt) if isinstance(node, (ast.ListComp, ast.GeneratorExp, ast.SetComp)) else None
    defs = assignments_to(fn, node.id)
    if len(defs) != 1:
        return None
    d = defs[0]
    if isinstance(d, ast.Call) and isinstance(d.func, ast.Name) and d.func.id in ('list', 'tuple') and len(d.args) == 1:
        d = d.args[0]
    if isinstance(d, (ast.ListComp, ast.GeneratorExp, ast.SetComp)):
        return u(d.elt)
    apps = [c for c in walk_local(fn) if isinstance(c, ast.Call) and isinstance(c.func, ast.Attribute) and c.func.attr in ('append', 'add') and
            isinstance(c.func.value, ast.Name) and c.func.value.id == node.id and len(c.args) == 1]
    return u(apps[0].args[0]) if len(apps) == 1 else None


def raise_condition_is(ck, module, fn, pick, classify, expected, what, key, rule='DT-reject'):
    """The reaching condition of the picked raise, over atoms named by
    `classify(key) -> name | None`, is equivalent to `expected`."""
    cands = [(st, c) for st, c, _e in raise_conditions(fn) if pick(st, c)]
    ck.analysed(module, fn)
    if len(cands) != 1:
        ck.ob(rule, module.loc(fn), False, '{}: the rejecting raise was not found uniquely in {} ({} candidate(s))'.format(what, fn.name, len(cands)), key=key)
        return
    st, cond = cands[0]
    names = {}
    unknown = []
    for k in flow.atoms_of(cond):
        nm = classify(k)
        if nm is None:
            unknown.append(atom_text(k)[:80])
        else:
            names[k] = nm
    f = flow.rename(cond, names)
    eq, cex, rows = flow.equivalent(f, flow.parse_formula(expected))
    ck.ob(rule, module.loc(st), eq and not unknown,
          '{}: the input is rejected exactly when {} ({} rows){}'.format(
              what, expected, rows, '' if eq and not unknown else ' -- found condition {}{}'.format(flow.show(f)[:200], '; unrecognised: ' + '; '.join(unknown) if unknown else '')),
          key=key)


def evaluated_whenever_statement_runs(module, expr, stmt):
    """`expr` (somewhere inside `stmt`) is evaluated every time `stmt` executes: it does not sit behind a short-circuit (`a and expr`,
    `a or expr`), in a conditional expression's arms, in a lambda or in a filtered comprehension."""
    child = expr
    for anc in module.ancestors(expr):
        if isinstance(anc, ast.BoolOp) and anc.values[0] is not child:
            return False
        if isinstance(anc, ast.IfExp) and anc.test is not child:
            return False
        if isinstance(anc, ast.Lambda):
            return False
        if isinstance(anc, (ast.ListComp, ast.SetComp, ast.DictComp, ast.GeneratorExp)) and not any(g.iter is child for g in anc.generators[:1]):
            return False
        if anc is stmt:
            return True
        child = anc
    return False
