"""Contracts of the small shared helpers the anchored functions are built on (utils, selectors, graph_utils, ...).

A rule that has read `make_bonds` or `write_pdb_string` has not read `first_alpha` or `format_atom_string`; a change there alters the behaviour of every
function that calls it without touching one line a clause rule looks at.  For every helper in the call closure of what the property's rules read, the
helper's *documented* input/output table is compared with the interpretation of its current source (own interpreter, nothing of the repository runs).
The tables come from the docstrings; one line of reason per case that is not obvious."""
import ast
import math

from .. import interp
from ..closure import closure

NAN = float('nan')
INF = float('inf')
RAISES = 'raises'
ANY_TEXT = ('any text',)


class FakeNodes(interp.Model):
    """graph.nodes: a mapping of node key -> attribute dict, iterable over the keys."""
    def __init__(self, table):
        self.table = table

    def __getitem__(self, key):
        return self.table[key]

    def __iter__(self):
        return iter(self.table)

    def __len__(self):
        return len(self.table)

    def items(self):
        return list(self.table.items())

    def keys(self):
        return list(self.table)

    def values(self):
        return list(self.table.values())

    def __call__(self, data=False):
        return list(self.table.items()) if data else list(self.table)


class FakeGraph(interp.Model):
    def __init__(self, nodes):
        self.nodes = FakeNodes(nodes)

    def __iter__(self):
        return iter(self.nodes.table)

    def __len__(self):
        return len(self.nodes.table)

    def __contains__(self, key):
        return key in self.nodes.table


class FakeEdges(interp.Model):
    def __init__(self, adjacency, data):
        self.adjacency, self.data = adjacency, data

    def __getitem__(self, pair):
        a, b = pair
        if b not in self.adjacency.get(a, ()):
            raise KeyError(pair)
        return self.data.get(frozenset(pair), {})


class FakeMolecule(FakeGraph):
    """A graph with adjacency: `mol[node]` are the neighbours, `mol.edges[a, b]` the edge attributes."""
    def __init__(self, nodes, adjacency, data=None):
        super().__init__(nodes)
        self.adjacency = adjacency
        self.edges = FakeEdges(adjacency, data or {})

    def __getitem__(self, key):
        return {n: {} for n in self.adjacency[key]}


def _undirected(edges):
    return sorted({tuple(sorted(e[:2], key=repr)) for e in edges}, key=repr)


def _with_data(edges):
    return sorted((tuple(sorted(e[:2])), tuple(sorted(e[2].items()))) for e in edges)


CHAIN4 = FakeMolecule({1: {}, 2: {}, 3: {}, 4: {}, 0: {}}, {1: [2], 2: [1, 3], 3: [2, 0], 4: [], 0: [3]}, {frozenset((1, 2)): {'distance': 0.5}})


def _first(items):
    return items[0] if isinstance(items, list) and items else items


GOSITES = FakeGraph({1: {'atype': 'P2', 'resid': 3, 'chain': 'A'}, 2: {'atype': 'mol_3', 'resid': 3, 'chain': 'A'}, 3: {'atype': 'mol_-3', 'resid': -3, 'chain': 'A'},
                     4: {'atype': 'mol_0', 'resid': 0, 'chain': 'A'}, 5: {'atype': 'mol_3b', 'resid': 3, 'chain': 'B'}, 6: {'atype': 'Q1', 'resid': 7, 'chain': 'A'}})


def _lam(text):
    return ('lambda', text)


G3 = {1: {'chain': 'A', 'resid': 1, 'resname': 'ALA', 'atomname': 'N'},
      2: {'chain': 'A', 'resid': 1, 'resname': 'ALA', 'atomname': 'CA'},
      3: {'chain': 'A', 'resid': 2, 'resname': 'ALA', 'atomname': 'N'},
      4: {'chain': 'B', 'resid': 1, 'resname': 'ALA', 'atomname': 'N'},
      5: {'chain': 'A', 'resid': 1, 'resname': 'ALA', 'atomname': 'C', 'insertion_code': 'A'}}

# (rel, qualname) -> [(positional args, keyword args, expected | (RAISES, name), reason)]
CONTRACTS = {
    ('vermouth/utils.py', 'maxes'): [
        (([3, 1, 3, 2],), {}, [3, 3], 'all maxima, in input order'),
        (([0, -1, 0],), {}, [0, 0], 'a maximal key of 0 is a key ("no maximum yet" is None, not falsy)'),
        (([-2, -3],), {}, [-2], 'negative keys'),
        (([],), {}, [], 'empty input'),
        ((['ab', 'c', 'de'],), {'key': _lam('lambda x: len(x)')}, ['ab', 'de'], 'key function'),
        (([(1, 'a'), (1, 'b'), (0, 'c')],), {'key': _lam('lambda x: x[0]')}, [(1, 'a'), (1, 'b')], 'ties keep their order'),
        (([1, 2, 2, 1, 2],), {}, [2, 2, 2], 'a later larger value resets the list, equal ones are appended'),
    ],
    ('vermouth/utils.py', 'first_alpha'): [
        (('12A3',), {}, 'A', 'first ASCII letter'),
        (('b',), {}, 'b', ''),
        ((' _z9Q',), {}, 'z', ''),
        (('é1B',), {}, 'B', 'a non-ASCII letter is not a letter here (docstring)'),
        (('123',), {}, (RAISES, 'ValueError'), 'documented: ValueError when there is none'),
        (('',), {}, (RAISES, 'ValueError'), ''),
    ],
    ('vermouth/utils.py', 'are_all_equal'): [
        (([],), {}, True, 'vacuous'),
        (([1],), {}, True, ''),
        (([1, 1, 1],), {}, True, ''),
        (([1, 1, 2],), {}, False, 'the last element counts'),
        (([2, 1, 1],), {}, False, 'the first element counts'),
        (([0, 0],), {}, True, ''),
        (([0, 1],), {}, False, 'a first element of 0 is an element'),
        (([None, 1],), {}, False, 'a first element of None is an element, not "empty"'),
        ((['a', 'a'],), {}, True, ''),
        (([0, False],), {}, True, 'compares with ==, like the callers expect'),
        (([interp.Vec((1.0, 2.0, 3.0)), interp.Vec((1.0, 2.0, 3.0))],), {}, True, 'positions (arrays): equal'),
        (([interp.Vec((1.0, 2.0, 3.0)), interp.Vec((1.0, 5.0, 6.0))],), {}, False, 'arrays that share one component are not equal (atoms of a planar residue share z)'),
        (([interp.Vec((1.0, 2.0, 3.0)), interp.Vec((1.0, 2.0, 3.0)), interp.Vec((1.0, 2.0, 4.0))],), {}, False, 'every array counts'),
    ],
    ('vermouth/utils.py', 'format_atom_string'): [
        (({'chain': 'A', 'resname': 'GLY', 'resid': 5, 'atomname': 'CA'},), {}, ANY_TEXT, 'a full node'),
        (({'atomname': 'N'},), {}, ANY_TEXT, 'missing parts do not make the message fail'),
        (({},), {}, ANY_TEXT, 'an empty node'),
        (({},), {'atomid': 3, 'chain': 'B'}, ANY_TEXT, 'keyword defaults'),
        (({'chain': 'A', 'position': (0, 0, 0), 'resid': None},), {}, ANY_TEXT, 'other attributes and None values'),
    ],
    ('vermouth/selectors.py', 'select_backbone'): [
        (({'atomname': 'BB'},), {}, True, ''), (({'atomname': 'SC1'},), {}, False, ''), (({},), {}, False, 'no name'),
        (({'atomname': 'B'},), {}, False, 'the whole name counts: a bead called B is not the backbone bead BB'), (({'atomname': ''},), {}, False, 'an empty name'),
        (({'atomname': 'CA'}, 'CA'), {}, True, 'explicit backbone name'), (({'atomname': 'BB'}, 'CA'), {}, False, ''),
    ],
    ('vermouth/selectors.py', 'proto_select_attribute_in'): [
        (({'resname': 'ALA'}, 'resname', ['ALA', 'GLY']), {}, True, ''), (({'resname': 'SER'}, 'resname', ['ALA', 'GLY']), {}, False, ''),
        (({}, 'resname', ['ALA']), {}, False, 'attribute absent'), (({'resid': 0}, 'resid', [0, 1]), {}, True, 'a value of 0 is a value'),
    ],
    ('vermouth/selectors.py', 'selector_has_position'): [
        (({},), {}, False, 'docstring: key not defined'), (({'position': None},), {}, False, 'docstring: None'),
        (({'position': (0.0, 0.0, 0.0)},), {}, True, 'the origin is a position'), (({'position': (1.0, NAN, 0.0)},), {}, False, 'docstring: not finite'),
        (({'position': (1.0, INF, 0.0)},), {}, False, 'docstring: not finite'), (({'position': (1.5, -2.0, 3.0)},), {}, True, ''),
        (({'position': (NAN, NAN, NAN)},), {}, False, ''), (({'position': (NAN, 2.0, 3.0)},), {}, False, 'one undefined coordinate is enough'),
    ],
    ('vermouth/selectors.py', 'filter_minimal'): [
        ((FakeGraph({1: {'a': 1}, 2: {'a': 0}, 3: {'a': 1}}), _lam('lambda atom: atom["a"] == 1')), {}, [1, 3], 'keys of the selected atoms, in node order'),
        ((FakeGraph({1: {'a': 1}, 2: {'a': 0}, 3: {'a': 1}}), _lam('lambda atom, v: atom["a"] == v'), 0), {}, [2], 'extra arguments reach the selector'),
        ((FakeGraph({1: {'a': 1}, 2: {'a': 0}}), _lam('lambda atom, v: atom["a"] == v')), {'v': 0}, [2], 'keyword arguments reach the selector'),
        ((FakeGraph({}), _lam('lambda atom: True')), {}, [], ''),
        ((FakeGraph({0: {'a': 1}}), _lam('lambda atom: True')), {}, [0], 'a node key 0 is a key'),
    ],
    ('vermouth/graph_utils.py', 'get_attrs'): [
        (({'chain': 'A', 'resid': 3}, ('chain', 'resid')), {}, ('A', 3), 'in the order asked for'),
        (({'chain': 'A', 'resid': 3}, ('resid', 'chain')), {}, (3, 'A'), ''),
        (({'chain': 'A'}, ('chain', 'resid', 'resname')), {}, ('A', None, None), 'docstring: missing values are None'),
        (({}, ()), {}, (), ''),
    ],
    ('vermouth/graph_utils.py', 'collect_residues'): [
        ((FakeGraph(G3),), {}, {('A', 1, 'ALA', None): {1, 2}, ('A', 2, 'ALA', None): {3}, ('B', 1, 'ALA', None): {4}, ('A', 1, 'ALA', 'A'): {5}},
         'every node in exactly one group; the default key is (chain, resid, resname, insertion_code)'),
        ((FakeGraph(G3),), {'attrs': ('chain',)}, {('A',): {1, 2, 3, 5}, ('B',): {4}}, 'explicit key'),
        ((FakeGraph({}),), {}, {}, ''),
    ],
    ('vermouth/graph_utils.py', '_items_with_common_values'): [
        ((FakeGraph({1: {'chain': 'A', 'resid': 1, 'atomname': 'N'}, 2: {'chain': 'A', 'resid': 1, 'atomname': 'CA'}}),), {}, {'chain': 'A', 'resid': 1}, 'only what all nodes share'),
        ((FakeGraph({1: {'chain': 'A', 'x': 1}, 2: {'chain': 'A'}}),), {}, {'chain': 'A'}, 'an attribute one node lacks is not common'),
        ((FakeGraph({1: {'chain': 'A', 'resid': 1}, 2: {'chain': 'A', 'resid': 1}, 3: {'chain': 'B', 'resid': 1}}), [1, 2]), {}, {'chain': 'A', 'resid': 1}, 'restricted to the given nodes'),
        ((FakeGraph({1: {'chain': 'A', 'resid': 1}, 2: {'chain': 'A', 'resid': 1}}),), {'excluded_keys': ['resid']}, {'chain': 'A'}, 'excluded keys'),
        ((FakeGraph({1: {'resid': 0, 'charge': 0.0}, 2: {'resid': 0, 'charge': 0.0}}),), {}, {'resid': 0, 'charge': 0.0}, 'common values of 0 are values'),
    ],
    ('vermouth/molecule.py', 'Molecule.edges_between'): [
        ((CHAIN4, [1], [2]), {}, [(1, 2)], 'the edge between the two bunches', _undirected),
        ((CHAIN4, [1, 2], [2, 3]), {}, [(1, 2), (2, 3)], 'every edge with one end in each bunch', _undirected),
        ((CHAIN4, [1], [3]), {}, [], 'no edge'),
        ((CHAIN4, [3, 4], [0, 1, 2]), {}, [(0, 3), (2, 3)], 'a node key 0 is a key; an isolated node has no edge', _undirected),
        ((CHAIN4, [2], [1, 3, 4]), {}, [(1, 2), (2, 3)], 'both neighbours', _undirected),
        ((CHAIN4, [], [1, 2]), {}, [], 'empty bunch'),
        ((FakeMolecule({1: {}, 'OXT': {}, 2: {}}, {1: ['OXT', 2], 'OXT': [1], 2: [1]}), [1, 'OXT', 2], [1, 'OXT', 2]), {}, [(1, 2), (1, 'OXT')],
         'node keys need not be comparable with each other (numbered atoms next to atoms added by name)', _undirected),
        ((CHAIN4, [1], [2]), {'data': True}, [((1, 2), (('distance', 0.5),))], 'with the edge attributes on request', _with_data),
    ],
    ('vermouth/processors/do_mapping.py', 'ptm_resname_match'): [
        (({'atomname': 'CA', 'resname': 'ALA', 'modifications': ['N-ter', 'C-ter']}, {'atomname': 'CA', 'resname': '', 'PTM_atom': False, 'modifications': ['C-ter']}), {}, True,
         'the modifications a mapping asks for are a subset of those on the atom (an atom carrying two modifications is still an anchor of each)'),
        (({'atomname': 'CA', 'resname': 'ALA', 'modifications': ['C-ter']}, {'atomname': 'CA', 'modifications': ['C-ter']}), {}, True, ''),
        (({'atomname': 'CA', 'resname': 'ALA', 'modifications': ['N-ter']}, {'atomname': 'CA', 'modifications': ['C-ter']}), {}, False, 'a modification the atom does not carry'),
        (({'atomname': 'CA', 'resname': 'ALA'}, {'atomname': 'CA', 'modifications': ['C-ter']}), {}, False, 'an unmodified atom does not fit a modification mapping'),
        (({'atomname': 'CA', 'resname': 'ALA', 'modifications': ['C-ter']}, {'atomname': 'CA'}), {}, True, 'a pattern node that asks for no modification'),
        (({'atomname': 'CA', 'resname': 'GLY'}, {'atomname': 'CA', 'resname': ''}), {}, True, 'docstring: an empty resname of the pattern is no condition'),
        (({'atomname': 'CA', 'resname': 'GLY'}, {'atomname': 'CA', 'resname': 'ALA'}), {}, False, ''),
        (({'atomname': 'CA'}, {'atomname': 'CA', 'PTM_atom': False}), {}, True, 'docstring: a false PTM_atom of the pattern is no condition'),
        (({'atomname': 'OXT'}, {'atomname': 'OXT', 'PTM_atom': True}), {}, False, 'a PTM atom of the pattern needs a PTM atom'),
        (({'atomname': 'OXT', 'PTM_atom': True}, {'atomname': 'OXT', 'PTM_atom': True}), {}, True, ''),
        (({'atomname': 'BB', '_old_atomname': 'CA'}, {'atomname': 'CA'}), {}, True, 'the name before an earlier modification renamed the atom counts'),
        (({'atomname': 'CA', '_old_atomname': 'CB'}, {'atomname': 'CA'}), {}, False, ''),
        (({'atomname': 'CA', 'charge': 0, 'resid': 1, 'atype': 'C'}, {'atomname': 'CA', 'charge': 1.0, 'resid': 5, 'atype': 'P1', 'mass': 12}), {}, True,
         'type, charge, charge group, mass, resid, replace are not conditions'),
        (({'atomname': 'CA'}, {'atomname': 'CA', 'order': 1}), {}, True, 'the order of a pattern node is not a condition on an atom without one'),
        (({'atomname': 'CA', 'chain': 'A'}, {'atomname': 'CA', 'chain': 'B'}), {}, False, 'any other attribute of the pattern is a condition'),
    ],
    ('vermouth/processors/do_mapping.py', 'node_matcher'): [
        (({'atomname': 'CA', 'resname': 'ALA', 'resid': 3}, {'atomname': 'CA', 'resname': 'ALA', 'resid': 1}), {}, True, 'docstring: resid is ignored'),
        (({'atomname': 'CA', 'resname': 'ALA'}, {'atomname': 'CB', 'resname': 'ALA'}), {}, False, ''),
        (({'atomname': 'CA', 'resname': 'ALA', 'element': 'C'}, {'atomname': 'CA'}), {}, True, 'only the pattern attributes are conditions'),
        (({'atomname': 'CA'}, {'atomname': 'CA', 'atype': 'X', 'charge': 1, 'charge_group': 2, 'mass': 3, 'replace': {}, '_old_atomname': 'Q'}), {}, True, 'docstring: ignored attributes'),
        (({'atomname': 'CA'}, {'atomname': 'CA', 'resname': 'ALA'}), {}, False, 'a pattern attribute the atom lacks'),
    ],
    ('vermouth/processors/do_mapping.py', 'node_should_exist'): [
        ((FakeGraph({1: {'PTM_atom': True}, 2: {'PTM_atom': False}, 3: {}}), 1), {}, False, 'a PTM atom is added by the modification'),
        ((FakeGraph({1: {'PTM_atom': True}, 2: {'PTM_atom': False}, 3: {}}), 2), {}, True, ''),
        ((FakeGraph({1: {'PTM_atom': True}, 2: {'PTM_atom': False}, 3: {}}), 3), {}, True, 'docstring default: exists'),
    ],
    ('vermouth/rcsu/go_utils.py', 'get_go_type_from_attributes'): [
        ((GOSITES, 'mol'), {'resid': 3, 'chain': 'A'}, 'mol_3', 'the site type of the residue, not the ordinary bead of the same residue', _first),
        ((GOSITES, 'mol'), {'resid': -3, 'chain': 'A'}, 'mol_-3', 'a negative residue number is a residue number', _first),
        ((GOSITES, 'mol'), {'resid': 0, 'chain': 'A'}, 'mol_0', 'residue number 0', _first),
        ((GOSITES, 'mol'), {'resid': 3, 'chain': 'B'}, 'mol_3b', 'the chain is part of the identity', _first),
        ((GOSITES, 'mol'), {'resid': 7, 'chain': 'A'}, (RAISES, 'KeyError'), 'documented: KeyError when no site matches'),
    ],
    ('vermouth/molecule.py', 'attributes_match'): [
        (({'resname': 'ALA', 'atomname': 'CA'}, {'atomname': 'CA'}), {}, True, 'every template attribute equal'),
        (({'resname': 'ALA', 'atomname': 'CA'}, {'atomname': 'CB'}), {}, False, ''),
        (({'resname': 'ALA'}, {'atomname': 'CA'}), {}, False, 'attribute absent from the atom'),
        (({'resname': 'ALA', 'atomname': 'CA'}, {'atomname': 'CB', 'resname': 'ALA'}, ('atomname',)), {}, True, 'ignored keys'),
        (({'resname': 'ALA', 'atomname': 'CA'}, {'atomname': 'CA', 'resname': 'GLY'}), {}, False, 'the last attribute counts too'),
        (({'resname': 'ALA'}, {}), {}, True, 'an empty template matches'),
        (({'resid': 0}, {'resid': 0}), {}, True, ''),
        (({'order': 1}, {'order': 0}), {}, False, 'a template value of 0 is compared'),
    ],
}


# which property's statement rests on which helper (triaged by reading the call sites; one line of reason each).  A helper's contract is evaluated for a
# property only when the property is listed here *and* the helper is in the call closure of what the property's rules read on the current tree.
SERVES = {
    ('vermouth/molecule.py', 'Molecule.edges_between'): {
        'C01': 'do_mapping: particles of different placements are connected exactly when some of their atoms are bonded -- the bonded pairs come from edges_between',
        'C12': 'Molecule.subgraph takes its bonds from edges_between(nodes, nodes)',
        'C19': 'the patched reference block of a requested modification is anchored through modification.edges_between'},
    ('vermouth/molecule.py', 'attributes_match'): {
        'C01': 'node_matcher: whether a mapping fits an atom',
        'C05': 'whether a link (and a removal line) applies to an atom, and to the molecule (molecule_meta)',
        'C18': 'get_go_type_from_attributes: the unique virtual-site type of a residue is found by attribute match'},
    ('vermouth/utils.py', 'are_all_equal'): {
        'C04': 'a residue whose atoms carry different mutation requests is an error (repair_graph); common residue attributes (make_residue_graph)',
        'C19': 'same two uses: conflicting requests, residue attributes the request is matched against',
        'C17': 'a sequence as long as one molecule is repeated only when all molecules have the same length',
        'C15': 'residue-graph node attributes (make_residue_graph)', 'C18': 'residue-graph node attributes the contact map is matched against'},
    ('vermouth/graph_utils.py', '_items_with_common_values'): {
        'C04': 'attributes of a residue node (resname, chain, resid) the reference block is chosen by',
        'C19': 'attributes of a residue node a request is matched against', 'C18': 'attributes of a residue node the contact map is matched against',
        'C15': 'attributes of a residue node the domain criterion reads', 'C17': 'residue nodes of iter_residues'},
    ('vermouth/graph_utils.py', 'collect_residues'): {
        'C10': 'make_bonds groups atoms into residues by (mol_idx, chain, resid, resname, insertion_code): atoms of different input molecules are never fused',
        'C04': 'the residue partition repair works on', 'C19': 'the residue partition requests are matched on', 'C15': 'residue graph', 'C17': 'k-th residue',
        'C18': 'one site per backbone particle of each residue'},
    ('vermouth/graph_utils.py', 'get_attrs'): {
        'C10': 'the residue key of make_bonds', 'C04': 'residue key', 'C19': 'residue key', 'C15': 'residue key', 'C17': 'residue key', 'C18': 'residue key'},
    ('vermouth/selectors.py', 'filter_minimal'): {
        'C17': 'annotate_dssp hands DSSP the atoms that have a position', 'C18': 'the backbone particle of each residue of a contact'},
    ('vermouth/selectors.py', 'selector_has_position'): {'C17': 'which atoms DSSP sees'},
    ('vermouth/selectors.py', 'select_backbone'): {'C18': 'which particle of a residue is the backbone particle', 'C15': 'default selection of the elastic network'},
    ('vermouth/selectors.py', 'proto_select_attribute_in'): {'C15': 'selection of the elastic network by atom name'},
    ('vermouth/processors/do_mapping.py', 'ptm_resname_match'): {'C01': 'whether a modification mapping fits an atom (node_match of the modification mappings)'},
    ('vermouth/processors/do_mapping.py', 'node_matcher'): {'C01': 'whether a block mapping fits an atom'},
    ('vermouth/processors/do_mapping.py', 'node_should_exist'): {'C01': 'which atoms of a modification mapping are anchors in the molecule'},
    ('vermouth/rcsu/go_utils.py', 'get_go_type_from_attributes'): {'C18': 'the two site types of a Go pair are looked up by residue number and chain'},
    ('vermouth/utils.py', 'first_alpha'): {'C04': 'element of an atom without one (add_element_attr): the embedding is element-preserving'},
    ('vermouth/utils.py', 'maxes'): {},
    # only "a partial node never makes the message fail": the warning the property demands must come out, whatever its wording
    ('vermouth/utils.py', 'format_atom_string'): {
        'C01': 'unmapped-atom / inconsistent-data warnings', 'C04': 'missing-atom messages', 'C10': 'messages of the bond guesser', 'C14': 'unknown-input warning',
        'C16': 'reader warnings', 'C19': 'messages of repair'},
}


def _callable(ck, rel, qual, depth=0):
    """A python callable that interprets the package function (rel, qual); package helpers it calls by plain name are resolved the same way."""
    module = ck.index.mod(rel)
    fn = module.functions.get(qual)
    if fn is None:
        return None
    env = {}
    if depth < 3:
        for c in ast.walk(fn):
            if isinstance(c, ast.Call) and isinstance(c.func, ast.Name):
                name = c.func.id
                if name in module.functions and name != qual and name not in env:
                    env[name] = _callable(ck, rel, name, depth + 1)
                elif name in module.imports and name not in env:
                    modname, orig = module.imports[name]
                    for m2, q2, _f in ck.index.all_functions():
                        if q2 == (orig or name) and m2.rel.endswith(modname.lstrip('.').replace('.', '/') + '.py') and '/tests/' not in m2.rel:
                            env[name] = _callable(ck, m2.rel, q2, depth + 1)
                            break
    env = {k: v for k, v in env.items() if v is not None}
    # classes of the module named in isinstance tests: a stand-in class no plain value is an instance of
    for c in ast.walk(fn):
        if isinstance(c, ast.Name) and c.id in getattr(module, 'classes', {}) and c.id not in env:
            env[c.id] = type(c.id, (), {})
    interp.run_stmts([fn], env)
    return env[fn.name]


def _value(v):
    if isinstance(v, tuple) and len(v) == 2 and v[0] == 'lambda':
        return interp.ev(ast.parse(v[1], mode='eval').body, {})
    return v


def _same(a, b):
    if isinstance(a, float) and isinstance(b, float) and math.isnan(a) and math.isnan(b):
        return True
    return type(a) == type(b) and a == b if not isinstance(a, (int, float, bool)) else a == b and isinstance(b, (int, float, bool)) and isinstance(a, bool) == isinstance(b, bool)


def helper_contracts(ck, rule='HELPER-contract'):
    read = set()
    for item in ck.functions_analysed:
        rel, q = item.split('::', 1)
        read.add((rel, q))
    reach = closure(ck.index, read)
    n = 0
    uncovered = []
    for key in sorted(reach - read):
        if key not in CONTRACTS:
            if '/tests/' not in key[0]:
                uncovered.append(key)
            continue
    contracted = []
    expected_not_reached = sorted('{}::{}'.format(*k) for k in CONTRACTS if ck.prop in SERVES.get(k, {}) and k not in reach)
    for key in sorted(k for k in CONTRACTS if k in reach and ck.prop in SERVES.get(k, {})):
        rel, qual = key
        module = ck.index.mod(rel)
        fn = ck.need(module.functions.get(qual), 'helper {}::{} vanished'.format(rel, qual))
        contracted.append((module, fn))
        try:
            f = _callable(ck, rel, qual)
        except interp.Unsupported as err:
            ck.need(False, 'helper {}::{} cannot be interpreted: {}'.format(rel, qual, err))
        bad = None
        for case in CONTRACTS[key]:
            args, kwargs, want, reason = case[:4]
            post = case[4] if len(case) > 4 else None
            if post is _undirected:
                want = _undirected(want)
            n += 1
            try:
                got = f(*[_value(a) for a in args], **{k: _value(v) for k, v in kwargs.items()})
            except interp.Raised as err:
                got = (RAISES, str(err.args[0]).split('(')[0].split('.')[-1])
            except interp.Unsupported as err:
                ck.need(False, 'helper {}::{} cannot be interpreted on {}: {}'.format(rel, qual, args, err))
            except Exception as err:  # pylint: disable=broad-except
                got = (RAISES, type(err).__name__)
            if post is not None and not (isinstance(got, tuple) and got and got[0] == RAISES):
                try:
                    got = post(got)
                except Exception as err:  # pylint: disable=broad-except
                    got = ('unusable result', repr(err))
            if want is ANY_TEXT:
                ok = isinstance(got, str)
            elif isinstance(got, list) and isinstance(want, list) or isinstance(got, dict) or isinstance(got, tuple) or isinstance(got, str):
                ok = got == want
            else:
                ok = _same(got, want)
            if not ok and bad is None:
                bad = '{}({}{}) gives {!r}, documented: {!r}{}'.format(qual, ', '.join(repr(a) if not isinstance(a, interp.Model) else '<graph>' for a in args),
                                                                       ''.join(', {}={!r}'.format(k, v) for k, v in kwargs.items()), got, want,
                                                                       ' ({})'.format(reason) if reason else '')
        ck.ob(rule, module.loc(fn), bad is None, 'helper {} (reached from the functions this property\'s rules read) behaves as documented on {} cases{}'.format(
            qual, len(CONTRACTS[key]), '' if bad is None else ' -- ' + bad), key='{}|{}|{}'.format(rule, rel, qual))
    # tables of names that the reached code looks things up in (PROTEIN_RESIDUES, ..): no two literals fused by a missing comma
    from . import shared
    shared.no_fused_strings(ck, sorted({rel for rel, _q in reach if '/tests/' not in rel}))
    # a contracted helper counts as read from here on (it is a target of the robustness fuzzers like any function a rule reads)
    for module_, fn_ in contracted:
        ck.analysed(module_, fn_)
    ck.extra['closure'] = {'functions_read': len(read), 'reachable_within_5_calls': len(reach - read),
                           'helpers_with_contract': sorted('{}::{} ({})'.format(k[0], k[1], SERVES[k][ck.prop]) for k in CONTRACTS if k in reach and ck.prop in SERVES.get(k, {})),
                           'helpers_triaged_but_not_reached_on_this_tree': expected_not_reached,
                           'reachable_not_read_by_a_rule': sorted('{}::{}'.format(*k) for k in uncovered)[:80]}
    return n

